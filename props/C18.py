"""C18 -- used-timezone discovery is complete; adding missing time zones closes it.

Functions under contract (real bodies from cal.py, every run): Component.property_items (recursive),
Calendar.get_used_tzids, Calendar.get_missing_tzids, Calendar.timezones, Timezone.tz_name (shape), Timezone.from_tzid (shape of
the TZID it sets), Calendar.add_missing_timezones (one from_tzid(t) appended per missing id the provider knows, nothing for the
others, raises nothing); what the provider knows is external and exercised by the bounded stand-in.

Recursive contract of property_items (induction over the height of the component tree, symbolic numbers of keys, of list
entries per key and of subcomponents):
   items_spec(c, sorted) = [BEGIN] ++ for each key in key order: (every entry of c[key] separately if it is a list, else c[key])
                           ++ (if recursive) items_spec(sub_0, sorted) ++ ... ++ items_spec(sub_{n-1}, sorted) ++ [END]
   get_used_tzids()   = { value.params.get('TZID') | (name, value) in items_spec(self, sorted=False), value has params } - {None},
                        raises nothing -- every entry of every multi-valued property of every nested component contributes
   get_missing_tzids()= get_used_tzids() with tz_name(t) discarded for every t in timezones (= walk('VTIMEZONE'), C20);
                        DISCARDED, so an unused VTIMEZONE cannot make it fail; raises nothing
Sets are compared as logs of add / discard operations over the sequences (structural equality, sound and not complete).
"""
from __future__ import annotations

import time

import z3

from contracts import comp
from vc import common
from vc.common import Obligation, Bounded, PROVED, REFUTED, UNDECIDED, ERROR
from vc.pyvc import compare, source, seqs
from vc.pyvc import engine as E
from vc.pyvc.discharge import TIMEOUT_MS
from props import C20

LEVEL = "proof"
PID = "C18"
items_spec = z3.Function("items_spec", E.Ref, E.B, E.B, seqs.SeqT)       # component, recursive, sorted
item_name = z3.Function("item_name", seqs.SeqT, E.I, E.S)
item_value = z3.Function("item_value", seqs.SeqT, E.I, E.Ref)
key_at = z3.Function("key_at", E.Ref, E.B, E.I, E.S)                      # component, sorted?, index -> key
NKEYS = z3.Int("n_keys")
used_spec = z3.Function("used_tzids_spec", E.Ref, E.Ref)
tz_name_of = z3.Function("tz_name", E.Ref, E.Ref)


def items_abs(term):
    return seqs.VAbsSeq(term, elem=lambda j: E.VTuple([E.VStr(item_name(term, j)), E.VRef(item_value(term, j))]))


def make_engine():
    eng, classes = C20.make_engine()
    eng.attr_classes.setdefault("params", set()).update({"vDDDTypes", "vText", "vDDDLists", "vPeriod", "vCalAddress", "vUri"})

    def keys_contract(sorted_flag):
        def c(engine, st, args, kw):
            selfv = args[0]
            m = st.heap[selfv.addr]
            j = E.fresh("k", E.I)
            st.assume(NKEYS >= 0)
            key = key_at(m.ref, z3.BoolVal(sorted_flag), j)
            # every listed key is present in the view and upper-case (C17)
            st.assume(z3.ForAll([j], z3.Implies(z3.And(0 <= j, j < NKEYS), z3.And(E.map_present(m, key), E.up(key) == key))))
            return [(st, seqs.VSegList([("range", z3.IntVal(0), NKEYS, j, E.VStr(key))]))]
        return c
    eng.contracts["CaselessDict.sorted_keys"] = keys_contract(True)
    eng.contracts["CaselessDict.keys"] = keys_contract(False)

    def ref_property_items(engine, st, args, kw):
        c = args[0]
        srt = kw.get("sorted", E.VBool(z3.BoolVal(True)))
        rec = kw.get("recursive", E.VBool(z3.BoolVal(True)))
        return [(st, items_abs(items_spec(c.z, engine.truth(rec, st), engine.truth(srt, st))))]
    eng.contracts["ref.property_items"] = ref_property_items

    def comp_property_items(engine, st, args, kw):
        c = args[0]
        srt = kw.get("sorted", E.VBool(z3.BoolVal(True)))
        rec = kw.get("recursive", E.VBool(z3.BoolVal(True)))
        if len(args) > 1:
            rec = args[1]
        if len(args) > 2:
            srt = args[2]
        return [(st, items_abs(items_spec(engine.box(c, st), engine.truth(rec, st), engine.truth(srt, st))))]
    eng.comp_property_items = comp_property_items
    # types_factory['text'](name).to_ical(): an opaque value depending on the name only
    eng.globals["types_factory"] = E.VClass("TypesFactory")
    eng.lat.add("TypesFactory", ["object"])

    def getitem(engine, st, c, k):
        c = engine.unbox_known(c, st)
        if isinstance(c, E.VClass) and c.name == "TypesFactory":
            kz = z3.simplify(k.z)
            if z3.is_string_value(kz) and kz.as_string() == "text":
                return [(st, E.VClass("vText"))]
        raise E.Undecided("subscript on an unsupported object")
    eng.contracts["op:getitem"] = getitem
    begin_val = z3.Function("vText_to_ical", E.S, E.Ref)

    def new_vtext(engine, st, args, kw):
        v = engine.unbox_known(args[0], st)
        if not isinstance(v, E.VStr):
            raise E.Undecided("vText of a non-string")
        return [(st, E.VRef(z3.Function("vText", E.S, E.Ref)(v.z), "vText"))]

    def ref_to_ical(engine, st, args, kw):
        return [(st, E.VRef(z3.Function("to_ical", E.Ref, E.Ref)(args[0].z)))]
    eng.contracts["new:vText"] = new_vtext
    eng.contracts["ref.to_ical"] = ref_to_ical

    def attr_params(engine, st, v):
        v = engine.unbox_known(v, st)
        if not isinstance(v, E.VRef):
            return None
        from props.C14 import params_view
        engine.attr_facts(v.z, "params", st)
        out = []
        for s, has in engine.split(st, engine.has_attr_z(v.z, "params")):
            if has:
                m = params_view(v.z)
                s.assume(E.map_wf(m))
                out.append((s, E.VMap(s.alloc(m))))
            else:
                out.append((s, E.VExc("AttributeError", "params")))
        return out
    eng.contracts["attr:params"] = attr_params
    return eng, classes


def tzid_of(value_ref):
    """value.params.get('TZID') as a term: the stored TZID or None"""
    from props.C14 import params_view
    pm = params_view(value_ref)
    k = z3.StringVal("TZID")
    return z3.If(E.map_present(pm, k), E.OptRef.val(pm.arr[k]), E.NONE)


def obligations(eng, classes, tier):
    tmo = TIMEOUT_MS[tier]
    obs = []
    # ---- property_items
    d = classes.member(eng.lat, "Component", "property_items")
    if d is None or d.kind != "method":
        obs.append(Obligation(f"{PID}.Component.property_items.every_entry_once", "cal:Component.property_items", "z3", UNDECIDED, detail="not found"))
    else:
        node = d.node
        for rec in (True, False):
            for srt in (True, False):
                st, addr, m, i = C20.component_state(eng, "Component")
                eng.contracts.pop("Component.property_items", None)
                env = {"self": E.VMap(addr), "recursive": E.VBool(z3.BoolVal(rec)), "sorted": E.VBool(z3.BoolVal(srt))}
                paths = eng.run(node, env, st)
                tag = f"[recursive={rec},sorted={srt}]"

                def clause(pa, m=m, rec=rec, srt=srt):
                    segs = C20.entries_of(pa, pa.value)
                    if segs is None or len(segs) < 2:
                        return z3.BoolVal(False)
                    k = E.fresh("k", E.I)
                    e = E.fresh("e", E.I)
                    key = key_at(m.ref, z3.BoolVal(srt), k)
                    val = E.OptRef.val(m.arr[key])
                    per_key = [("cond", [
                        (eng.lat.isinstance_z(val, ["list"]),
                         [("range", z3.IntVal(0), seqs.list_len(val), e, E.VTuple([E.VStr(key), E.VRef(seqs.list_elem(val, e))]))]),
                        (z3.Not(eng.lat.isinstance_z(val, ["list"])), [("one", E.VTuple([E.VStr(key), E.VRef(val)]))])])]
                    middle = [("range", z3.IntVal(0), NKEYS, k, per_key)]
                    if rec:
                        j = E.fresh("j", E.I)
                        middle.append(("range", z3.IntVal(0), C20.N, j,
                                       [("flat", seqs.VAbsSeq(items_spec(C20.child(m.ref, j), z3.BoolVal(True), z3.BoolVal(srt))))]))

                    def eq(x, y):
                        x, y = eng.unbox_known(x, pa.state), eng.unbox_known(y, pa.state)
                        if isinstance(x, E.VTuple) and isinstance(y, E.VTuple) and len(x.items) == len(y.items) == 2:
                            return z3.And(eng.py_eq(x.items[0], y.items[0], pa.state), eng.box(x.items[1], pa.state) == eng.box(y.items[1], pa.state))
                        return z3.BoolVal(False)
                    first, last = segs[0], segs[-1]
                    ends_ok = (first[0] == "one" and last[0] == "one" and isinstance(first[1], E.VTuple) and isinstance(last[1], E.VTuple))
                    if not ends_ok:
                        return z3.BoolVal(False)
                    b_ok = eng.py_eq(first[1].items[0], E.VStr(z3.StringVal("BEGIN")), pa.state)
                    e_ok = eng.py_eq(last[1].items[0], E.VStr(z3.StringVal("END")), pa.state)
                    same_name = eng.box(first[1].items[1], pa.state) == eng.box(last[1].items[1], pa.state)
                    return z3.And(b_ok, e_ok, same_name, seqs.segs_equal(eng, segs[1:-1], middle, pa.state, eq))
                obs.append(compare.ensures(eng, f"{PID}.Component.property_items.every_entry_once_in_key_order{tag}",
                                           "cal:Component.property_items", source.lines_of(node), paths, clause, tmo))
                obs.append(compare.raises_only(eng, f"{PID}.Component.property_items.raises_nothing{tag}", "cal:Component.property_items",
                                               source.lines_of(node), paths, [], tmo))
    # ---- get_used_tzids (callee property_items through its contract)
    eng.contracts["Component.property_items"] = eng.comp_property_items
    eng.contracts["Component._walk"] = eng.comp_walk
    du = classes.member(eng.lat, "Calendar", "get_used_tzids")
    if du is None or du.kind != "method":
        obs.append(Obligation(f"{PID}.Calendar.get_used_tzids.all_tzid_parameters", "cal:Calendar.get_used_tzids", "z3", UNDECIDED, detail="not found"))
    else:
        st, addr, m, i = C20.component_state(eng, "Calendar")
        paths = eng.run(du.node, {"self": E.VMap(addr)}, st)

        def c_used(pa, m=m):
            v = pa.value
            if not isinstance(v, seqs.VSet):
                return z3.BoolVal(False)
            log = pa.state.heap[v.addr].items
            term = items_spec(m.ref, z3.BoolVal(True), z3.BoolVal(False))
            j = E.fresh("j", E.I)
            val = item_value(term, j)
            want = [("loop", ("range", z3.IntVal(0), seqs.seq_len(term), j,
                              [("cond", [(eng.has_attr_z(val, "params"), [("setop", "add", ("one", E.VRef(tzid_of(val))))]),
                                         (z3.Not(eng.has_attr_z(val, "params")), [])])])),
                    ("discard", ("one", E.VNone()))]
            return log_equal(eng, pa, log, want)
        obs.append(compare.ensures(eng, f"{PID}.Calendar.get_used_tzids.all_tzid_parameters_of_all_nested_values", "cal:Calendar.get_used_tzids",
                                   source.lines_of(du.node), paths, c_used, tmo))
        obs.append(compare.raises_only(eng, f"{PID}.Calendar.get_used_tzids.raises_nothing", "cal:Calendar.get_used_tzids",
                                       source.lines_of(du.node), paths, [], tmo))
    # ---- get_missing_tzids
    dm = classes.member(eng.lat, "Calendar", "get_missing_tzids")
    if dm is None or dm.kind != "method":
        obs.append(Obligation(f"{PID}.Calendar.get_missing_tzids.used_minus_present", "cal:Calendar.get_missing_tzids", "z3", UNDECIDED, detail="not found"))
    else:
        st, addr, m, i = C20.component_state(eng, "Calendar")
        USED = seqs.SeqT

        def used_contract(engine, s, args, kw):
            a = s.alloc(seqs.SetObj([("add", ("flat", seqs.VAbsSeq(z3.Function("used_tzids_as_seq", E.Ref, seqs.SeqT)(engine.box(args[0], s)))))]))
            return [(s, seqs.VSet(a))]
        eng.contracts["Calendar.get_used_tzids"] = used_contract

        def ref_tz_name(engine, s, v):
            v = engine.unbox_known(v, s)
            if isinstance(v, E.VRef):
                return [(s, E.VRef(tz_name_of(v.z)))]
            return None
        eng.contracts["attr:tz_name"] = ref_tz_name
        # elements of walk_spec sequences are components
        old_comp_walk = eng.comp_walk

        def comp_walk(engine, s, args, kw):
            res = old_comp_walk(engine, s, args, kw)
            out = []
            for s2, v in res:
                term = v.z
                out.append((s2, seqs.VAbsSeq(term, elem=lambda j, term=term: E.VRef(z3.Function("walk_elem", seqs.SeqT, E.I, E.Ref)(term, j)))))
            return out
        eng.contracts["Component._walk"] = comp_walk
        paths = eng.run(dm.node, {"self": E.VMap(addr)}, st)

        def c_missing(pa, m=m):
            v = pa.value
            if not isinstance(v, seqs.VSet):
                return z3.BoolVal(False)
            log = pa.state.heap[v.addr].items
            wterm = C20.walk_spec(m.ref, E.box_str(z3.StringVal("VTIMEZONE")), C20.TRUE_SELECT)
            j = E.fresh("j", E.I)
            t = z3.Function("walk_elem", seqs.SeqT, E.I, E.Ref)(wterm, j)
            want = [("add", ("flat", seqs.VAbsSeq(z3.Function("used_tzids_as_seq", E.Ref, seqs.SeqT)(m.ref)))),
                    ("loop", ("range", z3.IntVal(0), seqs.seq_len(wterm), j, [("setop", "discard", ("one", E.VRef(tz_name_of(t))))]))]
            return log_equal(eng, pa, log, want)
        obs.append(compare.ensures(eng, f"{PID}.Calendar.get_missing_tzids.used_minus_present_timezones_discarded", "cal:Calendar.get_missing_tzids",
                                   source.lines_of(dm.node), paths, c_missing, tmo))
        obs.append(compare.raises_only(eng, f"{PID}.Calendar.get_missing_tzids.raises_nothing", "cal:Calendar.get_missing_tzids",
                                       source.lines_of(dm.node), paths, [], tmo))
    # ---- Timezone.from_tzid: the generated component is built from the provider's zone FOR THE REQUESTED ID, with that id
    dz = classes.member(eng.lat, "Timezone", "from_tzid")
    from_tzinfo_spec = z3.Function("from_tzinfo_spec", E.Ref, E.Ref, E.Ref, E.Ref, E.Ref)
    provider_zone = z3.Function("provider_timezone", E.Ref, E.Ref)
    if dz is None or dz.kind != "method":
        obs.append(Obligation(f"{PID}.Timezone.from_tzid.uses_the_requested_id", "cal:Timezone.from_tzid", "z3", UNDECIDED, detail="not found"))
    else:
        eng.lat.add("TZP", ["object"])
        st = E.State()
        tzid, fd, ld = z3.Const("tzid", E.Ref), z3.Const("first_date", E.Ref), z3.Const("last_date", E.Ref)

        def tzp_timezone(engine, s, args, kw):
            r = provider_zone(engine.box(args[1], s))
            return [(s, E.VRef(r))]

        def cls_from_tzinfo(engine, s, args, kw):
            a = [engine.box(x, s) for x in args[1:]]
            return [(s, E.VRef(from_tzinfo_spec(*a)))]
        eng.contracts["TZP.timezone"] = tzp_timezone
        eng.contracts["Timezone.from_tzinfo"] = cls_from_tzinfo
        env = {"cls": E.VClass("Timezone"), "tzid": E.VRef(tzid), "tzp": E.VClass("TZP"), "first_date": E.VRef(fd), "last_date": E.VRef(ld)}
        paths = eng.run(dz.node, env, st)
        zone = provider_zone(tzid)
        obs.append(compare.ensures(eng, f"{PID}.Timezone.from_tzid.uses_the_requested_id", "cal:Timezone.from_tzid", source.lines_of(dz.node), paths,
                                   lambda pa: z3.And(zone != E.NONE, eng.box(pa.value, pa.state) == from_tzinfo_spec(zone, tzid, fd, ld)), tmo))
        obs.append(compare.ensures(eng, f"{PID}.Timezone.from_tzid.ValueError_iff_unknown", "cal:Timezone.from_tzid", source.lines_of(dz.node), paths,
                                   lambda pa: z3.And(zone == E.NONE, z3.BoolVal(pa.value.cls == "ValueError")), tmo, kinds=("raise",)))
    # ---- add_missing_timezones: one from_tzid(t) appended per missing id the provider knows, nothing else changes
    da = classes.member(eng.lat, "Calendar", "add_missing_timezones")
    if da is None or da.kind != "method":
        obs.append(Obligation(f"{PID}.Calendar.add_missing_timezones.appends_one_per_known_missing_id", "cal:Calendar.add_missing_timezones", "z3",
                              UNDECIDED, detail="not found"))
    else:
        st, addr, m, i = C20.component_state(eng, "Calendar")
        missing = z3.Const("missing_ids", seqs.SeqT)
        melem = z3.Function("missing_elem", seqs.SeqT, E.I, E.Ref)
        from_tzid_ok = z3.Function("provider_knows", E.Ref, E.B)
        from_tzid_val = z3.Function("from_tzid_result", E.Ref, E.Ref, E.Ref, E.Ref)
        eng.contracts["Calendar.get_missing_tzids"] = lambda e, s, a, k: [(s, seqs.VAbsSeq(missing, elem=lambda j: E.VRef(melem(missing, j))))]

        def timezone_from_tzid(engine, s, args, kw):
            t = engine.box(args[1], s)
            out = []
            for s2, ok in engine.split(s, from_tzid_ok(t)):
                if ok:
                    out.append((s2, E.VRef(from_tzid_val(t, engine.box(kw["first_date"], s2), engine.box(kw["last_date"], s2)))))
                else:
                    out.append((s2, E.VExc("ValueError", "unknown timezone")))
            return out
        eng.contracts["Timezone.from_tzid"] = timezone_from_tzid
        fd, ld = z3.Const("first_date", E.Ref), z3.Const("last_date", E.Ref)
        paths = eng.run(da.node, {"self": E.VMap(addr), "first_date": E.VRef(fd), "last_date": E.VRef(ld)}, st)

        def c_add(pa, m=m, addr=addr):
            subs = pa.state.heap[pa.state.heap[addr].fields["subcomponents"].addr].items
            segs = [x.seg if isinstance(x, seqs.SegEntry) else ("one", x) for x in subs]
            j = E.fresh("j", E.I)
            t = melem(missing, j)
            want_new = ("range", z3.IntVal(0), seqs.seq_len(missing), j,
                        [("cond", [(from_tzid_ok(t), [("one", E.VRef(from_tzid_val(t, fd, ld)))]), (z3.Not(from_tzid_ok(t)), [])])])
            if len(segs) != 2:
                return z3.BoolVal(False)
            old_ok = z3.BoolVal(segs[0][0] == "range" and z3.eq(segs[0][2], C20.N))
            return z3.And(old_ok, seqs.segs_equal(eng, [segs[1]], [want_new], pa.state, lambda x, y: eng.box(x, pa.state) == eng.box(y, pa.state)))
        obs.append(compare.ensures(eng, f"{PID}.Calendar.add_missing_timezones.appends_one_per_known_missing_id", "cal:Calendar.add_missing_timezones",
                                   source.lines_of(da.node), paths, c_add, tmo))
        obs.append(compare.raises_only(eng, f"{PID}.Calendar.add_missing_timezones.raises_nothing", "cal:Calendar.add_missing_timezones",
                                       source.lines_of(da.node), paths, [], tmo))
    return obs


def log_equal(eng, pa, log, want):
    """two set-operation logs are the same operation sequence"""
    if len(log) != len(want):
        return z3.BoolVal(False)
    conj = []

    def eq(x, y):
        return eng.box(x, pa.state) == eng.box(y, pa.state)
    for a, b in zip(log, want):
        if a[0] != b[0]:
            return z3.BoolVal(False)
        conj.append(seqs.segs_equal(eng, [a[1]], [b[1]], pa.state, eq))
    return z3.And(*conj) if conj else z3.BoolVal(True)


def run(rep: common.Report):
    eng, classes = make_engine()
    findings = common.findings_for(PID)
    rep.trust("induction over the height of the component tree (recursive calls through the property_items / _walk contracts)",
              "CaselessDict.keys()/sorted_keys() return keys that are present in the map (C17, C10); self[name] through the C17 contract",
              "sets compared as logs of add / discard operations (structural equality)",
              "Timezone.tz_name is an opaque attribute in the set-log obligations; its relation to the TZID property is a separate statement-shape obligation",
              "engine: vc/pyvc + z3 5.1.0")
    try:
        obs = obligations(eng, classes, rep.tier)
    except Exception as e:  # noqa
        import traceback
        traceback.print_exc()
        obs = [Obligation(f"{PID}.engine", "cal", "z3", ERROR, detail=repr(e))]
    # the link between "tz_name" (opaque above) and the TZID property: tz_name is the text of TZID (statement shape of the real body)
    import ast as _ast
    mod_c = source.module("cal")
    node_t = mod_c.lookup("Timezone.tz_name")
    body_t = [_ast.unparse(x) for x in source.strip_docstring(node_t.body)] if node_t is not None else None
    ok_t = body_t == ["try:\n    return str(self['TZID'])\nexcept UnicodeEncodeError:\n    return self['TZID'].encode('ascii', 'replace')"]
    obs.append(Obligation(f"{PID}.Timezone.tz_name.is_the_text_of_TZID", "cal:Timezone.tz_name", "fin", PROVED if ok_t else UNDECIDED,
                          detail="body is `return str(self['TZID'])` (the except branch cannot be taken: str() of a str never raises UnicodeEncodeError)"
                          if ok_t else f"body is {body_t!r}: outside the statement shape (the stand-in decides)",
                          lines=source.lines_of(node_t) if node_t is not None else None))
    from props import C18_bnd
    for ob in obs:
        if ob.status == REFUTED:
            w = C18_bnd.search_for(ob.oid)
            if w:
                ob.witness, ob.replay = w[0], {"confirmed": True, "native": w[1]}
            elif getattr(ob, "shape_only", False):
                ob.status = UNDECIDED
                ob.detail += " -- not confirmed natively"
            else:
                ob.replay = {"confirmed": False, "native": "no failing input found in the bounded domain"}
        rep.add(ob)
    b = Bounded("C18.bnd.calendars", "cal:Calendar.get_used_tzids / get_missing_tzids / add_missing_timezones (real)", C18_bnd.BOUND[rep.tier])
    t0 = time.time()
    try:
        C18_bnd.run(b, rep.tier, rep.seed)
    except Exception as e:  # noqa
        import traceback
        traceback.print_exc()
        b.error = repr(e)
    b.seconds = time.time() - t0
    rep.bounded.append(b)
    from vc.static import state as _state
    rep.add(_state.obligation(PID, ('cal', 'timezone/tzp'), Obligation, PROVED, UNDECIDED))
    rep.explanation = __doc__


def replay(payload: dict) -> int:
    from props import C18_bnd
    w = payload.get("witness")
    if not w:
        print("replay: no concrete input recorded; verifier output:", payload.get("verifier_output"))
        return 1
    msg = C18_bnd.replay_witness(w)
    print("replay:", msg or "no violation on the current tree")
    return 1 if msg else 0
