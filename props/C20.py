"""C20 -- traversal is complete; equality is an order-insensitive equivalence.

Functions under contract (real bodies from cal.py, every run): Component._walk (recursive), Component.walk,
Calendar.events / todos / timezones, Timezone.standard / daylight, Component.__eq__ (totality on non-components).

Recursive contract of _walk (one-level unfolding; the recursive calls on the subcomponents are seen only through the
contract, so the proof is an induction over the height of the finite component tree):
    walk_spec(c, name, select) = [c | (name is None or c.name == name) and select(c)]
                                 ++ walk_spec(c.subcomponents[0], name, select) ++ ... ++ walk_spec(c.subcomponents[n-1], ...)
This IS pre-order with every nested component visited exactly once (n is an unconstrained integer: the uniform-body
loop rule with an accumulator, vc/pyvc/seqs.py).
    walk(name, select)      = walk_spec(self, upper(name) or None, select)          (case-insensitive request)
    events / todos / timezones / standard / daylight = walk with the fixed upper-case name and the always-true predicate
    _walk writes nothing to the component (frame)
    __eq__(other) for a non-component other: returns False, raises nothing
The algebra of equality (reflexive, symmetric, permutation-insensitive, sensitive to values and to the multiset of
subcomponents) and the copy protocols (deepcopy, pickle, serialise-and-parse) are a labelled bounded stand-in.
"""
from __future__ import annotations

import ast
import time

import z3

from contracts import comp, dt
from vc import common
from vc.common import Obligation, Bounded, PROVED, REFUTED, UNDECIDED, ERROR
from vc.pyvc import compare, source, seqs
from vc.pyvc import engine as E
from vc.pyvc.discharge import TIMEOUT_MS

LEVEL = "other"
PID = "C20"
walk_spec = z3.Function("walk_spec", E.Ref, E.Ref, E.Ref, seqs.SeqT)
child = z3.Function("child", E.Ref, E.I, E.Ref)
sel = z3.Function("select_holds", E.Ref, E.Ref, E.B)
TRUE_SELECT = z3.Const("select_always_true", E.Ref)
N = z3.Int("n_subcomponents")


def make_engine():
    lat = E.Lattice()
    for m in ("caselessdict", "parser", "prop", "cal"):
        lat.load_module(m)
    eng = seqs.SeqEngine(lat, {})
    classes = comp.Classes("cal", extra=())
    comp.install(eng, classes)

    def box_select(engine, st, v):
        if isinstance(v, E.VFunc):
            import ast as _ast
            if isinstance(v.node, _ast.Lambda) and isinstance(v.node.body, _ast.Constant) and v.node.body.value is True:
                st.assume(z3.ForAll([z3.Const("c!sel", E.Ref)], sel(TRUE_SELECT, z3.Const("c!sel", E.Ref))))
                return TRUE_SELECT
            raise E.Undecided("a select function other than `lambda c: True`")
        return engine.box(v, st)

    def ref_walk(engine, st, args, kw):
        c, name, select = args
        return [(st, seqs.VAbsSeq(walk_spec(c.z, engine.box(name, st), box_select(engine, st, select))))]

    def comp_walk(engine, st, args, kw):
        c, name, select = args
        return [(st, seqs.VAbsSeq(walk_spec(engine.box(c, st), engine.box(name, st), box_select(engine, st, select))))]

    def call_ref(engine, st, args, kw):
        f, c = args[0], args[1]
        return [(st, E.VBool(sel(f.z, engine.box(c, st))))]
    eng.contracts["ref._walk"] = ref_walk
    eng.contracts["call:ref"] = call_ref
    eng.comp_walk = comp_walk
    return eng, classes


def component_state(eng, cls, named=True):
    st = E.State()
    m = E.MapObj.fresh("self", cls=cls)
    i = E.fresh("i", E.I)
    st.assume(N >= 0)
    subs = st.alloc(E.ListObj([seqs.SegEntry(("range", z3.IntVal(0), N, i, E.VRef(child(m.ref, i))))]))
    m.fields["subcomponents"] = E.VList(subs)
    if cls == "Component":
        m.fields["name"] = E.VStr(z3.String("self_name"))
    addr = st.alloc(m)
    st.assume(E.map_wf(m), E.cls_of(m.ref) == eng.lat.id(cls))
    return st, addr, m, i


def self_name(eng, classes, cls, m):
    if "name" in m.fields:
        return m.fields["name"].z
    d = classes.member(eng.lat, cls, "name")
    return d.value.z


def entries_of(pa, v):
    """segments of a returned list"""
    v = v
    if isinstance(v, E.VList):
        return [x.seg if isinstance(x, seqs.SegEntry) else ("one", x) for x in pa.state.heap[v.addr].items]
    if isinstance(v, seqs.VSegList):
        return list(v.segs)
    if isinstance(v, seqs.VAbsSeq):
        return [("flat", v)]
    return None


def walk_obligations(eng, classes, tier):
    tmo = TIMEOUT_MS[tier]
    obs = []
    d = classes.member(eng.lat, "Component", "_walk")
    if d is None or d.kind != "method":
        return [Obligation(f"{PID}.Component._walk.preorder", "cal:Component._walk", "z3", UNDECIDED, detail="function not found")]
    node = d.node
    lines = source.lines_of(node)
    select = z3.Const("select", E.Ref)
    for cls in ("Component", "Event"):
        for name_case in ("none", "str"):
            st, addr, m, i = component_state(eng, cls)
            name_v = E.VNone() if name_case == "none" else E.VStr(z3.String("requested_name"))
            env = {"self": E.VMap(addr), "name": name_v, "select": E.VRef(select)}
            eng.contracts.pop("Component._walk", None)
            paths = eng.run(node, env, st)
            tag = f"[{cls},name={'None' if name_case == 'none' else 'given'}]"

            def clause(pa, m=m, name_v=name_v, cls=cls):
                segs = entries_of(pa, pa.value)
                if segs is None:
                    return z3.BoolVal(False)
                nm = E.NONE if isinstance(name_v, E.VNone) else eng.box(name_v, pa.state)
                match = z3.BoolVal(True) if isinstance(name_v, E.VNone) else (self_name(eng, classes, cls, m) == name_v.z)
                cond = z3.And(match, sel(select, m.ref))
                j = E.fresh("j", E.I)
                rest = [("range", z3.IntVal(0), N, j, [("flat", seqs.VAbsSeq(walk_spec(child(m.ref, j), nm, select)))])]
                with_self = [("one", E.VMap(addr))] + rest

                def eq(x, y):
                    return z3.BoolVal(isinstance(x, E.VMap) and isinstance(y, E.VMap) and x.addr == y.addr)
                return z3.If(cond, seqs.segs_equal(eng, segs, with_self, pa.state, eq), seqs.segs_equal(eng, segs, rest, pa.state, eq))
            obs.append(compare.ensures(eng, f"{PID}.Component._walk.preorder_each_component_once{tag}", "cal:Component._walk", lines, paths,
                                       clause, tmo))
            obs.append(compare.raises_only(eng, f"{PID}.Component._walk.raises_nothing{tag}", "cal:Component._walk", lines, paths, [], tmo))
            obs.append(compare.ensures(eng, f"{PID}.Component._walk.frame{tag}", "cal:Component._walk", lines, paths,
                                       lambda pa: z3.BoolVal(not any(a == addr for a, _ in pa.state.ghost.get("writes", []))), tmo))
    # walk(): case-insensitive request, through the _walk contract
    eng.contracts["Component._walk"] = eng.comp_walk
    dw = classes.member(eng.lat, "Component", "walk")
    if dw is None or dw.kind != "method":
        obs.append(Obligation(f"{PID}.Component.walk.upper_cases_the_request", "cal:Component.walk", "z3", UNDECIDED, detail="not found"))
    else:
        for name_case in ("none", "str"):
            st, addr, m, i = component_state(eng, "Component")
            req = z3.String("requested_name")
            name_v = E.VNone() if name_case == "none" else E.VStr(req)
            paths = eng.run(dw.node, {"self": E.VMap(addr), "name": name_v, "select": E.VRef(select)}, st)

            def c_walk(pa, m=m, name_case=name_case):
                v = pa.value
                if not isinstance(v, seqs.VAbsSeq):
                    return z3.BoolVal(False)
                nm = E.NONE if name_case == "none" else E.box_str(E.up(req))
                return v.z == walk_spec(m.ref, nm, select)
            obs.append(compare.ensures(eng, f"{PID}.Component.walk.upper_cases_the_request[name={'None' if name_case == 'none' else 'given'}]",
                                       "cal:Component.walk", source.lines_of(dw.node), paths, c_walk, tmo))
        # default predicate
        st, addr, m, i = component_state(eng, "Component")
        dres = eng.ev(dw.node.args.defaults[-1], st) if dw.node.args.defaults else []
        ok = (len(dres) == 1 and isinstance(dres[0][1], E.VFunc))
        ob = Obligation(f"{PID}.Component.walk.default_predicate_is_true", "cal:Component.walk", "fin", PROVED if ok else UNDECIDED,
                        detail="default `select` is `lambda c: True`")
        if ok:
            import ast as _ast
            nd = dres[0][1].node
            if not (isinstance(nd, _ast.Lambda) and isinstance(nd.body, _ast.Constant) and nd.body.value is True):
                ob.status, ob.detail = REFUTED, "the default select predicate is not constantly True"
        obs.append(ob)
    # accessors
    for cls, attr, want in (("Calendar", "events", "VEVENT"), ("Calendar", "todos", "VTODO"), ("Calendar", "timezones", "VTIMEZONE"),
                            ("Timezone", "standard", "STANDARD"), ("Timezone", "daylight", "DAYLIGHT")):
        da = classes.member(eng.lat, cls, attr)
        oid = f"{PID}.{cls}.{attr}.is_walk_{want}"
        if da is None or da.kind != "property_def":
            obs.append(Obligation(oid, f"cal:{cls}.{attr}", "z3", UNDECIDED, detail="property not found"))
            continue
        st, addr, m, i = component_state(eng, cls)
        paths = eng.run(da.fget, {"self": E.VMap(addr)}, st)

        def c_acc(pa, m=m, want=want):
            v = pa.value
            if not isinstance(v, seqs.VAbsSeq):
                return z3.BoolVal(False)
            return v.z == walk_spec(m.ref, E.box_str(z3.StringVal(want)), TRUE_SELECT)
        obs.append(compare.ensures(eng, oid, f"cal:{cls}.{attr}", source.lines_of(da.fget), paths, c_acc, tmo))
    # __eq__ on a non-component
    de = classes.member(eng.lat, "Component", "__eq__")
    if de is None or de.kind != "method":
        obs.append(Obligation(f"{PID}.Component.__eq__.non_component_is_False", "cal:Component.__eq__", "z3", UNDECIDED, detail="not found"))
    else:
        st, addr, m, i = component_state(eng, "Event")
        other = z3.Const("other", E.Ref)
        st.assume(z3.Not(eng.lat.isinstance_z(other, ["Component"])))
        paths = eng.run(de.node, {"self": E.VMap(addr), "other": E.VRef(other)}, st)

        def c_eq(pa):
            v = eng.unbox_known(pa.value, pa.state)
            return z3.Not(v.z) if isinstance(v, E.VBool) else z3.BoolVal(False)
        obs.append(compare.ensures(eng, f"{PID}.Component.__eq__.non_component_is_False", "cal:Component.__eq__", source.lines_of(de.node),
                                   paths, c_eq, tmo))
        obs.append(compare.raises_only(eng, f"{PID}.Component.__eq__.non_component_never_fails", "cal:Component.__eq__",
                                       source.lines_of(de.node), paths, [], tmo))
        obs += eq_prefix_obligations(eng, de.node, tmo)
        obs += eq_matching_obligation(de.node, tmo)
    return obs


def eq_prefix_obligations(eng, node, tmo):
    """the statements of Component.__eq__ BEFORE the multiset matching of the subcomponents, for two components: a different number
    of subcomponents or unequal properties (CaselessDict.__eq__: C17) answer False at once; otherwise the matching is reached.
    (The matching itself: eq_matching_obligation - a counting lemma over the exact statement list; the algebra of == on values is explored.)"""
    fn = "cal:Component.__eq__"
    oid = f"{PID}.Component.__eq__.different_number_of_subcomponents_or_unequal_properties_is_False"
    body = source.strip_docstring(node.body)
    idx = [k for k, x in enumerate(body) if isinstance(x, ast.Assign) and "list(other.subcomponents)" in ast.unparse(x.value)]
    if len(idx) != 1:
        return [Obligation(oid, fn, "z3", UNDECIDED, detail="`unmatched = list(other.subcomponents)` not found", lines=source.lines_of(node))]
    prefix = body[:idx[0]]
    st, addr, m, i = component_state(eng, "Event")
    M = z3.Int("n_subcomponents_of_other")
    other = E.MapObj.fresh("other", cls="Event")
    j = E.fresh("j", E.I)
    st.assume(M >= 0)
    other.fields["subcomponents"] = E.VList(st.alloc(E.ListObj([seqs.SegEntry(("range", z3.IntVal(0), M, j, E.VRef(child(other.ref, j))))])))
    a_other = st.alloc(other)
    st.assume(E.map_wf(other), E.cls_of(other.ref) == eng.lat.id("Event"))
    props_equal = z3.Bool("properties_equal")
    saved = eng.contracts.get("super:__eq__")
    eng.contracts["super:__eq__"] = lambda e, s, a, k: [(s, E.VBool(props_equal))]
    ob = Obligation(oid, fn, "z3", PROVED, lines=source.lines_of(node))
    try:
        st.env = {"self": E.VMap(addr), "other": E.VMap(a_other)}
        results = eng.exec_block(prefix, st)
    except E.Undecided as u:
        ob.status, ob.detail = UNDECIDED, f"outside subset: {u}"
        return [ob]
    finally:
        if saved is None:
            eng.contracts.pop("super:__eq__", None)
        else:
            eng.contracts["super:__eq__"] = saved
    from vc.pyvc.discharge import check_vc
    n = 0
    for s, sig in results:
        n += 1
        differs = z3.Or(N != M, z3.Not(props_equal))
        if sig is None:
            goal = z3.Not(differs)                       # the matching is reached only with equal counts and equal properties
        elif sig[0] == "ret":
            v = eng.unbox_known(sig[1], s)
            goal = z3.And(differs, z3.Not(v.z)) if isinstance(v, E.VBool) else z3.BoolVal(False)
        else:
            goal = z3.BoolVal(False)
        status, secs, info = check_vc(eng.axioms, [*s.pc, *s.qpc], goal, tmo)
        compare.fold_status(ob, status, secs, info, f"path {n}")
    ob.detail = ob.detail or f"{n} paths through the statements before the matching loop"
    if ob.status == REFUTED:
        ob.shape_only = True
    return [ob]


MATCH_TAIL = """
unmatched = list(other.subcomponents)
for subcomponent in self.subcomponents:
    for index, candidate in enumerate(unmatched):
        if subcomponent == candidate:
            del unmatched[index]
            break
    else:
        return False
return True
"""


def eq_matching_obligation(node, tmo):
    """The greedy matching of Component.__eq__ decides equality of the two MULTISETS of subcomponent classes.
    Stated for the exact statement list MATCH_TAIL (any other text: undecided).  Induction hypothesis (height): == on the subcomponents
    is an equivalence, so every subcomponent has a class cls(x) and x == y iff cls(x) == cls(y).  Ghost state: O[c], S_i[c], U[c] = number of
    elements of class c in other.subcomponents, self.subcomponents[:i], unmatched.  Invariant of the outer loop:
        for all c: U[c] == O[c] - S_i[c] >= 0   and   len(unmatched) == n - i          (n = len(self.subcomponents) = len(other.subcomponents))
    Assumed list facts (CPython): the inner for / else finds a candidate iff U[cls(subcomponent)] > 0; `del unmatched[index]` lowers that
    count and the length by one and nothing else; an empty list has count 0 for every class; S_n[c] >= S_{i+1}[c]."""
    import textwrap
    fn = "cal:Component.__eq__"
    oid = f"{PID}.Component.__eq__.matching_decides_equality_of_the_multisets_of_subcomponents"
    body = source.strip_docstring(node.body)
    idx = [k for k, x in enumerate(body) if isinstance(x, ast.Assign) and "list(other.subcomponents)" in ast.unparse(x.value)]
    ob = Obligation(oid, fn, "z3", PROVED, lines=source.lines_of(node))
    if len(idx) != 1:
        ob.status, ob.detail = UNDECIDED, "`unmatched = list(other.subcomponents)` not found"
        return [ob]
    want = ast.parse(textwrap.dedent(MATCH_TAIL)).body
    if [ast.dump(x) for x in body[idx[0]:]] != [ast.dump(x) for x in want]:
        ob.status, ob.detail = UNDECIDED, "the statements from `unmatched = list(other.subcomponents)` on are not the exact list the counting lemma is stated for"
        return [ob]
    A = z3.ArraySort(z3.IntSort(), z3.IntSort())
    O, S, U, Sn = z3.Const("O", A), z3.Const("S_i", A), z3.Const("U", A), z3.Const("S_n", A)
    c, x, n, i, lenU = z3.Ints("c x n i len_unmatched")
    U2, S2 = z3.Store(U, x, U[x] - 1), z3.Store(S, x, S[x] + 1)
    inv = lambda Uv, Sv, k: z3.And(Uv[k] == O[k] - Sv[k], Uv[k] >= 0)
    vcs = [
        ("initiation", [U == O, S == z3.K(z3.IntSort(), z3.IntVal(0)), O[c] >= 0, lenU == n, i == 0], z3.And(inv(U, S, c), lenU == n - i)),
        ("preservation (a candidate is found and deleted)", [inv(U, S, c), inv(U, S, x), U[x] > 0, lenU == n - i, i < n],
         z3.And(inv(U2, S2, c), lenU - 1 == n - (i + 1))),
        ("no candidate: False is right (the class of self[i] is short in other)", [inv(U, S, x), U[x] == 0, Sn[x] >= S[x] + 1], Sn[x] != O[x]),
        ("exit: True is right (every class has the same count)", [inv(U, Sn, c), lenU == n - i, i == n, z3.Implies(lenU == 0, U[c] == 0)], O[c] == Sn[c]),
    ]
    import time as _t
    proved = 0
    for name, hyps, goal in vcs:
        t0 = _t.time()
        sv = z3.Solver()
        sv.set("timeout", int(tmo * 1000))
        sv.add(*hyps)
        vac = sv.check()                       # the hypotheses must be satisfiable (no vacuous VC)
        sv.add(z3.Not(goal))
        r = sv.check()
        ob.seconds += _t.time() - t0
        if vac != z3.sat:
            ob.status, ob.detail = UNDECIDED, f"VC '{name}': hypotheses not satisfiable ({vac}) - vacuous"
            return [ob]
        if r == z3.sat:
            ob.status, ob.detail = UNDECIDED, f"VC '{name}' of the counting lemma fails: {str(sv.model())[:200]} (a lemma over ghost counts: no input of the real code follows from it)"
            return [ob]
        if r != z3.unsat:
            ob.status, ob.detail = UNDECIDED, f"VC '{name}': {r}"
            return [ob]
        proved += 1
    ob.detail = (f"{proved} VCs (initiation, preservation, both exits) of the counting invariant U[c] == O[c] - S_i[c] >= 0, len(unmatched) == n - i; "
                 "stated for the exact statement list of the matching; == on subcomponents an equivalence by induction on height; list facts assumed")
    return [ob]


def run(rep: common.Report):
    eng, classes = make_engine()
    findings = common.findings_for(PID)
    rep.trust("induction over the height of the (finite) component tree: recursive calls seen through the _walk contract",
              "loop rule: uniform body over a symbolic range with an accumulator (vc/pyvc/seqs.py)",
              "the select predicate is a pure total function (no exception, no side effect)",
              "Component.__eq__ matching: counting lemma over the EXACT statement list of the loop (transcription guard); == on subcomponents is an "
              "equivalence (induction hypothesis on height - the algebra itself is explored by the stand-in); CPython list facts: for / else finds a "
              "candidate iff one of the class is left, del removes exactly that element, an empty list holds nothing",
              "engine: vc/pyvc + z3 5.1.0")
    try:
        obs = walk_obligations(eng, classes, rep.tier)
    except Exception as e:  # noqa
        import traceback
        traceback.print_exc()
        obs = [Obligation(f"{PID}.engine", "cal", "z3", ERROR, detail=repr(e))]
    from props import C20_bnd
    for ob in obs:
        if ob.status == REFUTED:
            w = C20_bnd.search_for(ob.oid)
            if w:
                ob.witness, ob.replay = w[0], {"confirmed": True, "native": w[1]}
            elif getattr(ob, "shape_only", False):
                ob.status = UNDECIDED
                ob.detail += " -- not confirmed natively"
            else:
                ob.replay = {"confirmed": False, "native": "no failing input found in the bounded domain"}
        rep.add(ob)
    b = Bounded("C20.bnd.trees", "cal:Component.walk / __eq__ / copies (real objects)", C20_bnd.BOUND[rep.tier])
    t0 = time.time()
    try:
        C20_bnd.run(b, rep.tier, rep.seed, findings, rep.known_seen)
    except Exception as e:  # noqa
        import traceback
        traceback.print_exc()
        b.error = repr(e)
    b.seconds = time.time() - t0
    rep.bounded.append(b)
    rep.explanation = __doc__


def replay(payload: dict) -> int:
    from props import C20_bnd
    w = payload.get("witness")
    if not w:
        print("replay: no concrete input recorded; verifier output:", payload.get("verifier_output"))
        return 1
    msg = C20_bnd.replay_witness(w)
    print("replay:", msg or "no violation on the current tree")
    return 1 if msg else 0
