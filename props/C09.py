"""C09 -- the parse result is invariant under line endings, BOM, str/bytes, folds, name case.

Functions under contract (real source, every run): Contentlines.from_ical (unfold regex + NEWLINE split + dropping empty lines,
as in C06), parser_tools.to_unicode (shape: bytes are decoded with utf-8-sig), the line loop of Component.from_ical (name case),
CaselessDict lookups (C17).

Line level, decided by vc/fstc for ALL well-formed texts (physical lines without CR/LF joined by CRLF):
  E1  LF instead of CRLF:              lines(text with every CRLF replaced by LF)            == lines(text)
  E2  any other placement of folds:    lines(text with CRLF+space or CRLF+tab inserted between any two characters of any line,
                                       every choice) == lines(text)          (a non-deterministic rewrite; all choices agree)
  E3  trailing blank lines:            lines(text + CRLF CRLF ...)                            == lines(text)
  E4  BOM / str-bytes:                 to_unicode decodes bytes with 'utf-8-sig' (shape) -- a leading BOM in bytes is dropped
Name case, static relational obligation on the real loop body (a small taint analysis):
  N2  the raw parameter name in Parameters.from_ical is only validated and stored in the caseless result (no comparison, no lookup)
  N1  the raw property / component name (`name`, and `vals` in the BEGIN / END branches) is never compared or used as a
      mapping key / set member unless upper-cased first (`uname`, `.upper()`) or handed to a caseless container
      (component_factory, types_factory.for_property, Component.add: C17); a component's `name` is set from the upper-cased text
  => two texts that differ only in the letter case of names take the same branches and build the same tree.
Fixtures under every rewrite and random compositions, both providers (trees, re-serialisation, utcoffset of parsed date-times)
are a labelled bounded stand-in.
"""
from __future__ import annotations

import ast
import time

from vc import common
from vc.common import Obligation, Bounded, PROVED, REFUTED, UNDECIDED, ERROR
from vc.pyvc import source
from vc.fstc import extract, oblig
from vc.fstc import fst as F
from vc.fstc import regex as R
from vc.fstc import decide as D
from props import C06

LEVEL = "other"
PID = "C09"
M = C06.M
A = ["a", ":", " ", "\t", "\r", "\n", "é"]
A2 = A + [M]


def lines_machine():
    """Contentlines.from_ical on raw text -> marker-encoded list of lines (every kept line followed by a marker, then '')"""
    mod = source.module("parser")
    from_node = mod.lookup("Contentlines.from_ical")
    if from_node is None:
        raise extract.Outside("Contentlines.from_ical not found")
    C06.from_ical_shape(from_node)
    ex = extract.Extractor("parser", A2)
    unfold = F.regex_sub_fst(ex.regex_source("uFOLD"), "", A2)
    split = F.regex_split_fst(ex.regex_source("NEWLINE"), M, A2)

    def step(q, a):
        if a == M:
            return (True, "") if q else (True, M)
        return False, a
    drop_append = F.FST.from_function(A2, True, step, lambda q: "" if q else M)
    return F.compose_all([unfold, split, drop_append])


def wellformed():
    """physical lines without CR / LF / marker, each followed by CRLF; the first character of a line is not a space or tab
    (a content line starts with a name)"""
    import re
    line = "[^\\r\\n" + re.escape(M) + " \\t][^\\r\\n" + re.escape(M) + "]*"
    return R.dfa_from_regex(f"(?:{line}\\r\\n)+", A2, "fullmatch")


def fold_inserter():
    """non-deterministically insert CRLF+space or CRLF+tab between two characters of a line"""
    def step(q, a):
        # q: 'start' (at the beginning of a line) | 'in' (inside a line, last char was content) | 'cr'
        if a == "\r":
            return [("cr", a)]
        if a == "\n":
            return [("start", a)] if q == "cr" else []
        if a == M:
            return []
        if q == "in":
            return [("in", a), ("in", "\r\n " + a), ("in", "\r\n\t" + a)]
        return [("in", a)]
    return F.FST.from_function(A2, "start", step, lambda q: "" if q == "start" else None)


def taint_obligation():
    mod, node = source.find("cal:Component.from_ical")
    ob = Obligation(f"{PID}.N1.names_are_only_used_case_insensitively", "cal:Component.from_ical", "fin", UNDECIDED, lines=source.lines_of(node))
    if node is None:
        ob.detail = "function not found"
        return ob
    loops = [n for n in node.body if isinstance(n, ast.For)]
    if len(loops) != 1:
        ob.detail = "line loop not found"
        return ob
    loop = loops[0]
    raw = set()
    # raw sources: the targets of `... = line.parts()`
    for n in ast.walk(loop):
        if isinstance(n, ast.Assign) and isinstance(n.value, ast.Call) and ast.unparse(n.value.func).endswith(".parts") and isinstance(n.targets[0], ast.Tuple):
            elts = n.targets[0].elts
            if len(elts) == 3 and all(isinstance(x, ast.Name) for x in elts):
                raw.add(elts[0].id)           # the property / BEGIN / END name
                vals_name = elts[2].id
    if not raw:
        ob.detail = "`name, params, vals = line.parts()` not found"
        return ob
    bad = []

    def is_raw(e, names):
        return isinstance(e, ast.Name) and e.id in names

    def derived_upper(e):
        return isinstance(e, ast.Call) and isinstance(e.func, ast.Attribute) and e.func.attr in ("upper", "lower")
    # which statements are in the BEGIN / END branches (there `vals` is a component name)
    name_branches = []
    for n in ast.walk(loop):
        if isinstance(n, ast.If) and isinstance(n.test, ast.Compare) and any(isinstance(c, ast.Constant) and c.value in ("BEGIN", "END") for c in n.test.comparators):
            name_branches.append(n.body)
    in_name_branch = set()
    for body in name_branches:
        for st_ in body:
            for x in ast.walk(st_):
                in_name_branch.add(id(x))
    for n in ast.walk(loop):
        names = set(raw) | ({vals_name} if id(n) in in_name_branch else set())
        if isinstance(n, ast.Compare):
            for operand in [n.left] + list(n.comparators):
                if is_raw(operand, names):
                    bad.append((n.lineno, f"compares the raw text `{ast.unparse(n)}`"))
        if isinstance(n, ast.Subscript) and is_raw(n.slice, names) and not (isinstance(n.value, ast.Name) and n.value.id in ("component_factory", "types_factory")):
            bad.append((n.lineno, f"uses the raw text as a key: `{ast.unparse(n)}`"))
        if isinstance(n, ast.Assign):
            for t in n.targets:
                if isinstance(t, ast.Attribute) and t.attr == "name" and is_raw(n.value, names | {vals_name}):
                    bad.append((n.lineno, f"sets a component name from raw text: `{ast.unparse(n)}`"))
        if isinstance(n, ast.Call) and isinstance(n.func, ast.Attribute) and n.func.attr == "get" and n.args and is_raw(n.args[0], names) \
                and not (isinstance(n.func.value, ast.Name) and n.func.value.id in ("component_factory", "types_factory")):
            bad.append((n.lineno, f"looks the raw text up: `{ast.unparse(n)}`"))
    # names used in set / tuple literals for membership were covered by Compare; frozenset / dict built from raw names:
    if bad:
        ob.status = REFUTED
        ob.detail = f"line {bad[0][0]}: {bad[0][1]}" + (f" (+{len(bad) - 1} more)" if len(bad) > 1 else "")
        ob.shape_only = True
    else:
        ob.status = PROVED
        ob.detail = "every comparison / key use of a name in the line loop goes through .upper() or a caseless container"
    return ob


def param_name_taint_obligation():
    """N2: in Parameters.from_ical the raw parameter name (the first target of `key, val = q_split(param, '=', ...)`) is only validated
    and used as a key of the caseless result; any comparison / membership test / other lookup with it would depend on its letter case"""
    mod, node = source.find("parser:Parameters.from_ical")
    ob = Obligation(f"{PID}.N2.parameter_names_are_only_used_case_insensitively", "parser:Parameters.from_ical", "fin", UNDECIDED, lines=source.lines_of(node))
    if node is None:
        ob.detail = "function not found"
        return ob
    raw = set()
    for n in ast.walk(node):
        if isinstance(n, ast.Assign) and isinstance(n.targets[0], ast.Tuple) and isinstance(n.value, ast.Call) and ast.unparse(n.value.func) == "q_split" \
                and len(n.value.args) >= 2 and isinstance(n.value.args[1], ast.Constant) and n.value.args[1].value == "=":
            if n.targets[0].elts and isinstance(n.targets[0].elts[0], ast.Name):
                raw.add(n.targets[0].elts[0].id)
    if not raw:
        ob.detail = "`key, val = q_split(param, '=', ...)` not found"
        return ob
    result_names = {t.id for n in ast.walk(node) if isinstance(n, ast.Assign) and isinstance(n.value, ast.Call) and ast.unparse(n.value.func) == "cls"
                    for t in n.targets if isinstance(t, ast.Name)}
    bad = []
    for n in ast.walk(node):
        if isinstance(n, ast.Compare):
            for operand in [n.left] + list(n.comparators):
                if isinstance(operand, ast.Name) and operand.id in raw:
                    bad.append((n.lineno, f"compares the raw parameter name: `{ast.unparse(n)}`"))
        if isinstance(n, ast.Subscript) and isinstance(n.slice, ast.Name) and n.slice.id in raw and not (isinstance(n.value, ast.Name) and n.value.id in result_names):
            bad.append((n.lineno, f"uses the raw parameter name as a key of something that is not the caseless result: `{ast.unparse(n)}`"))
        if isinstance(n, ast.Call) and isinstance(n.func, ast.Attribute) and n.func.attr in ("get", "startswith", "endswith", "index", "count") and \
                (n.args and isinstance(n.args[0], ast.Name) and n.args[0].id in raw or isinstance(n.func.value, ast.Name) and n.func.value.id in raw):
            bad.append((n.lineno, f"looks at the raw parameter name: `{ast.unparse(n)}`"))
    if bad:
        ob.status = REFUTED
        ob.detail = f"line {bad[0][0]}: {bad[0][1]}" + (f" (+{len(bad) - 1} more)" if len(bad) > 1 else "")
        ob.shape_only = True
    else:
        ob.status = PROVED
        ob.detail = f"the raw parameter name ({', '.join(sorted(raw))}) is only validated and stored in the caseless result"
    return ob


def run(rep: common.Report):
    findings = common.findings_for(PID)
    rep.trust("engine: vc/fstc (regex transducers of uFOLD / NEWLINE compiled from the source, cross-checked in C06)",
              "caseless containers: CaselessDict / component_factory / types_factory lookups and Component.add upper-case their key (C17)",
              "to_unicode's 'utf-8-sig' codec drops exactly one leading BOM (CPython)",
              "the taint analysis is syntactic: it covers the line loop of Component.from_ical, not callees")
    from icalendar.parser import Contentlines
    fn = "parser:Contentlines.from_ical"

    def native_lines(rewrite):
        def f(text):
            return (M.join(str(x) for x in Contentlines.from_ical(rewrite(text))), M.join(str(x) for x in Contentlines.from_ical(text)))
        return f
    def native_folds(text):
        """the rewrite is a relation: look for a placement of one or two folds on which the real function differs"""
        base = M.join(str(x) for x in Contentlines.from_ical(text))
        cands = []
        pos = [i for i in range(1, len(text)) if text[i - 1] not in "\r\n" and text[i] not in "\r\n"]
        for ws in (" ", "\t"):
            for i in pos:
                cands.append(text[:i] + "\r\n" + ws + text[i:])
                for j in pos:
                    if j > i:
                        cands.append(text[:i] + "\r\n" + ws + text[i:j] + "\r\n" + ws + text[j:])
        for c in cands[:4000]:
            got = M.join(str(x) for x in Contentlines.from_ical(c))
            if got != base:
                return got, base
        return base, base
    try:
        L = lines_machine()
        dom = wellformed()
        rep.functions.add(fn)
        lf = F.replace_fst("\r\n", "\n", A2)
        rep.add(oblig.decide_equiv(f"{PID}.E1.LF_instead_of_CRLF", fn, F.compose(lf, L), L, A2, findings,
                                   native_lines(lambda t: t.replace("\r\n", "\n")), rep.known_seen, domain=dom))
        ins = fold_inserter()
        ob = oblig.decide_equiv(f"{PID}.E2.any_placement_of_folds", fn, F.compose(ins, L), L, A2, findings,
                                native_folds, rep.known_seen, domain=dom)
        rep.add(ob)
        for k, tail in (("one", "\r\n"), ("several", "\r\n\r\n\n")):
            rep.add(oblig.decide_equiv(f"{PID}.E3.trailing_blank_lines[{k}]", fn, F.compose(F.concat_const("", F.identity(A2), tail), L), L, A2,
                                       findings, native_lines(lambda t, tail=tail: t + tail), rep.known_seen, domain=dom))
    except (extract.Outside, NotImplementedError) as e:
        for k in ("E1.LF_instead_of_CRLF", "E2.any_placement_of_folds", "E3.trailing_blank_lines"):
            rep.add(Obligation(f"{PID}.{k}", fn, "fstc", UNDECIDED, detail=f"outside the fstc fragment: {e}"))
    # E4
    mod, tu = source.find("parser_tools:to_unicode")
    ob = Obligation(f"{PID}.E4.bytes_are_decoded_with_utf_8_sig", "parser_tools:to_unicode", "fin", UNDECIDED, lines=source.lines_of(tu))
    if tu is not None:
        d = tu.args.defaults
        src = ast.unparse(tu)
        body_tu = [ast.unparse(x) for x in source.strip_docstring(tu.body)]
        exact_tu = ["if isinstance(value, str):\n    return value\nelif isinstance(value, bytes):\n    try:\n        return value.decode(encoding)\n"
                    "    except UnicodeDecodeError:\n        return value.decode('utf-8-sig', 'replace')\nelse:\n    return value"]
        if d and ast.literal_eval(d[-1]) == "utf-8-sig" and body_tu == exact_tu:
            ob.status, ob.detail = PROVED, "default encoding 'utf-8-sig'; str input is returned unchanged"
        else:
            ob.status, ob.detail = REFUTED, "to_unicode is no longer exactly: str unchanged, bytes decoded with the default 'utf-8-sig' (replace on error)"
            ob.shape_only = True
    rep.add(ob)
    t = taint_obligation()
    rep.add(t)
    rep.add(param_name_taint_obligation())
    rep.functions.add("parser:Parameters.from_ical")
    from props import C09_bnd
    for ob in rep.obligations:
        if ob.status == REFUTED and getattr(ob, "shape_only", False) and ob.witness is None:
            w = C09_bnd.search_for(ob.oid)
            if w:
                ob.witness, ob.replay = w[0], {"confirmed": True, "native": w[1]}
            else:
                ob.status = UNDECIDED
                ob.detail += " -- static candidate, not confirmed natively"
    b = Bounded("C09.bnd.metamorphic", "cal:Calendar.from_ical on fixtures under rewrites (real, both providers)", C09_bnd.BOUND[rep.tier])
    t0 = time.time()
    try:
        C09_bnd.run(b, rep.tier, rep.seed, findings, rep.known_seen)
    except Exception as e:  # noqa
        import traceback
        traceback.print_exc()
        b.error = repr(e)
    b.seconds = time.time() - t0
    rep.bounded.append(b)
    rep.explanation = __doc__ + "\nLevel 'other': line-level invariance is decided for all texts and name-case handling is a static obligation on the loop; " \
        "that equal line lists and equal branches give equal TREES is the composition argument, exercised by the stand-in."


def replay(payload: dict) -> int:
    from props import C09_bnd
    w = payload.get("witness") or {}
    if "input" in w:
        from icalendar.parser import Contentlines
        t = w["input"]
        print("replay: lines", [str(x) for x in Contentlines.from_ical(t)])
        return 1
    msg = C09_bnd.replay_witness(w)
    print("replay:", msg or "no violation on the current tree")
    return 1 if msg else 0
