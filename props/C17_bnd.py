"""Bounded stand-in for C17 (labelled bounded, never counted as proved): the real CaselessDict / Parameters /
Component against a reference dict keyed by upper-cased names, over operation sequences.

Covers what the deductive part cannot see (C code of OrderedDict and the glue on top of it): construction from
mappings / pairs / keywords, update with every argument shape, copy, popitem, merge operators, fromkeys, ==/!=,
iteration order, and the canonical key ordering.
"""
import itertools
import random

KEYS = ["a", "A", "b", b"a", "ß"]
VALS = [1, None]


def K(k):
    """the reference key: the upper-cased name, bytes read as UTF-8 (own definition - not the library's to_unicode)"""
    return (k.decode("utf-8") if isinstance(k, bytes) else k).upper()


def skey(k):
    return k if isinstance(k, str) else k.decode()


def op_instances():
    ops = []
    for k in KEYS:
        ops += [("getitem", k), ("delitem", k), ("contains", k), ("has_key", k), ("get", k), ("pop", k), ("setdefault", k)]
        for v in VALS:
            ops += [("setitem", k, v), ("get2", k, v), ("pop2", k, v), ("setdefault2", k, v)]
    for k1, k2 in itertools.product(["a", "A", "b"], repeat=2):
        ops += [("update_map", k1, k2), ("update_pairs", k1, k2), ("update_kw", k1, k2), ("update_both", k1, k2),
                ("or", k1, k2), ("ior", k1, k2), ("ror", k1, k2)]
    ops += [("copy",), ("popitem",), ("eq",), ("rebuild_map",), ("rebuild_pairs",), ("rebuild_kw",), ("fromkeys",), ("order",)]
    return ops


def apply(cls, real, ref, op):
    """-> (real', ref', message or None)"""
    name = op[0]

    def both(f, g):
        try:
            a = ("ret", f())
        except Exception as e:  # noqa
            a = ("raise", type(e).__name__)
        try:
            b = ("ret", g())
        except Exception as e:  # noqa
            b = ("raise", type(e).__name__)
        return None if a == b else f"{op!r}: real {a} reference {b}"
    msg = None
    if name == "getitem":
        msg = both(lambda: real[op[1]], lambda: ref[K(op[1])])
    elif name == "setitem":
        msg = both(lambda: real.__setitem__(op[1], op[2]), lambda: ref.__setitem__(K(op[1]), op[2]))
    elif name == "delitem":
        msg = both(lambda: real.__delitem__(op[1]), lambda: ref.__delitem__(K(op[1])))
    elif name == "contains":
        msg = both(lambda: op[1] in real, lambda: K(op[1]) in ref)
    elif name == "has_key":
        msg = both(lambda: real.has_key(op[1]), lambda: K(op[1]) in ref)
    elif name == "get":
        msg = both(lambda: real.get(op[1]), lambda: ref.get(K(op[1])))
    elif name == "get2":
        msg = both(lambda: real.get(op[1], op[2]), lambda: ref.get(K(op[1]), op[2]))
    elif name == "pop":      # signature default None: never KeyError (DESIGN.md section 6)
        msg = both(lambda: real.pop(op[1]), lambda: ref.pop(K(op[1]), None))
    elif name == "pop2":
        msg = both(lambda: real.pop(op[1], op[2]), lambda: ref.pop(K(op[1]), op[2]))
    elif name == "setdefault":
        msg = both(lambda: real.setdefault(op[1]), lambda: ref.setdefault(K(op[1]), None))
    elif name == "setdefault2":
        msg = both(lambda: real.setdefault(op[1], op[2]), lambda: ref.setdefault(K(op[1]), op[2]))
    elif name in ("update_map", "update_pairs", "update_kw", "update_both", "or", "ior", "ror"):
        k1, k2 = op[1], op[2]
        pairs = [(k1, "p1"), (k2, "p2")]
        refupd = lambda ps: [ref.__setitem__(K(k), v) for k, v in ps] and None  # noqa
        if name == "update_map":
            d = {}
            for k, v in pairs:
                d[k] = v
            msg = both(lambda: real.update(d), lambda: refupd(list(d.items())))
        elif name == "update_pairs":
            msg = both(lambda: real.update(pairs), lambda: refupd(pairs))
        elif name == "update_kw":
            kw = dict(pairs)
            msg = both(lambda: real.update(**kw), lambda: refupd(list(kw.items())))
        elif name == "update_both":
            msg = both(lambda: real.update({k1: "m"}, **{k2: "kw"}), lambda: refupd([(k1, "m"), (k2, "kw")]))
        elif name == "ior":
            d = dict(pairs)
            def f():
                nonlocal real
                real |= d
            msg = both(f, lambda: refupd(list(d.items())))
            if not isinstance(real, cls):
                msg = msg or f"|= changed the type to {type(real).__name__}"
        elif name == "or":
            d = dict(pairs)
            try:
                r = real | d
                exp = dict(ref)
                for k, v in d.items():
                    exp[K(k)] = v
                if not isinstance(r, cls) or list(r.items()) != list(exp.items()):
                    msg = f"{op!r}: real | d = {type(r).__name__}{list(r.items())!r}, reference {list(exp.items())!r}"
            except Exception as e:  # noqa
                msg = f"{op!r}: raised {type(e).__name__}"
        elif name == "ror":
            d = dict(pairs)
            try:
                r = d | real
                exp = {}
                for k, v in d.items():
                    exp[K(k)] = v
                for k, v in ref.items():
                    exp[k] = v
                if dict(cls(r).items()) != exp:
                    msg = f"{op!r}: d | real = {list(r.items())!r}, reference content {exp!r}"
            except Exception as e:  # noqa
                msg = f"{op!r}: raised {type(e).__name__}"
    elif name == "copy":
        c = real.copy()
        if type(c) is not type(real) or list(c.items()) != list(ref.items()):
            msg = f"copy: {type(c).__name__}{list(c.items())!r} vs {list(ref.items())!r}"
        else:
            c["ZZ"] = 1
            if "ZZ" in real:
                msg = "copy shares storage with the original"
    elif name == "popitem":
        msg = both(lambda: real.popitem(), lambda: ref.popitem())
    elif name == "eq":
        lower = {k.lower(): v for k, v in ref.items()}
        from icalendar.cal import Component
        is_comp = issubclass(cls, Component)
        # a Component answers False for every non-component (C20); compare it with components only
        wrap = (lambda d: cls(d)) if is_comp else (lambda d: d)
        checks = [(wrap(dict(ref)), True), (cls(ref), True), (3, False), (None, False), ("x", False)]
        if len({k.lower() for k in ref}) == len(ref) and all(K(k) == K2 for k, K2 in zip(lower, ref)):
            checks.append((wrap(lower), True))
        changed = wrap(dict(ref)); changed["QQ"] = 0
        checks.append((changed, False))
        if ref:
            k0 = next(iter(ref))
            ch2 = wrap(dict(ref)); ch2[k0] = ("other", ref[k0])
            checks.append((ch2, False))
            ch3 = wrap(dict(ref)); del ch3[k0]; ch3["OTHER-NAME"] = ref[k0]
            checks.append((ch3, False))
        for other, want in checks:
            try:
                got, gotne = (real == other), (real != other)
            except Exception as e:  # noqa
                msg = f"== {other!r} raised {type(e).__name__}"
                break
            if got is not want or gotne is want:
                msg = f"{list(real.items())!r} == {other!r} -> {got} (expected {want}); != -> {gotne}"
                break
    elif name in ("rebuild_map", "rebuild_pairs", "rebuild_kw"):
        items = [(k.lower() if i % 2 else k, v) for i, (k, v) in enumerate(ref.items())]
        try:
            if name == "rebuild_map":
                r = cls(dict(items))
            elif name == "rebuild_pairs":
                r = cls(items)
            else:
                r = cls(**dict(items))
            exp = {}
            for k, v in items:
                exp[K(k)] = v
            if dict(r.items()) != exp or any(k != k.upper() for k in r.keys()):
                msg = f"{name}: {list(r.items())!r} vs {exp!r}"
        except Exception as e:  # noqa
            msg = f"{name}: raised {type(e).__name__}: {e}"
    elif name == "fromkeys":
        try:
            r = cls.fromkeys(["x", "X", "y"], 0)
            if dict(r.items()) != {"X": 0, "Y": 0} or not isinstance(r, cls):
                msg = f"fromkeys: {list(r.items())!r}"
        except Exception as e:  # noqa
            msg = f"fromkeys raised {type(e).__name__}"
    elif name == "order":
        co = getattr(real, "canonical_order", None) or ()
        want = [k for k in co if k in ref] + sorted(k for k in ref if k not in co)
        got = real.sorted_keys()
        if got != want:
            msg = f"sorted_keys: {got!r} expected {want!r}"
        elif [k for k, _ in real.sorted_items()] != want:
            msg = "sorted_items order differs from sorted_keys"
    if msg is None:
        if list(real.items()) != list(ref.items()):
            msg = f"after {op!r}: view {list(real.items())!r} reference {list(ref.items())!r}"
        elif any(not isinstance(k, str) or k != k.upper() for k in real.keys()):
            msg = f"after {op!r}: non upper-case key stored {list(real.keys())!r}"
        elif len(real) != len(ref) or list(iter(real)) != list(ref):
            msg = f"after {op!r}: len/iter differ"
    return real, ref, msg


def construction_cases():
    """construction from pairs / mappings / keywords in which the SAME name comes in several spellings, repeated and interleaved: the result
    is the dictionary obtained by assigning the entries one after the other at the upper-cased name (last value wins, first position kept)"""
    out = []
    seqs_ = []
    spell = ["a", "A", b"a", "b", "B"]
    for n in (2, 3, 4):
        for combo in itertools.product(spell, repeat=n):
            seqs_.append([(k, i) for i, k in enumerate(combo)])
    for cls in classes():
        for pairs in seqs_:
            exp, order = {}, []
            for k, v in pairs:
                kk = K(k)
                if kk not in exp:
                    order.append(kk)
                exp[kk] = v
            try:
                r = cls(pairs)
                got = list(r.items())
            except Exception as e:  # noqa
                out.append({"witness": {"ctor": True, "class": cls.__name__, "pairs": repr(pairs)}, "detail": f"{cls.__name__}({pairs!r}) raises {type(e).__name__}: {e}"})
                continue
            if got != [(k, exp[k]) for k in order]:
                out.append({"witness": {"ctor": True, "class": cls.__name__, "pairs": repr(pairs)},
                            "detail": f"{cls.__name__}({pairs!r}) has items {got!r}, assigning the entries one by one gives {[(k, exp[k]) for k in order]!r}"})
        # a mapping plus keywords: the keywords come last
        for m, kw in (({"TZID": 1, "tzid": 2}, {"TZID": 3}), ({"a": 1}, {"A": 2, "a": 3}), ({"A": 1, "b": 2}, {"a": 9})):
            exp, order = {}, []
            for k, v in list(m.items()) + list(kw.items()):
                kk = K(k)
                if kk not in exp:
                    order.append(kk)
                exp[kk] = v
            try:
                got = list(cls(m, **kw).items())
            except Exception as e:  # noqa
                got = f"raises {type(e).__name__}"
            if got != [(k, exp[k]) for k in order]:
                out.append({"witness": {"ctor": True, "class": cls.__name__, "pairs": repr((m, kw))},
                            "detail": f"{cls.__name__}({m!r}, **{kw!r}) has items {got!r}, expected {[(k, exp[k]) for k in order]!r}"})
        if len(out) > 6:
            break
    return out, len(seqs_) * len(classes())


def classes():
    from icalendar.caselessdict import CaselessDict
    from icalendar.parser import Parameters
    from icalendar.cal import Component, Event

    class Ordered(CaselessDict):
        canonical_order = ("B", "ZZ", "A")
    return [CaselessDict, Parameters, Ordered, Event]


def run_sequences(bounded, tier, seed):
    ops = op_instances()
    cls_list = classes()
    depth = 2
    fails = {}
    cases = 0
    distinct = set()

    def run_seq(cls, seq):
        nonlocal cases
        real, ref = cls(), {}
        for op in seq:
            try:
                real, ref, msg = apply(cls, real, ref, op)
            except Exception as e:  # harness problem: report as error, not a violation
                raise
            if msg:
                return msg
        return None
    for cls in cls_list:
        for n in range(1, depth + 1):
            for seq in itertools.product(ops, repeat=n):
                cases += 1
                msg = run_seq(cls, seq)
                if n == depth:
                    distinct.add(seq[:2])
                if msg and len(fails) < 20:
                    fails.setdefault(seq[-1][0] if False else msg.split(" ")[0][:24] + cls.__name__, {"witness": {"class": cls.__name__, "ops": repr(list(seq))}, "detail": msg})
    # observe - mutate - observe: an ordering (or any other derived view) computed once must not survive a later mutation by ANY operation
    for cls in cls_list:
        for setup in ([("setitem", "a", 1)], [("setitem", "a", 1), ("setitem", "b", None)], [("setitem", "B", 1), ("setitem", "a", 1), ("setitem", "ß", 1)]):
            for op in ops:
                seq = setup + [("order",), op, ("order",)]
                cases += 1
                msg = run_seq(cls, seq)
                if msg and len(fails) < 20:
                    fails.setdefault("omo" + msg.split(" ")[0][:24] + cls.__name__, {"witness": {"class": cls.__name__, "ops": repr(list(seq))}, "detail": msg})
    rnd = random.Random(seed)
    nrand = 300 if tier == "quick" else 5000
    for i in range(nrand):
        cls = cls_list[i % len(cls_list)]
        seq = [rnd.choice(ops) for _ in range(rnd.randint(3, 40))]
        cases += 1
        distinct.add(tuple(seq[:3]))
        msg = run_seq(cls, seq)
        if msg and len(fails) < 20:
            fails.setdefault(msg.split(" ")[0][:24] + cls.__name__, {"witness": {"class": cls.__name__, "ops": repr(seq)}, "detail": msg})
    kf, kn = construction_cases()
    cases += kn
    for f in kf[:4]:
        fails.setdefault("ctor" + str(len(fails)), f)
    cf, cn = canon_enum()
    cases += cn
    for f in cf:
        fails.setdefault("canon" + str(len(fails)), f)
    bounded.cases = cases
    bounded.nontrivial = len(distinct)
    bounded.failures = list(fails.values())
    bounded.samples = [repr(ops[3]), repr(ops[40]), repr(ops[-3])]
    return bounded


# ---------------------------------------------------------------------------------------------------
# canonical ordering: the real canonsort_keys against the statement, exhaustively over small inputs

def canon_check(keys, order):
    from icalendar.caselessdict import canonsort_keys
    want = sorted((k for k in keys if k in (order or ())), key=list(order or ()).index) + sorted(k for k in keys if k not in (order or ()))
    try:
        got = canonsort_keys(list(keys), order)
    except Exception as e:  # noqa
        return f"canonsort_keys({list(keys)!r}, {order!r}) raises {type(e).__name__}: {e}"
    if list(got) != want:
        return f"canonsort_keys({list(keys)!r}, {order!r}) = {list(got)!r}, expected {want!r} (priority names in declared order, then the others alphabetically)"
    return None


def canon_enum(limit_fail=3):
    """all orders of <= 4 distinct names out of 6 (and None), all key lists of <= 3 distinct names out of 8: 518 x 401 calls"""
    names = ["A", "B", "C", "D", "E", "F"]
    pool = ["A", "C", "F", "X-A", "a", "Z", "B", ""]
    fails, n = [], 0
    orders = [None] + [tuple(p) for r in range(0, 5) for p in itertools.permutations(names, r)]
    keysets = [tuple(p) for r in range(0, 4) for p in itertools.permutations(pool, r)]
    for order in orders:
        for keys in keysets:
            n += 1
            msg = canon_check(keys, order)
            if msg and len(fails) < limit_fail:
                fails.append({"witness": {"canon": True, "keys": list(keys), "order": None if order is None else list(order)}, "detail": msg})
    # the classes' own declared orders with few keys (a priority name declared late, next to other names)
    from icalendar import cal, prop
    for cls in (cal.Calendar, cal.Event, cal.Todo, cal.Timezone, cal.Alarm, prop.vRecur):
        co = getattr(cls, "canonical_order", None) or ()
        for r in (1, 2):
            for prio in itertools.combinations(co, r):
                for other in ((), ("X-OTHER",), ("AAA", "X-OTHER")):
                    keys = list(other) + list(reversed(prio))
                    n += 1
                    obj = cls()
                    for k in list(obj.keys()):
                        del obj[k]
                    for k in keys:
                        obj[k] = []
                    want = sorted(prio, key=co.index) + sorted(other)
                    got = obj.sorted_keys()
                    if got != want and len(fails) < limit_fail + 2:
                        fails.append({"witness": {"canon": True, "class": cls.__name__, "keys": keys}, "detail": f"{cls.__name__} with keys {keys!r}: sorted_keys() = {got!r}, expected {want!r}"})
    # families of classes: a subclass with priority names of its own (and one that inherits them), sorted after / before its parent - the
    # order is the one declared for the class of the object, whatever was sorted earlier in the process
    from icalendar.caselessdict import CaselessDict
    for base in (CaselessDict, cal.Event, cal.Calendar, prop.vRecur):
        for first in ("parent", "child", "grandchild"):
            class P(base):
                canonical_order = ("SUMMARY", "DTSTART", "B", "A")
            class Ch(P):
                canonical_order = ("UID", "A", "SUMMARY")
            class G(Ch):
                pass
            fam = {"parent": P, "child": Ch, "grandchild": G}
            seq = [first] + [x for x in ("parent", "child", "grandchild") if x != first] + [first]
            for which in seq:
                cls = fam[which]
                obj = cls()
                for k in list(obj.keys()):
                    del obj[k]
                keys = ["summary", "Uid", "x-b", "A", "dtstart", "B"]
                for k in keys:
                    obj[k] = []
                co = cls.canonical_order
                up = [k.upper() for k in keys]
                want = sorted((k for k in up if k in co), key=co.index) + sorted(k for k in up if k not in co)
                n += 1
                got = obj.sorted_keys()
                got_items = [k for k, _ in obj.sorted_items()]
                if (got != want or got_items != want) and len(fails) < limit_fail + 4:
                    fails.append({"witness": {"canon": True, "family": base.__name__, "sorted_first": first, "class": which},
                                  "detail": f"a subclass family of {base.__name__} (parent order {P.canonical_order!r}, child order {Ch.canonical_order!r}), "
                                            f"classes sorted in the order {seq!r}: {which}.sorted_keys() = {got!r}, sorted_items keys = {got_items!r}, expected {want!r}"})
    return fails, n
