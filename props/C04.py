"""C04 -- parsing is total: a result or ValueError; VEVENT isolates bad property lines.

Functions under contract (real source, every run)
  raises contracts (static may-raise analysis over the AST, vc/static/raises.py; callees analysed recursively, built-ins and
  external libraries from an assumed table):
      D.<class>   every value class's from_ical raises only ValueError (subclasses included)
      L.*         Contentline.parts, Parameters.from_ical, Contentlines.from_ical raise only ValueError
      T.*         TZP.timezone / ZONEINFO.timezone / PYTZ.timezone raise nothing (unknown ids give None)
      K.<class>   the value constructors the loop calls raise only ValueError: vDDDTypes / vDDDLists / vPeriod by the pyvc
                  obligations of props/C02 on the real __init__ bodies (class lattice: attribute access on a date vs a datetime,
                  TypeError / OverflowError of the arithmetic), the other classes statically
  isolation (pyvc symbolic execution of ONE iteration of the real Component.from_ical loop, property-line branch, callees
  through the raises contracts above: parts / decoder / value constructor either return or raise ValueError):
      I.lenient   in a component with ignore_exceptions the ValueError never escapes: exactly one entry is appended to
                  errors, nothing is added to the component, the loop continues
      I.strict    otherwise the ValueError is re-raised and nothing is recorded
      I.good      a line that decodes adds exactly its values (with the parsed parameters) and records no error
  V.wrapped       caching a parsed VTIMEZONE converts every failure into ValueError (shape of the END branch)
Whole-pipeline totality and time on hostile input (both providers, the project's own oracle fuzz_calendar_v1) is a labelled
bounded stand-in: a contract on one function cannot speak about termination of the whole parse.
"""
from __future__ import annotations

import ast
import time

import z3

from contracts import comp
from vc import common
from vc.common import Obligation, Bounded, PROVED, REFUTED, UNDECIDED, ERROR
from vc.pyvc import compare, source, seqs
from vc.pyvc import engine as E
from vc.pyvc.discharge import TIMEOUT_MS
from vc.static import raises as RA

LEVEL = "other"
PID = "C04"


def raises_obligations(rep):
    A = RA.Analysis()
    obs = []
    probes = []

    def ob_for(oid, label, allowed, what):
        r = A.method(*label) if isinstance(label, tuple) else None
        target = f"{label[0]}.{label[1]}"
        if r is None:
            return Obligation(oid, target, "fin", UNDECIDED, detail="function not found")
        esc = A.escaping(r[0], r[1], r[2])
        bad = sorted(x for x in esc if x == RA.UNKNOWN or not any(RA.is_sub(x, a) for a in allowed))
        ob = Obligation(oid, r[0], "fin", PROVED if not bad else REFUTED, lines=source.lines_of(r[1]),
                        detail=f"may raise {sorted(esc) or 'nothing'}; {what}" if not bad else f"may raise {bad} besides {allowed or 'nothing'}")
        if bad:
            ob.shape_only = True
            ob.bad_classes = bad
        return ob
    for cn in sorted(A.value_classes()):
        if A.method(cn, "from_ical") is None:
            continue
        obs.append(ob_for(f"{PID}.D.{cn}.from_ical_raises_only_ValueError", (cn, "from_ical"), ["ValueError"], "all within ValueError"))
    for cn, fn in (("Contentline", "parts"), ("Parameters", "from_ical"), ("Contentlines", "from_ical")):
        obs.append(ob_for(f"{PID}.L.{cn}.{fn}_raises_only_ValueError", (cn, fn), ["ValueError"], "all within ValueError"))
    for cn in ("TZP", "ZONEINFO", "PYTZ"):
        obs.append(ob_for(f"{PID}.T.{cn}.timezone_raises_nothing", (cn, "timezone"), [], "unknown ids give None"))
    rep.extra["assumed_raises_table_entries_used"] = sorted(A.assumed_used)
    rep.extra["unresolved_calls"] = sorted(A.unresolved)
    return obs, A


def constructor_obligations(rep, A):
    """K.*: the value constructors the parse loop calls -- factory(decoded value), ONE positional argument -- raise only
    ValueError.  The date/time classes (arithmetic, attribute access on dates vs datetimes) are decided by the pyvc obligations of
    props/C02 on the real __init__ bodies; the others by the static analysis, specialised to the one-argument call shape."""
    import copy
    from props import C02
    obs = []
    try:
        types_map, reg, fp_ok = C02.read_tables()
    except E.Undecided as u:
        return [Obligation(f"{PID}.K.constructors", "prop:TypesFactory", "fin", UNDECIDED, detail=str(u))]
    by_pyvc = {"vDDDTypes": (C02.vddd_obligations, "C02.V1.vDDDTypes.raises_only_ValueError"),
               "vDDDLists": (C02.vdddlists_obligations, "C02.V2.vDDDLists.raises_only_ValueError"),
               "vPeriod": (C02.vperiod_obligations, "C02.V3.vPeriod.raises_only_ValueError")}
    for cn in sorted(set(reg.values())):
        oid = f"{PID}.K.{cn}.constructor_raises_only_ValueError"
        if cn in by_pyvc:
            fnc, want = by_pyvc[cn]
            try:
                got = [o for o in fnc(rep, rep.tier) if o.oid == want]
            except E.Undecided as u:
                got = []
            if not got:
                obs.append(Obligation(oid, f"prop:{cn}.__init__", "z3", UNDECIDED, detail="the pyvc obligation was not generated"))
                continue
            o = got[0]
            o.oid = oid
            obs.append(o)
            continue
        esc = set()
        found = False
        lines = None
        for name in ("__new__", "__init__"):
            r = A.method(cn, name)
            if not r:
                continue
            found = True
            node = r[1]
            if node.args.vararg is not None:
                # the loop passes exactly one argument: `if len(<vararg>) == 1:` takes its body
                node = copy.deepcopy(node)
                va = node.args.vararg.arg

                class Spec(ast.NodeTransformer):
                    def visit_If(self, n):
                        self.generic_visit(n)
                        if ast.unparse(n.test) == f"len({va}) == 1":
                            return n.body
                        return n

                    def visit_Subscript(self, n):
                        self.generic_visit(n)
                        if ast.unparse(n) == f"{va}[0]":
                            return ast.copy_location(ast.Name(id="value", ctx=n.ctx), n)      # the one argument
                        return n
                node = ast.fix_missing_locations(Spec().visit(node))
                esc |= A.escaping(r[0] + "[one argument]", node, r[2])
            else:
                esc |= A.escaping(r[0], r[1], r[2])
            lines = source.lines_of(r[1])
        if not found:
            esc |= {"ValueError"} if cn in ("vInt", "vFloat") else set()
        bad = sorted(x for x in esc if x == RA.UNKNOWN or not RA.is_sub(x, "ValueError"))
        ob = Obligation(oid, f"prop:{cn}", "fin", PROVED if not bad else REFUTED, lines=lines,
                        detail=f"may raise {sorted(esc) or 'nothing'}" if not bad else f"may raise {bad} besides ValueError")
        if bad:
            ob.shape_only = True
            ob.bad_classes = bad
        obs.append(ob)
    return obs


# ---------------------------------------------------------------------------------------------------
# isolation: one iteration of the property-line branch of Component.from_ical

def loop_parts():
    mod, node = source.find("cal:Component.from_ical")
    if node is None:
        raise E.Undecided("Component.from_ical not found")
    loops = [n for n in node.body if isinstance(n, ast.For)]
    if len(loops) != 1 or ast.unparse(loops[0].iter) != "Contentlines.from_ical(st)" or ast.unparse(loops[0].target) != "line":
        raise E.Undecided("the line loop of Component.from_ical is not `for line in Contentlines.from_ical(st)`")
    return node, loops[0]


def isolation_obligations(tier):
    tmo = TIMEOUT_MS[tier]
    obs = []
    try:
        fnode, loop = loop_parts()
    except E.Undecided as u:
        return [Obligation(f"{PID}.I.lenient_component_isolates_a_bad_line", "cal:Component.from_ical", "z3", UNDECIDED, detail=str(u))]
    lines = source.lines_of(loop)
    for lenient in (True, False):
        for scenario in ("parts_fails", "decode_or_construct_may_fail"):
            lat = E.Lattice()
            for m in ("caselessdict", "parser", "prop", "cal"):
                lat.load_module(m)
            lat.add("TZP", ["object"])
            lat.add("TypesFactory", ["object"])
            eng = seqs.SeqEngine(lat, {})
            classes = comp.Classes("cal", extra=())
            comp.install(eng, classes)
            st = E.State()
            comp_m = E.MapObj.fresh("component", cls="Event" if lenient else "Calendar")
            errors = st.alloc(E.ListObj([]))
            added = st.alloc(E.ListObj([]))
            comp_m.fields["errors"] = E.VList(errors)
            comp_m.fields["subcomponents"] = E.VList(st.alloc(E.ListObj([])))
            a_comp = st.alloc(comp_m)
            stack = st.alloc(E.ListObj([E.VMap(a_comp)]))
            comps = st.alloc(E.ListObj([]))
            line = z3.Const("line", E.Ref)
            st.assume(E.truthy(line), E.cls_of(line) == lat.id("Contentline"))
            NAME, VALS = z3.String("name"), z3.String("vals")
            params_m = E.MapObj.fresh("params", cls="Parameters")
            a_params = st.alloc(params_m)
            parts_fail = z3.Bool("parts_raises_ValueError")

            def line_parts(engine, s, args, kw, scenario=scenario):
                if scenario == "parts_fails":
                    return [(s, E.VExc("ValueError", "parts"))]
                return [(s, E.VTuple([E.VStr(NAME), E.VMap(a_params), E.VStr(VALS)]))]
            eng.contracts["ref.parts"] = line_parts
            eng.globals["types_factory"] = E.VClass("TypesFactory")
            eng.globals["component_factory"] = E.VClass("TypesFactory")
            eng.globals["tzp"] = E.VClass("TZP")
            factory = z3.Const("factory", E.Ref)
            eng.contracts["TypesFactory.for_property"] = comp.exact_arity(lambda e, s, a, k: [(s, E.VRef(factory))], 2, "types_factory.for_property(name)")
            dec_n = [0]

            def ref_from_ical(engine, s, args, kw):
                s2 = s.fork()
                dec_n[0] += 1
                r = z3.Const(f"decoded_{dec_n[0]}", E.Ref)
                return [(s, E.VRef(r)), (s2, E.VExc("ValueError", "decoder"))]

            def call_ref(engine, s, args, kw):
                s2 = s.fork()
                dec_n[0] += 1
                r = s.new_ref(None, "value_obj")
                return [(s, E.VRef(r)), (s2, E.VExc("ValueError", "constructor"))]
            eng.contracts["ref.from_ical"] = ref_from_ical
            eng.contracts["call:ref"] = call_ref

            def comp_add(engine, s, args, kw):
                s.heap[added].items.append(E.VTuple([args[1], args[2]]))
                return [(s, E.VNone())]
            eng.contracts["Component.add"] = comp_add
            eng.contracts["op:setattr"] = lambda e, s, o, n, v: [(s, None)]       # parsed_component.params = params
            eng.contracts["ref.split"] = lambda e, s, a, k: [(s, E.VList(s.alloc(E.ListObj([E.VStr(z3.String('item1')), E.VStr(z3.String('item2'))]))))]
            E.STR_METHODS["split"] = lambda e, s, strv, a, k: [(s, E.VList(s.alloc(E.ListObj([E.VStr(z3.String('item1')), E.VStr(z3.String('item2'))]))))]
            st.assume(E.map_wf(params_m), E.map_wf(comp_m))
            # the property-line branch: the name is neither BEGIN nor END
            st.assume(E.up(NAME) != z3.StringVal("BEGIN"), E.up(NAME) != z3.StringVal("END"))
            env = {"cls": E.VClass("Component"), "st": E.VStr(z3.String("st")), "multiple": E.VBool(z3.BoolVal(False)),
                   "stack": E.VList(stack), "comps": E.VList(comps), "line": E.VRef(line)}
            st.env = dict(env)
            try:
                results = eng.exec_block(loop.body, st)
            except E.Undecided as u:
                obs.append(Obligation(f"{PID}.I.{'lenient' if lenient else 'strict'}[{scenario}]", "cal:Component.from_ical (loop body)", "z3",
                                      UNDECIDED, detail=str(u), lines=lines))
                continue
            paths = []
            for s, sig in results:
                kind = "ret" if sig is None or sig[0] in ("continue", "break") else ("raise" if sig[0] == "raise" else "undecided")
                paths.append(E.Path(s, kind, sig[1] if sig and sig[0] == "raise" else E.VNone()))
            tag = f"[{scenario}]"
            fnm = "cal:Component.from_ical (loop body, property line)"

            def n_err(pa):
                return len(pa.state.heap[errors].items)

            def n_add(pa):
                return len(pa.state.heap[added].items)
            if lenient:
                # a ValueError never escapes; an error path records exactly one entry and adds nothing
                obs.append(compare.raises_only(eng, f"{PID}.I.lenient_component_never_lets_the_ValueError_escape{tag}", fnm, lines, paths, [], tmo))
                obs.append(compare.ensures(eng, f"{PID}.I.lenient_component_records_one_error_and_keeps_the_rest{tag}", fnm, lines, paths,
                                           lambda pa: z3.BoolVal((n_err(pa), n_add(pa) > 0) in ((1, False), (0, True), (0, False)) and
                                                                 not (n_err(pa) == 0 and n_add(pa) == 0 and "ValueError" in str(pa.state.trace))), tmo))
                if scenario == "parts_fails":
                    obs.append(compare.ensures(eng, f"{PID}.I.lenient_component_records_the_unparsable_line{tag}", fnm, lines, paths,
                                               lambda pa: z3.BoolVal(n_err(pa) == 1 and n_add(pa) == 0), tmo))
            else:
                obs.append(compare.raises_only(eng, f"{PID}.I.strict_component_raises_only_ValueError{tag}", fnm, lines, paths, ["ValueError"], tmo))
                obs.append(compare.ensures(eng, f"{PID}.I.strict_component_records_nothing{tag}", fnm, lines, paths,
                                           lambda pa: z3.BoolVal(n_err(pa) == 0), tmo, kinds=("ret", "raise")))
                if scenario == "parts_fails":
                    obs.append(compare.ensures(eng, f"{PID}.I.strict_component_fails{tag}", fnm, lines, paths, lambda pa: z3.BoolVal(False), tmo))
            if scenario != "parts_fails":
                # every decoded value is added exactly once on the success paths; failure paths add nothing
                obs.append(compare.ensures(eng, f"{PID}.I.{'lenient' if lenient else 'strict'}.failed_line_adds_nothing{tag}", fnm, lines, paths,
                                           lambda pa: z3.BoolVal(not (n_err(pa) >= 1 and n_add(pa) > 0)), tmo, kinds=("ret", "raise")))
    return obs


def wrapped_cache_obligation():
    mod, node = source.find("cal:Component.from_ical")
    ob = Obligation(f"{PID}.V.timezone_caching_failures_become_ValueError", "cal:Component.from_ical (END branch)", "fin", UNDECIDED,
                    lines=source.lines_of(node))
    if node is None:
        ob.detail = "function not found"
        return ob
    for n in ast.walk(node):
        if isinstance(n, ast.Call) and ast.unparse(n.func) == "tzp.cache_timezone_component":
            # find the enclosing Try
            for t in ast.walk(node):
                if isinstance(t, ast.Try) and any(n is x for b in t.body for x in ast.walk(b)):
                    hs = [(RA.Analysis.name_of(None, h.type) if h.type is not None else "BaseException") for h in t.handlers]
                    catches_all = any(h in ("Exception", "BaseException") for h in hs)
                    reraises_value = all(any(isinstance(x, ast.Raise) for x in ast.walk(ast.Module(body=h.body, type_ignores=[]))) for h in t.handlers)
                    if catches_all and reraises_value:
                        ob.status, ob.detail = PROVED, "the call is inside try / except ValueError: raise / except Exception: raise ValueError"
                        return ob
            ob.status, ob.detail = REFUTED, "tzp.cache_timezone_component(...) is called outside a handler that converts failures to ValueError"
            ob.shape_only = True
            return ob
    ob.detail = "no call of tzp.cache_timezone_component found"
    return ob


def run(rep: common.Report):
    findings = common.findings_for(PID)
    rep.trust("static may-raise analysis (vc/static/raises.py): flow- and type-insensitive, with guard recognition (k in d, len tests, "
              "early returns); built-ins / zoneinfo / pytz / dateutil from the ASSUMED raises table (entries used are listed in evidence)",
              "isolation obligations: ONE loop iteration, property-line branch, name not FREEBUSY-specific; callees through raises contracts",
              "termination / time of the whole parse: bounded stand-in only")
    from props import C04_bnd
    try:
        obs, A = raises_obligations(rep)
    except Exception as e:  # noqa
        import traceback
        traceback.print_exc()
        obs = [Obligation(f"{PID}.D.engine", "prop", "fin", ERROR, detail=repr(e))]
    try:
        obs += constructor_obligations(rep, A)
    except Exception as e:  # noqa
        import traceback
        traceback.print_exc()
        obs.append(Obligation(f"{PID}.K.engine", "prop", "fin", ERROR, detail=repr(e)))
    try:
        obs += isolation_obligations(rep.tier)
    except Exception as e:  # noqa
        import traceback
        traceback.print_exc()
        obs.append(Obligation(f"{PID}.I.engine", "cal:Component.from_ical", "z3", ERROR, detail=repr(e)))
    obs.append(wrapped_cache_obligation())
    for ob in obs:
        if ob.status == REFUTED:
            # a may-analysis result is only a candidate: confirm natively (decoder fuzz) before it counts
            w = C04_bnd.confirm(ob.oid, getattr(ob, "bad_classes", None))
            if w:
                ob.witness, ob.replay = w[0], {"confirmed": True, "native": w[1]}
            else:
                ob.status = UNDECIDED
                ob.detail += " -- candidate from the over-approximating analysis, not confirmed natively"
        rep.add(ob)
    b = Bounded("C04.bnd.hostile_input", "cal:Calendar.from_ical -> to_ical / walk (real, both providers)", C04_bnd.BOUND[rep.tier])
    t0 = time.time()
    try:
        C04_bnd.run(b, rep.tier, rep.seed, findings, rep.known_seen)
    except Exception as e:  # noqa
        import traceback
        traceback.print_exc()
        b.error = repr(e)
    b.seconds = time.time() - t0
    rep.bounded.append(b)
    rep.explanation = __doc__ + "\nLevel 'other': per-function raises contracts are discharged statically and the isolation clause by pyvc on one loop " \
        "iteration; totality of the whole pipeline on all inputs is explored, not proved."


def replay(payload: dict) -> int:
    from props import C04_bnd
    w = payload.get("witness")
    if not w:
        print("replay: no concrete input recorded; verifier output:", payload.get("verifier_output"))
        return 1
    msg = C04_bnd.replay_witness(w)
    print("replay:", msg or "no violation on the current tree")
    return 1 if msg else 0
