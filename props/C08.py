"""C08 -- parameters round-trip with correct quoting, list arity, caseless names.

Functions under contract (re-read from /repo/src/icalendar/parser.py on every run):
  dquote, q_join, param_value (shape), q_split (certified loop quotient of its real loop, per call site),
  Parameters.to_ical / from_ical (per-item glue transcribed and cross-checked against the real method), the regexes
  QUOTABLE, UNSAFE_CHAR, QUNSAFE_CHAR, NAME.

Obligations (all strings, every length; vc/fstc):
  Q1a  dquote(v) has '"' only as first and last character
  Q1b  v contains , ; or :   =>   dquote(v) is "...", so no other conforming parser splits it differently
  Q2   q_split (machine extracted from the real loop) == "split at separators outside double quotes, at most maxsplit
       times", for the three call sites (';', -1) ('=', 1) (',', -1)
  Q3   value lists:  items of q_split(q_join(xs), ',') after the per-item processing of from_ical == xs  (order and arity
       kept) for values free of double quotes and control characters, including empty values
  Q4   whole parameter text:  from_ical(to_ical(p)) == p  on the 3-level marker encoding  name = value , value ; name = ...
       (names over token characters; upper-casing / ordering of names is C17 / C10)
  Q5   the same text inside a content line (escape_string / unescape_string of Contentline.parts around it), outside the
       listed known-finding classes
"""
from __future__ import annotations

import ast
import itertools
import re
import time

from vc import common
from vc.common import Obligation, Bounded, PROVED, REFUTED, UNDECIDED, ERROR
from vc.pyvc import source
from vc.fstc import extract, oblig, loopq
from vc.fstc import fst as F
from vc.fstc import regex as R
from vc.fstc import decide as D

LEVEL = "proof"
PID = "C08"
P = ['"', "'", ",", ";", ":", "=", " ", "’", "^", "\\", "%", "2", "C", "3", "A", "B", "5", "\x01", "x", "y"]
M1, M2, M3 = "\x1d", "\x1e", "\x1f"       # between values / between name and values / between parameters
P1, P2, P3 = P + [M1], P + [M1, M2], P + [M1, M2, M3]


def src_regex(name):
    return extract.Extractor("parser", P).regex_source(name)


def after(marker, f: F.FST, alphabet):
    """copy up to and including the first `marker`, then apply f to the rest"""
    def step(q, a):
        if q == "pre":
            if a == marker:
                return [(("in", f.init), a)]
            return [("pre", a)]
        return [(("in", q2), o) for q2, o in f.delta(q[1], a)]

    def final(q):
        if q == "pre":
            return None
        return f.final(q[1])
    return F.FST.from_function(alphabet, "pre", step, final)


def item_processing(alphabet, markers):
    """Parameters.from_ical per-item processing (TRANSCRIBED from the source, cross-checked against the real method):
         if v.startswith('"') and v.endswith('"'): v = v.strip('"'); validate_param_value(v, quoted=True)
         else: validate_param_value(v, quoted=False)
       a failing validation raises ValueError (undefined)."""
    qun = re.compile(src_regex("QUNSAFE_CHAR"))
    un = re.compile(src_regex("UNSAFE_CHAR"))

    def step(q, a):
        if a in markers:
            return []
        if q == "S":
            if a == '"':
                return ("Q0", "")
            return ("U", a) if not un.search(a) else []
        if q == "U":
            return ("U", a) if not un.search(a) else []
        if q == "Q0":
            if a == '"':
                return ("Q0", "")
            return ("QI", a) if not qun.search(a) else []
        if q == "QI":
            if a == '"':
                return ("QT", "")
            return ("QI", a) if not qun.search(a) else []
        if q == "QT":
            return ("QT", "") if a == '"' else []
        return []
    return F.FST.from_function(alphabet, "S", step, lambda q: "" if q in ("S", "U", "Q0", "QT") else None)


# the glue the transducers of this module TRANSCRIBE: the transcription is valid for exactly these statement lists (ast.unparse of the
# real body, docstring stripped, comments and layout ignored).  Any other body - also one that only ADDS a statement - is outside the
# fragment: the obligations that use the glue are then undecided, never proved on a stale transcription.
GLUE = {
    "Parameters.from_ical": (
        "result = cls()\nfor param in q_split(st, ';'):\n    try:\n        key, val = q_split(param, '=', maxsplit=1)\n        validate_token(key)\n"
        "        vals = []\n        for v in q_split(val, ','):\n            if v.startswith('\"') and v.endswith('\"'):\n                v = v.strip('\"')\n"
        "                validate_param_value(v, quoted=True)\n                vals.append(v)\n            else:\n"
        "                validate_param_value(v, quoted=False)\n                if strict:\n                    vals.append(v.upper())\n"
        "                else:\n                    vals.append(v)\n        if not vals:\n            result[key] = val\n"
        "        elif len(vals) == 1:\n            result[key] = vals[0]\n        else:\n            result[key] = vals\n"
        "    except ValueError as exc:\n        raise ValueError(f'{param!r} is not a valid parameter string: {exc}')\nreturn result"),
    "Parameters.to_ical": (
        "result = []\nitems = list(self.items())\nif sorted:\n    items.sort()\nfor key, value in items:\n    value = param_value(value)\n"
        "    if isinstance(value, str):\n        value = value.encode(DEFAULT_ENCODING)\n    key = key.upper().encode(DEFAULT_ENCODING)\n"
        "    result.append(key + b'=' + value)\nreturn b';'.join(result)"),
    "param_value": (
        "if isinstance(value, SEQUENCE_TYPES):\n    return q_join(value)\nelif isinstance(value, str):\n    return dquote(value)\nelse:\n"
        "    return dquote(value.to_ical().decode(DEFAULT_ENCODING))"),
    "validate_token": "match = NAME.findall(name)\nif len(match) == 1 and name == match[0]:\n    return\nraise ValueError(name)",
    "validate_param_value": "validator = QUNSAFE_CHAR if quoted else UNSAFE_CHAR\nif validator.findall(value):\n    raise ValueError(value)",
    "q_join": "return sep.join((dquote(itm) for itm in lst))",
}


def shape_checks():
    """the glue code must still have EXACTLY the transcribed statements; otherwise the obligations that use it are undecided"""
    mod = source.module("parser")
    for q, want in GLUE.items():
        node = mod.lookup(q)
        if node is None:
            raise extract.Outside(f"{q} not found")
        got = "\n".join(ast.unparse(x) for x in source.strip_docstring(node.body))
        if got != want:
            gl, wl = got.split("\n"), want.split("\n")
            i = next((k for k in range(min(len(gl), len(wl))) if gl[k] != wl[k]), min(len(gl), len(wl)))
            raise extract.Outside(f"{q} is no longer the transcribed glue: statement {i + 1} is `{(gl[i] if i < len(gl) else '<end>').strip()}`, "
                                  f"transcribed `{(wl[i] if i < len(wl) else '<end>').strip()}`")
    qj = mod.lookup("q_join")
    d = qj.args.defaults
    if not (d and ast.literal_eval(d[0]) == ","):
        raise extract.Outside("q_join default separator is not ','")


def value_domain(alphabet, markers):
    """values free of double quotes and control characters (the statement's precondition)"""
    qun = re.compile(src_regex("QUNSAFE_CHAR"))
    ok = [a for a in alphabet if a not in markers and not qun.search(a)]
    return ok


def dquote_over(alphabet):
    return extract.Extractor("parser", alphabet).function("dquote")


def build():
    shape_checks()
    ex = extract.Extractor("parser", P)
    dq = ex.function("dquote")
    used = list(ex.used) + ["parser:q_join", "parser:param_value", "parser:Parameters.to_ical", "parser:Parameters.from_ical", "parser:q_split"]
    out = {"dquote": dq, "used": used, "loops": {}}
    # values level (alphabet P1): v M1 v M1 v
    to_values = F.compose(F.segmentwise(dq, M1, P1), F.relabel({M1: ","}, P1))
    split_c, Lc = loopq.q_split_fst(P1, ",", -1, M1)
    from_values = F.compose(split_c, F.segmentwise(item_processing(P, []), M1, P1))
    out.update(to_values=to_values, from_values=from_values)
    out["loops"]["','"] = Lc
    # one parameter (alphabet P2): name M2 v M1 v ...
    inner2 = [a for a in P2 if a != M1]                      # alphabet of one value inside a parameter
    values_to = F.compose(F.segmentwise(dquote_over(inner2), M1, P2), F.relabel({M1: ","}, P2))
    to_param = F.compose(after(M2, values_to, P2), F.relabel({M2: "="}, P2))
    split_eq, Le = loopq.q_split_fst(P2, "=", 1, M2)
    split_c2, _ = loopq.q_split_fst(P2, ",", -1, M1)
    values_from = F.compose(split_c2, F.segmentwise(item_processing(inner2, [M2, M3]), M1, P2))
    name_ok = R.dfa_from_regex("(?:" + src_regex("NAME") + ")=.*", P2, "fullmatch")
    from_param = F.restrict(F.compose(split_eq, after(M2, values_from, P2)), name_ok)
    out.update(to_param=to_param, from_param=from_param)
    out["loops"]["'='"] = Le
    # whole text (alphabet P3): param M3 param
    to_text = F.compose(F.segmentwise(to_param, M3, P3), F.relabel({M3: ";"}, P3))
    split_s, Ls = loopq.q_split_fst(P3, ";", -1, M3)
    from_text = F.compose(split_s, F.segmentwise(from_param, M3, P3))
    out.update(to_text=to_text, from_text=from_text)
    out["loops"]["';'"] = Ls
    return out


def domain_text(level):
    ok = "".join(re.escape(c) for c in value_domain(P, []))
    val = f"[{ok}]*"
    name = "[AB]+"
    if level == 1:
        return R.dfa_from_regex(f"{val}(?:{re.escape(M1)}{val})*", P1, "fullmatch")
    one = f"{name}{re.escape(M2)}{val}(?:{re.escape(M1)}{val})*"
    if level == 2:
        return R.dfa_from_regex(one, P2, "fullmatch")
    return R.dfa_from_regex(f"{one}(?:{re.escape(M3)}{one})*", P3, "fullmatch")


# ---------------------------------------------------------------------------------------------------
# native side

def decode_text(enc):
    """3-level marker encoding -> list of (name, [values])"""
    out = []
    for p in enc.split(M3):
        k, _, vs = p.partition(M2)
        out.append((k, vs.split(M1)))
    return out


def native_round_trip(enc):
    from icalendar.parser import Parameters
    items = decode_text(enc)
    p = Parameters()
    for k, vs in items:
        p[k] = vs[0] if len(vs) == 1 else vs
    text = p.to_ical(sorted=False).decode("utf-8")
    back = Parameters.from_ical(text)
    got = M3.join(k + M2 + M1.join(v if isinstance(v, list) else [v]) for k, v in back.items())
    want = M3.join(k.upper() + M2 + M1.join(vs) for k, vs in items)
    return got, want


def native_values(enc):
    from icalendar.parser import q_join, Parameters
    xs = enc.split(M1)
    text = q_join(xs)
    back = Parameters.from_ical("X=" + text)["X"]
    return M1.join(back if isinstance(back, list) else [back]), M1.join(xs)


def run(rep: common.Report):
    findings = common.findings_for(PID)
    rep.trust("engine: vc/fstc; q_split machines from the certified loop quotient (pyvc symbolic execution of the real loop body)",
              "TRANSCRIBED: the per-item processing and control flow of Parameters.from_ical / to_ical (guarded by source shape checks; the "
              "composed machine is compared with the real Parameters.from_ical on all strings up to a length each run)",
              "alphabet abstraction (DESIGN.md 4.5); names are compared after upper-casing (C17)")
    from icalendar.parser import dquote, q_split, Parameters
    fn = "parser:dquote/q_join/q_split/Parameters"
    try:
        fs = build()
    except (extract.Outside, NotImplementedError) as e:
        for k in ("Q1a.quotes_only_at_ends", "Q1b.delimiters_are_quoted", "Q2.q_split_is_quote_aware_split", "Q3.value_list_round_trip",
                  "Q4.parameter_text_round_trip"):
            rep.add(Obligation(f"{PID}.{k}", fn, "fstc", UNDECIDED, detail=f"outside the fstc fragment: {e}"))
        fs = None
    if fs is not None:
        for u in fs["used"]:
            rep.functions.add(u.split(" ")[0])
        # translation validation
        t = time.time()
        n, bad = extract.crosscheck(fs["dquote"], dquote, P, 3)
        rep.crosschecks.append({"name": "extracted dquote vs the real function", "strings": n, "ok": bad is None, "first": repr(bad)})
        if bad:
            rep.error(f"dquote extraction disagrees: {bad!r}")
        small = ['"', ",", ";", "=", ":", "x", "\x01"]
        n = 0
        bad = None
        for k in range(0, 6 if rep.tier == "quick" else 7):
            for tup in itertools.product(small, repeat=k):
                s = "".join(tup)
                n += 1
                try:
                    back = Parameters.from_ical(s)
                    want = M3.join(kk + M2 + M1.join(v if isinstance(v, list) else [v]) for kk, v in back.items())
                    # duplicates collapse in the dict: compare only when names are distinct
                    if len(back) != len(q_split(s, ";")):
                        continue
                except ValueError:
                    want = None
                outs = fs["from_text"].apply(s) if s else {""}
                got = next(iter(outs)) if outs else None
                if got is not None:
                    got = M3.join(p.split(M2)[0].upper() + M2 + p.split(M2)[1] if M2 in p else p for p in got.split(M3))
                if s and got != want and bad is None:
                    bad = (s, got, want)
        rep.crosschecks.append({"name": "composed Parameters.from_ical machine vs the real method", "strings": n, "ok": bad is None,
                                "first": repr(bad), "seconds": round(time.time() - t, 2)})
        model_ok = bad is None
        if bad is None:
            # second pass over the full obligation alphabet (every character class the functions distinguish)
            for k in range(1, 4 if rep.tier == "quick" else 5):
                for tup in itertools.product(["A=" + c for c in P] if k == 1 else P, repeat=k if k > 1 else 1):
                    s = "".join(tup) if k > 1 else tup[0]
                    if k > 1:
                        s = "A=" + s
                    try:
                        back = Parameters.from_ical(s)
                        want = M3.join(kk + M2 + M1.join(v if isinstance(v, list) else [v]) for kk, v in back.items())
                        if len(back) != len(q_split(s, ";")):
                            continue
                    except ValueError:
                        want = None
                    outs = fs["from_text"].apply(s)
                    got = next(iter(outs)) if outs else None
                    if got is not None:
                        got = M3.join(p.split(M2)[0].upper() + M2 + p.split(M2)[1] if M2 in p else p for p in got.split(M3))
                    if got != want:
                        model_ok, bad = False, (s, got, want)
                        break
                if not model_ok:
                    break
            rep.crosschecks.append({"name": "Parameters.from_ical machine vs the real method over the full alphabet", "ok": model_ok, "first": repr(bad)})
        if not model_ok:
            # the transcription no longer describes the code: everything that uses it is undecided (the stand-in decides)
            for k in ("Q3.value_list_round_trip", "Q4.parameter_text_round_trip", "Q5.content_line_round_trip"):
                rep.add(Obligation(f"{PID}.{k}", fn, "fstc", UNDECIDED,
                                   detail=f"the transcribed model of Parameters.from_ical disagrees with the real method on {bad!r}"))
        if q_split("") != []:
            rep.error("q_split('') is no longer []")
        # Q1
        only_ends = R.dfa_from_regex('[^"]*|"[^"]*"', P, "fullmatch")
        rep.add(oblig.decide_image(f"{PID}.Q1a.quotes_only_at_ends", "parser:dquote", fs["dquote"], only_ends, P,
                                   lambda s: (dquote(s), bool(re.fullmatch('[^"]*|"[^"]*"', dquote(s))))))
        quoted = R.dfa_from_regex('"[^"]*"', P, "fullmatch")
        rep.add(oblig.decide_image(f"{PID}.Q1b.delimiters_are_quoted", "parser:dquote", fs["dquote"], quoted, P,
                                   lambda s: (dquote(s), bool(re.fullmatch('"[^"]*"', dquote(s)))),
                                   domain=R.dfa_contains_any([",", ";", ":"], P)))
        # Q2
        ob = Obligation(f"{PID}.Q2.q_split_is_quote_aware_split", "parser:q_split", "fstc", PROVED)
        t = time.time()
        for (sep, mx, alpha, mk) in ((";", -1, P3, M3), ("=", 1, P2, M2), (",", -1, P1, M1)):
            T, _ = loopq.q_split_fst(alpha, sep, mx, mk)
            S = loopq.q_split_spec(alpha, sep, mx, mk)
            r = D.equivalent(T, S)
            if r.status == "differ":
                ob.status, ob.detail = REFUTED, f"call site ({sep!r}, {mx}): {r.witness!r} -> {r.left!r}, specification {r.right!r}"
                ob.witness = {"input": r.witness, "sep": sep, "maxsplit": mx}
                real = q_split(r.witness, sep, mx)
                ob.replay = {"confirmed": mk.join(real) != r.right, "native": f"q_split -> {real!r}"}
                break
            if r.status != "equivalent" and ob.status == PROVED:
                ob.status, ob.detail = UNDECIDED, r.reason
        ob.seconds = time.time() - t
        ob.detail = ob.detail or "three call sites; loop-body certificates: " + ", ".join(f"{k}: {len(L.paths)} paths" for k, L in fs["loops"].items())
        rep.add(ob)
        # Q3, Q4
        if not model_ok:
            fs = None
    if fs is not None:
        ident1 = F.identity(P1)
        rep.add(oblig.decide_equiv(f"{PID}.Q3.value_list_round_trip", "parser:q_join -> q_split/Parameters.from_ical items",
                                   F.compose(fs["to_values"], fs["from_values"]), ident1, P1, findings, native_values, rep.known_seen,
                                   domain=domain_text(1), show=lambda s: repr(s).replace("\\x1d", "|")))
        ident3 = F.identity(P3)
        rep.add(oblig.decide_equiv(f"{PID}.Q4.parameter_text_round_trip", "parser:Parameters.to_ical -> Parameters.from_ical",
                                   F.compose(fs["to_text"], fs["from_text"]), ident3, P3, findings, native_round_trip, rep.known_seen,
                                   domain=domain_text(3), show=lambda s: repr(s).replace("\\x1d", "|").replace("\\x1e", "=").replace("\\x1f", ";")))
    # Q5: the same parameters inside a content line (shared composition of props/line_model.py)
    from props import C05
    if not any(o.oid.endswith("Q5.content_line_round_trip") for o in rep.obligations):
        obs5, _ = C05.line_obligations(rep, findings, PID, {"Q5"})
        for ob in obs5:
            rep.add(ob)
    # the property pipeline runs through the lines layer: the text reaches the parser again only if folding is undone exactly (C06.P4 /
    # P5); C06's obligations are re-run on this tree as a lemma, a refutation there is reported by C06's own check
    from props import C01 as _C01
    for ob in _C01.import_lemmas(rep, rep.tier, plan=[("Q6", "C06", lambda o: True, "folding undone exactly, lines round trip")], pid=PID):
        rep.add(ob)
    from props import C08_bnd
    b = Bounded("C08.bnd.real_parameters", "parser:Parameters / Contentline / Event property (real)", C08_bnd.BOUND[rep.tier])
    t0 = time.time()
    try:
        C08_bnd.run(b, rep.tier, rep.seed, findings, rep.known_seen)
    except Exception as e:  # noqa
        import traceback
        traceback.print_exc()
        b.error = repr(e)
    b.seconds = time.time() - t0
    rep.bounded.append(b)
    rep.explanation = __doc__


def replay(payload: dict) -> int:
    w = payload.get("witness") or {}
    oid = payload.get("obligation", "")
    if "input" in w and ".Q4." in oid:
        got, want = native_round_trip(w["input"])
        print("replay:", repr(got), "expected", repr(want))
        return 1 if got != want else 0
    if "input" in w and ".Q3." in oid:
        got, want = native_values(w["input"])
        print("replay:", repr(got), "expected", repr(want))
        return 1 if got != want else 0
    if "input" in w and ".Q1" in oid:
        from icalendar.parser import dquote
        print("replay: dquote ->", repr(dquote(w["input"])))
        return 1
    from props import C08_bnd
    msg = C08_bnd.replay_witness(w)
    print("replay:", msg or "no violation on the current tree")
    return 1 if msg else 0
