"""Bounded stand-in for C09 (labelled bounded): every calendar fixture of the repository (plus synthetic texts) under the
insignificant rewrites and random compositions of them, both providers."""
import glob
import os
import random
import re

BOUND = {
    "quick": "all calendar/event fixture files that parse (about 85) plus 7 synthetic texts x 7 rewrites (LF, BOM, str, re-fold with "
             "space, re-fold with tab, trailing blank lines, name-case variants: lower / upper / swapped / a spelling of its own on every line) + 3 random compositions each, "
             "both providers; compared: tree, re-serialisation, utcoffset of parsed date-times",
    "thorough": "same with 12 random compositions each and both providers",
}
SYNTH = [
    "BEGIN:VCALENDAR\r\nVERSION:2.0\r\nBEGIN:VTIMEZONE\r\nTZID:Custom/Zone\r\nBEGIN:STANDARD\r\nDTSTART:20201025T030000\r\nTZOFFSETFROM:+0545\r\nTZOFFSETTO:+0545\r\nTZNAME:X\r\nEND:STANDARD\r\nEND:VTIMEZONE\r\n"
    "BEGIN:VEVENT\r\nUID:1\r\nDTSTART;TZID=Custom/Zone:20240101T100000\r\nDTEND;TZID=Europe/Berlin:20240101T120000\r\nRDATE;TZID=Europe/Berlin:20240102T100000,20240103T100000\r\n"
    "SUMMARY:a long summary that will have to be folded because it is much longer than seventy-five octets in total\r\nATTENDEE;CN=\"Doe, John\";ROLE=CHAIR:mailto:a@example.com\r\n"
    "BEGIN:VALARM\r\nTRIGGER;RELATED=END:-PT15M\r\nACTION:DISPLAY\r\nEND:VALARM\r\nEND:VEVENT\r\n"
    "BEGIN:VFREEBUSY\r\nUID:2\r\nFREEBUSY;TZID=Europe/Berlin:20240101T100000/PT1H,20240101T120000/20240101T130000\r\nEND:VFREEBUSY\r\n"
    "BEGIN:VAVAILABILITY\r\nUID:3\r\nBEGIN:AVAILABLE\r\nDTSTART:20240101T100000Z\r\nEND:AVAILABLE\r\nEND:VAVAILABILITY\r\nEND:VCALENDAR\r\n",
    # characters that a decoder or a line splitter may treat specially: U+FEFF inside a value and a quoted parameter, NEL, LINE /
    # PARAGRAPH SEPARATOR, NBSP, a non-BMP character
    "BEGIN:VCALENDAR\r\nVERSION:2.0\r\nBEGIN:VEVENT\r\nUID:4\r\nSUMMARY:Team\ufeffSync \u0085 next \u2028 line \u2029 par \u00a0 nbsp \U0001F600 end\r\n"
    "ATTENDEE;CN=\"Ann\ufeffLee \u2028\";X-P=a\u0085b:mailto:a@example.com\r\nDESCRIPTION:\ufeffleading and trailing\ufeff\r\nEND:VEVENT\r\nEND:VCALENDAR\r\n",
    # enumerated parameters with values that are NOT upper case (a reader that normalises them must do so whatever the case of the NAME)
    "BEGIN:VCALENDAR\r\nVERSION:2.0\r\nBEGIN:VEVENT\r\nUID:5\r\nDTSTART;VALUE=date:20240101\r\nDTEND;Value=Date:20240102\r\n"
    "ATTENDEE;RSVP=true;ROLE=req-participant;PARTSTAT=accepted;CUTYPE=individual;X-Custom=MixedCase:mailto:a@example.com\r\n"
    "ATTACH;ENCODING=base64;VALUE=binary;FMTTYPE=text/plain:dGV4dA==\r\nBEGIN:VALARM\r\nTRIGGER;RELATED=end:-PT15M\r\nACTION:display\r\nEND:VALARM\r\n"
    "END:VEVENT\r\nBEGIN:VFREEBUSY\r\nUID:6\r\nFREEBUSY;FBTYPE=busy-tentative:20240101T100000Z/PT1H\r\nEND:VFREEBUSY\r\nEND:VCALENDAR\r\n",
    # repeated properties: their values keep the order of the lines whatever the spelling of the name on each line
    "BEGIN:VCALENDAR\r\nVERSION:2.0\r\nBEGIN:VEVENT\r\nUID:7\r\nATTENDEE:mailto:a1@example.com\r\nCOMMENT:c1\r\nATTENDEE:mailto:a2@example.com\r\n"
    "ATTENDEE:mailto:a3@example.com\r\nCOMMENT:c2\r\nATTENDEE:mailto:a4@example.com\r\nCOMMENT:c3\r\nX-MULTI:1\r\nX-MULTI:2\r\nX-MULTI:3\r\n"
    "EXDATE:20240101T100000Z\r\nEXDATE:20240102T100000Z\r\nEXDATE:20240103T100000Z\r\nEND:VEVENT\r\nEND:VCALENDAR\r\n",
    "BEGIN:VCALENDAR\r\nBEGIN:X-BOX\r\nX-PROP;X-PARAM=1:value\r\nBEGIN:VTODO\r\nDUE;TZID=America/New_York:20240301T090000\r\nEXDATE;TZID=America/New_York:20240302T090000\r\nRECURRENCE-ID;TZID=America/New_York:20240302T090000\r\nEND:VTODO\r\nEND:X-BOX\r\nEND:VCALENDAR\r\n",
]


def fixtures():
    import icalendar
    base = os.path.dirname(icalendar.__file__)
    out = []
    for d in ("calendars", "events", "alarms", "timezones"):
        for p in sorted(glob.glob(os.path.join(base, "tests", d, "*.ics"))):
            out.append((os.path.basename(p), open(p, "rb").read()))
    for i, s in enumerate(SYNTH):
        out.append((f"synthetic{i}", s.encode("utf-8")))
    return out


def tree(c):
    def val(v):
        x = getattr(v, "dt", None)
        off = None
        try:
            off = x.utcoffset() if hasattr(x, "utcoffset") else None
        except Exception:
            off = "?"
        try:
            text = v.to_ical() if hasattr(v, "to_ical") else v
        except Exception as e:  # noqa
            text = f"<{type(e).__name__}>"
        return (type(v).__name__, text, str(off), sorted((k, repr(p)) for k, p in getattr(v, "params", {}).items()))
    props = []
    for k in c.keys():
        vs = c[k] if isinstance(c[k], list) else [c[k]]
        props.append((k, [val(v) for v in vs]))
    return (c.name, sorted(props, key=lambda kv: kv[0]), [tree(s) for s in c.subcomponents], len(getattr(c, "errors", [])))


PROVIDER = ["zoneinfo"]


def parse(data):
    import icalendar
    icalendar.timezone.tzp.use(PROVIDER[0])          # empties the global VTIMEZONE cache: every parse starts from the same history
    cs = icalendar.Calendar.from_ical(data, multiple=True)
    return [tree(c) for c in cs], [c.to_ical() for c in cs]


def unfold(text):
    return re.sub("(\r?\n)+[ \t]", "", text)


def rewrites(rnd):
    def lf(t):
        return t.replace("\r\n", "\n")

    def refold(ws):
        def f(t):
            out = []
            for line in unfold(t).split("\r\n"):
                pieces = []
                i = 0
                while i < len(line):
                    k = rnd.randint(1, 40)
                    pieces.append(line[i:i + k])
                    i += k
                out.append(("\r\n" + ws).join(pieces) if pieces else "")
            return "\r\n".join(out)
        return f

    def blank(t):
        return t + "\r\n\r\n\n"

    def case(mode):
        def f(t):
            out = []
            for line in unfold(t).split("\r\n"):
                m = re.match(r"^([^:;]+)(.*)$", line, re.S)
                if not m:
                    out.append(line)
                    continue
                name, rest = m.group(1), m.group(2)
                if mode == "perline":
                    # "any upper/lower-casing": every line gets its own spelling (repeated properties then differ in case from line to line)
                    conv = rnd.choice([str.lower, str.upper, str.title, str.swapcase])
                else:
                    conv = {"lower": str.lower, "upper": str.upper, "swap": str.swapcase}[mode]
                if name.upper() in ("BEGIN", "END"):
                    # BEGIN:VEVENT -> begin:vevent
                    if rest.startswith(":"):
                        rest = ":" + conv(rest[1:])
                    out.append(conv(name) + rest)
                    continue
                # parameter names (up to the first unquoted colon)
                head, sep, value = rest.partition(":")
                if '"' in head:
                    out.append(conv(name) + rest)
                    continue
                head = re.sub(r";([^=;:]+)=", lambda mm: ";" + conv(mm.group(1)) + "=", head)
                out.append(conv(name) + head + sep + value)
            return "\r\n".join(out)
        return f
    return {"LF": lf, "refold-space": refold(" "), "refold-tab": refold("\t"), "blank-lines": blank, "lower": case("lower"), "upper": case("upper"),
            "swapcase": case("swap"), "case-per-line": case("perline")}


SKIP = "skip"


def check_one(name, data, rw_names, rnd):
    """-> message or None"""
    try:
        text = data.decode("utf-8-sig")
    except UnicodeDecodeError:
        return SKIP
    text = text.replace("\r\n", "\n")
    if "\r" in text:
        return SKIP                 # a bare CR inside a line: outside the well-formed domain (lines without CR / LF)
    text = text.replace("\n", "\r\n")
    try:
        base = parse(text.encode("utf-8"))
    except Exception:
        return SKIP                 # fixtures that are invalid on purpose
    rws = rewrites(rnd)
    t2 = text
    # the rewrites are defined on CRLF-joined unfolded text: apply them in a fixed order (case, folds, blank lines, LF last)
    order = ["lower", "upper", "swapcase", "case-per-line", "refold-space", "refold-tab", "blank-lines", "LF"]
    for r in sorted((r for r in rw_names if r in order), key=order.index):
        t2 = rws[r](t2)
    payload = t2 if "str" in rw_names else (("﻿" if "BOM" in rw_names else "") + t2).encode("utf-8")
    try:
        got = parse(payload)
    except Exception as e:  # noqa
        return f"{name} under {rw_names}: parse raises {type(e).__name__}: {str(e)[:100]}"
    if got[0] != base[0]:
        return f"{name} under {rw_names}: the tree differs"
    if got[1] != base[1]:
        return f"{name} under {rw_names}: the re-serialisation differs"
    return None


def run(b, tier, seed, findings, known_seen):
    import icalendar
    rnd = random.Random(seed)
    fails = {}
    n = 0
    singles = ["LF", "BOM", "str", "refold-space", "refold-tab", "blank-lines", "lower", "upper", "swapcase", "case-per-line", "case-per-line"]
    ncomp = 3 if tier == "quick" else 12
    for prov in ("zoneinfo", "pytz"):
        icalendar.timezone.tzp.use(prov)
        PROVIDER[0] = prov
        try:
            for name, data in fixtures():
                combos = [[s] for s in singles] + [rnd.sample(singles, rnd.randint(2, 5)) for _ in range(ncomp)]
                for combo in combos:
                    msg = check_one(name, data, combo, rnd)
                    if msg == SKIP:
                        continue
                    n += 1
                    if msg and len(fails) < 12:
                        fails.setdefault((combo[0], msg.split(":")[-1][:30]), {"witness": {"fixture": name, "rewrites": combo, "provider": prov, "seed": seed},
                                                                                "detail": f"[{prov}] {msg}"})
        finally:
            icalendar.timezone.tzp.use_default()
    b.cases = n
    b.nontrivial = n
    b.failures = list(fails.values())
    b.samples = ["issue_53_parsing_failure.ics under ['lower', 'refold-tab', 'LF']"]
    return b


def search_for(oid):
    from vc.common import Bounded, findings_for
    b = Bounded("s", "", "")
    run(b, "quick", 0, findings_for("C09"), [])
    for f in b.failures:
        return f["witness"], f["detail"]
    return None


def replay_witness(w):
    import icalendar
    icalendar.timezone.tzp.use(w.get("provider", "zoneinfo"))
    PROVIDER[0] = w.get("provider", "zoneinfo")
    try:
        for name, data in fixtures():
            if name == w["fixture"]:
                for attempt in range(20):
                    m = check_one(name, data, w["rewrites"], random.Random(attempt))
                    if m and m != SKIP:
                        return m
        return None
    finally:
        icalendar.timezone.tzp.use_default()
