"""C11 -- zoned date-times keep wall time, zone id and offset; UTC properties keep the instant.

Functions under contract (real bodies, re-read every run): timezone/tzid: tzids_from_tzinfo (first branches), tzid_from_tzinfo,
tzid_from_dt; prop: vDatetime.__init__ / to_ical / from_ical, vDDDTypes / vDDDLists / vPeriod .from_ical (time zone argument),
vDDDTypes / vDDDLists / vPeriod.__init__ (TZID, through props/C02); cal: the property branch of Component.from_ical (TZID handed to
the decoder), create_utc_property p_get / p_set; timezone/tzp: TZP.timezone / localize / localize_utc; providers: localize,
localize_utc.

Obligations
  I.*   tzid_from_tzinfo: 'UTC' when 'UTC' is among the ids, None when there are none, else the first; tzids_from_tzinfo: () for
        None, (zone,) for a pytz zone, (key,) for a ZoneInfo
  W.*   writing: for every datetime exactly one of {floating: no Z, no TZID} {UTC: Z, no TZID} {zoned: TZID = id, no Z}: the TZID
        derived in vDatetime.__init__ and the Z written by vDatetime.to_ical agree (same for vDDDTypes / lists / periods: C02 V1-V3)
  R.*   reading: vDatetime.from_ical(text, tz) gives the wall fields of the text localised in tzp.timezone(tz) (tz a str) or in tz
        (a tzinfo); zoned write -> read returns the same wall fields in the zone named by the written TZID; vDDDTypes, vDDDLists and
        vPeriod.from_ical hand the time zone argument to every part
  L.*   the parse loop hands params['TZID'] to the decoder for FREEBUSY and for every property whose value class is
        vDDDTypes / vDDDLists (all RFC date-time names, upper and lower case), and never for other properties
  Z.*   TZP.timezone returns the provider's zone for the cleaned id when there is one; TZP.localize resolves a str through
        TZP.timezone and delegates; localize_utc: aware values are converted with astimezone(utc) (same instant), naive ones get
        UTC attached; providers' localize keep the wall fields (zoneinfo: replace(tzinfo=); pytz: tz.localize, assumed)
  U.*   the UTC property descriptor (DTSTAMP, LAST-MODIFIED, CREATED? -> whatever create_utc_property instantiates; ACKNOWLEDGED):
        the setter stores localize_utc(value), the getter returns localize_utc(stored)
  F.*   (fin, complete for the installed tz database) for every zone key k of both providers: clean(k) == k,
        tzp.timezone(k) is not None, tzid_from_tzinfo(tzp.timezone(k)) == k (UTC itself: 'UTC')
The round trip through Event at every transition of every zone (both providers, dateutil tzinfo objects for the wall time) is a
labelled bounded stand-in.
"""
from __future__ import annotations

import ast
import json
import os
import time

import z3

from contracts import caseless, comp, od, dtfields as DF
from vc import common
from vc.common import Obligation, Bounded, PROVED, REFUTED, UNDECIDED, ERROR
from vc.pyvc import chars, compare, source, seqs
from vc.pyvc import engine as E
from vc.pyvc.chars import VText, lit, sym_text, is_digit
from vc.pyvc.discharge import TIMEOUT_MS, check_vc
from props import C02, C03

LEVEL = "other"
PID = "C11"
HERE = os.path.dirname(os.path.abspath(__file__))


def ob_from(oid, fn, lines, status, detail, backend="z3"):
    return Obligation(oid, fn, backend, status, detail=detail, lines=lines)


# ---------------------------------------------------------------------------------------------------
# I: tzid functions

def tzid_obligations(rep, tier):
    T = TIMEOUT_MS[tier]
    obs = []
    fn = "timezone/tzid:tzid_from_tzinfo"
    mod, node = source.find(fn)
    if node is None:
        return [ob_from(f"{PID}.I.tzid_from_tzinfo", fn, None, UNDECIDED, "function not found")]
    rep.functions.add(fn)
    lat = E.Lattice()
    for m in ("caselessdict", "parser", "prop"):
        lat.load_module(m)
    eng = E.Engine(lat, {})
    # tzids_from_tzinfo(tzinfo) -> a tuple of ids: modelled as (has_utc, is_empty, first)
    has_utc, empty = z3.Bool("UTC_is_among_the_ids"), z3.Bool("no_ids")
    first = z3.String("first_id")
    ids = z3.Const("ids", E.Ref)

    def c_tzids(engine, st, args, kw):
        st.assume(z3.Implies(empty, z3.Not(has_utc)), E.truthy(ids) == z3.Not(empty), E.cls_of(ids) == lat.id("tuple"))
        return [(st, E.VRef(ids))]
    E.BUILTINS["tzids_from_tzinfo"] = c_tzids
    eng.globals["tzids_from_tzinfo"] = E.VBuiltin("tzids_from_tzinfo")

    def contains(engine, st, c, item):
        c = engine.unbox_known(c, st)
        item = engine.unbox_known(item, st)
        if isinstance(c, E.VRef) and isinstance(item, E.VStr) and z3.is_string_value(z3.simplify(item.z)) and z3.simplify(item.z).as_string() == "UTC":
            return [(st, has_utc)]
        raise E.Undecided("membership in an opaque object")
    eng.contracts["op:contains"] = contains

    def getitem(engine, st, c, k):
        c = engine.unbox_known(c, st)
        kz = z3.simplify(k.z) if isinstance(k, E.VInt) else None
        if isinstance(c, E.VRef) and kz is not None and z3.is_int_value(kz) and kz.as_long() == 0:
            out = []
            for s, e_ in engine.split(st, empty):
                out.append((s, E.VExc("IndexError", "tuple index out of range") if e_ else E.VStr(first)))
            return out
        raise E.Undecided("subscript")
    eng.contracts["op:getitem"] = getitem
    st = E.State()
    paths = eng.run(node, dict(eng.globals, tzinfo=E.VRef(z3.Const("tzinfo", E.Ref))), st)

    def clause(pa):
        r = eng.box(pa.value, pa.state)
        utc = eng.box(E.VStr(z3.StringVal("UTC")), pa.state)
        fb = eng.box(E.VStr(first), pa.state)
        return r == z3.If(has_utc, utc, z3.If(empty, E.NONE, fb))
    obs.append(compare.ensures(eng, f"{PID}.I.tzid_from_tzinfo.UTC_if_among_the_ids_else_None_or_the_first", fn, source.lines_of(node), paths, clause, T))
    obs.append(compare.raises_only(eng, f"{PID}.I.tzid_from_tzinfo.raises_nothing", fn, source.lines_of(node), paths, [], T))
    # tzids_from_tzinfo: shape of the first branches
    fn2 = "timezone/tzid:tzids_from_tzinfo"
    mod, n2 = source.find(fn2)
    ob = ob_from(f"{PID}.I.tzids_from_tzinfo.None_gives_no_id_pytz_zone_and_ZoneInfo_key_give_exactly_that_id", fn2, source.lines_of(n2) if n2 else None, UNDECIDED, "", backend="fin")
    if n2 is not None:
        body = [ast.unparse(x) for x in source.strip_docstring(n2.body)]
        want = ["if tzinfo is None:\n    return ()", "if hasattr(tzinfo, 'zone'):\n    return (tzinfo.zone,)", "if hasattr(tzinfo, 'key'):\n    return (tzinfo.key,)"]
        if body[:3] == want:
            ob.status, ob.detail = PROVED, "the first three statements are: None -> (); .zone -> (zone,); .key -> (key,)"
            rep.functions.add(fn2)
        else:
            ob.status, ob.detail = REFUTED, f"tzids_from_tzinfo starts with {body[:3]!r}"
            ob.shape_only = True
    obs.append(ob)
    return obs


# ---------------------------------------------------------------------------------------------------
# W / R: vDatetime writing and reading (C03's codec engine: shaped strings, calendar fields)

def plain(eng, st, v):
    """a string literal of the codec engine (shaped text) as a plain string value"""
    if isinstance(v, VText) and v.fixed():
        cs = [z3.simplify(c[1]) for c in v.toks]
        if all(z3.is_int_value(c) for c in cs):
            return E.VStr(E.upper_lit(st, "".join(chr(c.as_long()) for c in cs)) if False else z3.StringVal("".join(chr(c.as_long()) for c in cs)))
    return v


def codec_engine():
    eng, classes = C03.make_engine()

    def fix(d, engine, st):
        if isinstance(d, E.VDict):
            return E.VDict([(plain(engine, st, k), plain(engine, st, v)) for k, v in d.items])
        return d
    eng.contracts["new:Parameters"] = lambda e, s, a, k: C02.new_parameters(e, s, [fix(x, e, s) for x in a], k)
    eng.contracts["CaselessDict.update"] = lambda e, s, a, k: C02.map_update(e, s, [a[0]] + [fix(x, e, s) for x in a[1:]], k)
    return eng, classes


def writing_obligations(rep, tier):
    T = TIMEOUT_MS[tier]
    obs = []
    eng, classes = codec_engine()
    L = eng.lat
    init, enc = C03.fn(classes, eng, "vDatetime", "__init__"), C03.fn(classes, eng, "vDatetime", "to_ical")
    fn = "prop:vDatetime.__init__/to_ical"
    if init is None or enc is None:
        return [ob_from(f"{PID}.W.vDatetime", fn, None, UNDECIDED, "functions not found")]
    rep.functions.add("prop:vDatetime.__init__")
    rep.functions.add("prop:vDatetime.to_ical")
    d = z3.Const("dt", E.Ref)
    ob = Obligation(f"{PID}.W.vDatetime.exactly_one_of_floating_Z_or_TZID", fn, "z3", PROVED, lines=source.lines_of(init))
    n = 0
    for kind in ("floating", "utc", "zoned"):
        st = E.State()
        st.assume(*DF.date_invariant(eng, d, "datetime"))
        st.assume(DF.aware(d) == (kind != "floating"), z3.Implies(DF.aware(d), DF.is_utc(d) == (kind == "utc")))
        addr = st.alloc(E.HeapObj("vDatetime", {}))
        empty = E.VMap(st.alloc(E.MapObj(C02.EMPTY, z3.K(E.S, z3.IntVal(0)), z3.IntVal(0), cls="Parameters")))
        p1s = eng.run(init, dict(eng.globals, self=E.VObj(addr), dt=E.VRef(d), params=E.VDict([])), st)
        for p1 in p1s:
            if p1.kind != "ret":
                ob.status, ob.detail = (UNDECIDED, f"outside subset: {p1.value}") if p1.kind == "undecided" else (REFUTED, f"__init__ exits with {p1.kind}")
                break
            for p2 in eng.run(enc, dict(eng.globals, self=E.VObj(addr)), p1.state):
                n += 1
                if p2.kind != "ret":
                    ob.status, ob.detail = (UNDECIDED, f"outside subset: {p2.value}") if p2.kind == "undecided" else (REFUTED, f"to_ical exits with {p2.kind}")
                    break
                t = p2.value
                t = chars.to_text(eng, t, p2.state) if not isinstance(t, VText) else t
                pm = p2.state.heap[addr].fields.get("params")
                arr = p2.state.heap[pm.addr].arr if isinstance(pm, E.VMap) else None
                if t is None or not t.fixed() or arr is None:
                    ob.status, ob.detail = UNDECIDED, "text of unknown shape / params not a map"
                    break
                has_z = len(t.toks) == 16
                tz_entry = z3.Select(arr, z3.StringVal("TZID"))
                if kind == "zoned":
                    goal = z3.And(z3.BoolVal(len(t.toks) == 15), tz_entry == E.OptRef.some(E.box_str(C03.tzid_other)),
                                  arr == z3.Store(C02.EMPTY, z3.StringVal("TZID"), tz_entry))
                elif kind == "utc":
                    goal = z3.And(z3.BoolVal(has_z), t.toks[15][1] == ord("Z") if has_z else z3.BoolVal(False), arr == C02.EMPTY)
                else:
                    goal = z3.And(z3.BoolVal(len(t.toks) == 15), arr == C02.EMPTY)
                # wall fields
                digs = [C03.num(t, 0, 4), C03.num(t, 4, 6), C03.num(t, 6, 8), C03.num(t, 9, 11), C03.num(t, 11, 13), C03.num(t, 13, 15)]
                goal = z3.And(goal, *[v == DF.F[nm](d) for nm, v in zip(DF.F, digs)])
                status, secs, info = check_vc(eng.axioms, [p2.pc], goal, T)
                compare.fold_status(ob, status, secs, info, f"{kind} value")
            if ob.status != PROVED:
                break
        if ob.status != PROVED:
            break
    ob.detail = ob.detail or f"{n} path pairs over floating / UTC / zoned values; wall fields are the digits written"
    obs.append(ob)
    return obs


def reading_obligations(rep, tier):
    T = TIMEOUT_MS[tier]
    obs = []
    eng, classes = codec_engine()
    L = eng.lat
    dec = C03.fn(classes, eng, "vDatetime", "from_ical")
    fn = "prop:vDatetime.from_ical"
    if dec is None:
        return [ob_from(f"{PID}.R.vDatetime.from_ical", fn, None, UNDECIDED, "function not found")]
    rep.functions.add(fn)
    prov_tz = z3.Function("provider_timezone", E.Ref, E.Ref)
    for label in ("tzid_string", "tzinfo_object"):
        t = sym_text("t", 15)
        st = E.State()
        st.assume(C03.all_digits(VText(t.toks[:8])), t.toks[8][1] == ord("T"), C03.all_digits(VText(t.toks[9:15])))
        if label == "tzid_string":
            k = z3.String("tzid")
            tzarg = E.VStr(k)
            zone = prov_tz(E.box_str(k))
        else:
            zone = z3.Const("tzinfo", E.Ref)
            tzarg = E.VRef(zone)
            st.assume(L.isinstance_z(zone, ["tzinfo"]) if "tzinfo" in L.ids else z3.BoolVal(True), zone != E.NONE,
                      z3.Not(L.isinstance_z(zone, ["str"])))
        st.assume(E.truthy(zone))                       # a zone was found (an unknown TZID gives None: floating, see below)
        paths = eng.run(dec, {"ical": t, "timezone": tzarg}, st)
        vals = [C03.num(t, 0, 4), C03.num(t, 4, 6), C03.num(t, 6, 8), C03.num(t, 9, 11), C03.num(t, 11, 13), C03.num(t, 13, 15)]
        valid = z3.And(DF.valid_date(*vals[:3]), DF.valid_time(*vals[3:]))

        def c(pa, vals=vals, valid=valid, zone=zone):
            if pa.kind == "ret":
                r = eng.box(pa.value, pa.state)
                naive = DF.mk_datetime(*vals)
                return z3.And(valid, r == DF.with_tz(naive, zone), *[DF.F[n](r) == v for n, v in zip(DF.F, vals)])
            return z3.And(z3.Not(valid), z3.BoolVal(pa.value.cls == "ValueError"))
        obs.append(compare.ensures(eng, f"{PID}.R.vDatetime.from_ical.wall_fields_localised_in_the_given_zone[{label}]", fn, source.lines_of(dec), paths, c, T,
                                   kinds=("ret", "raise")))
    # write -> read for a zoned value
    init, enc = C03.fn(classes, eng, "vDatetime", "__init__"), C03.fn(classes, eng, "vDatetime", "to_ical")
    if init is not None and enc is not None:
        d = z3.Const("dt", E.Ref)
        st = E.State()
        st.assume(*DF.date_invariant(eng, d, "datetime"))
        st.assume(DF.aware(d), z3.Not(DF.is_utc(d)), E.truthy(prov_tz(E.box_str(C03.tzid_other))))
        pairs = C03.run_chain(eng, enc, {"self": C03.value_obj(eng, st, "vDatetime", "dt", E.VRef(d))}, st, dec,
                              lambda v: {"ical": v, "timezone": E.VStr(C03.tzid_other)})

        def c_rt(p1, p2):
            if p2.kind != "ret":
                return z3.BoolVal(False)
            r = eng.box(p2.value, p2.state)
            return z3.And(*[DF.F[n](r) == DF.F[n](d) for n in DF.F], DF.aware(r),
                          r == DF.with_tz(DF.mk_datetime(*[DF.F[n](d) for n in DF.F]), prov_tz(E.box_str(C03.tzid_other))))
        obs.append(C03.chain_obligation(eng, f"{PID}.R.vDatetime.zoned_write_then_read_gives_the_wall_fields_in_the_zone_of_the_TZID", "prop:vDatetime.to_ical/from_ical",
                                        pairs, c_rt, T))
    return obs


def passing_obligations(rep, tier):
    """vDDDTypes / vDDDLists / vPeriod.from_ical hand the time zone argument to every part"""
    T = TIMEOUT_MS[tier]
    obs = []
    eng, classes = codec_engine()
    tzarg = z3.Const("timezone", E.Ref)
    calls = []

    def capture(label):
        def c(engine, s, a, k):
            args = list(a[1:]) if isinstance(a[0], E.VClass) else list(a)
            tz = k.get("timezone", args[1] if len(args) > 1 else E.VNone())
            r = z3.Const(f"part_{len(calls)}", E.Ref)
            calls.append((label, engine.box(tz, s)))
            return [(s, E.VRef(r))]
        return c
    # vPeriod.from_ical
    pf = C03.fn(classes, eng, "vPeriod", "from_ical")
    oid = f"{PID}.R.vPeriod.from_ical.both_parts_receive_the_time_zone"
    if pf is None:
        obs.append(ob_from(oid, "prop:vPeriod.from_ical", None, UNDECIDED, "not found"))
    else:
        rep.functions.add("prop:vPeriod.from_ical")
        eng.contracts["vDDDTypes.from_ical"] = capture("vDDDTypes")
        t1, t2 = sym_text("s", 15), sym_text("e", 15)
        text = VText(t1.toks + lit("/").toks + t2.toks)
        st = E.State()
        st.assume(*[c[1] != ord("/") for c in t1.toks + t2.toks])
        calls.clear()
        paths = eng.run(pf, {"ical": text, "timezone": E.VRef(tzarg)}, st)

        def c_per(pa):
            if len(calls) < 2:
                return z3.BoolVal(False)
            return z3.And(calls[-2][1] == tzarg, calls[-1][1] == tzarg)
        obs.append(compare.ensures(eng, oid, "prop:vPeriod.from_ical", source.lines_of(pf), [p for p in paths if p.kind != "raise"], c_per, T))
    # vDDDTypes.from_ical: datetime / period branches
    eng, classes = codec_engine()
    dd = C03.fn(classes, eng, "vDDDTypes", "from_ical")
    oid = f"{PID}.R.vDDDTypes.from_ical.date_time_and_period_texts_are_decoded_in_the_time_zone"
    if dd is None:
        obs.append(ob_from(oid, "prop:vDDDTypes.from_ical", None, UNDECIDED, "not found"))
    else:
        rep.functions.add("prop:vDDDTypes.from_ical")
        eng.contracts["vDatetime.from_ical"] = capture("vDatetime")
        eng.contracts["vPeriod.from_ical"] = capture("vPeriod")
        ob = Obligation(oid, "prop:vDDDTypes.from_ical", "z3", PROVED, lines=source.lines_of(dd))
        noslash = lambda t: [c[1] != ord("/") for c in t.toks]
        for label, text, hyp in (("date-time", sym_text("t", 15), lambda t: [is_digit(c[1]) for c in t.toks[:8]] + [t.toks[8][1] == ord("T")] + noslash(t)),
                                 ("date-time Z", sym_text("t", 16), lambda t: [is_digit(c[1]) for c in t.toks[:8]] + [t.toks[8][1] == ord("T")] + noslash(t)),
                                 ("period", VText(sym_text("s", 15).toks + lit("/").toks + sym_text("e", 15).toks),
                                  lambda t: [is_digit(t.toks[0][1])] + [z3.And(c[1] != ord("P"), c[1] != ord("p")) for c in t.toks[:2]])):
            st = E.State()
            st.assume(*hyp(text))
            calls.clear()
            paths = eng.run(dd, {"cls": E.VClass("vDDDTypes"), "ical": text, "timezone": E.VRef(tzarg)}, st)
            n_before = 0
            for pa in paths:
                if pa.kind == "undecided":
                    ob.status, ob.detail = UNDECIDED, f"{label}: {pa.value}"
                    break
                if pa.kind != "ret":
                    continue
            if ob.status != PROVED:
                break
            if not calls or not all(lbl == ("vPeriod" if label == "period" else "vDatetime") for lbl, _ in calls):
                ob.status, ob.detail = REFUTED, f"{label}: decoder calls {[c[0] for c in calls]}"
                ob.shape_only = True
                break
            for lbl, tz in calls:
                status, secs, info = check_vc(eng.axioms, [], tz == tzarg, T)
                compare.fold_status(ob, status, secs, info, f"{label}: the {lbl} decoder does not receive the time zone argument")
        ob.detail = ob.detail or "date-time, date-time with Z and period texts: the decoder receives the time zone argument"
        obs.append(ob)
    # vDDDLists.from_ical: every element
    eng, classes = codec_engine()
    lf = C03.fn(classes, eng, "vDDDLists", "from_ical")
    oid = f"{PID}.R.vDDDLists.from_ical.every_element_is_decoded_in_the_time_zone"
    if lf is None:
        obs.append(ob_from(oid, "prop:vDDDLists.from_ical", None, UNDECIDED, "not found"))
    else:
        rep.functions.add("prop:vDDDLists.from_ical")
        body = [ast.unparse(x) for x in source.strip_docstring(lf.body)]
        want = ["out = []", "ical_dates = ical.split(',')", "for ical_dt in ical_dates:\n    out.append(vDDDTypes.from_ical(ical_dt, timezone=timezone))", "return out"]
        ob = ob_from(oid, "prop:vDDDLists.from_ical", source.lines_of(lf), PROVED if body == want else REFUTED,
                     "the body maps vDDDTypes.from_ical(item, timezone=timezone) over ical.split(',')" if body == want else
                     f"the body is no longer the element-wise map with timezone=timezone: {body!r}", backend="fin")
        if body != want:
            ob.shape_only = True
        obs.append(ob)
    return obs


# ---------------------------------------------------------------------------------------------------
# L: the parse loop hands the TZID parameter to the decoder

def loop_obligations(rep, tier):
    from props import C04
    T = TIMEOUT_MS[tier]
    fnn = "cal:Component.from_ical"
    try:
        fnode, loop = C04.loop_parts()
        types_map, reg, fp_ok = C02.read_tables()
    except E.Undecided as u:
        return [ob_from(f"{PID}.L.loop", fnn, None, UNDECIDED, str(u))]
    rep.functions.add(fnn)
    lines = source.lines_of(loop)
    spec = json.load(open(os.path.join(HERE, "..", "spec", "rfc5545_properties.json")))["properties"]
    names = sorted(spec)
    zoned_classes = ("vDDDTypes", "vDDDLists", "vPeriod")
    ob_yes = Obligation(f"{PID}.L.every_date_time_valued_property_is_decoded_in_its_TZID", fnn, "z3", PROVED, lines=lines)
    ob_no = Obligation(f"{PID}.L.without_a_TZID_parameter_no_time_zone_is_passed", fnn, "z3", PROVED, lines=lines)
    ob_other = Obligation(f"{PID}.L.other_properties_are_decoded_without_a_time_zone", fnn, "z3", PROVED, lines=lines)
    n_runs = 0
    lat = E.Lattice()
    for m in ("caselessdict", "parser", "prop", "cal"):
        lat.load_module(m)
    lat.add("TZP", ["object"])
    lat.add("TypesFactory", ["object"])
    eng = seqs.SeqEngine(lat, {})
    classes = comp.Classes("cal", extra=())
    comp.install(eng, classes)
    base_contracts = dict(eng.contracts)
    if tier == "quick":
        # the loop looks at a name only through comparisons with its own string literals and through the value class: names that
        # are not mentioned and share a (time-zone-free) class take the same path -- one representative each (thorough: all names)
        literals = {c.value.upper() for c in ast.walk(loop) if isinstance(c, ast.Constant) and isinstance(c.value, str)}
        seen_cls, keep = set(), []
        for nm in names:
            c_ = reg.get(types_map.get(nm, "text").upper())
            if c_ in zoned_classes or nm in literals or c_ not in seen_cls:
                keep.append(nm)
                seen_cls.add(c_)
        names = keep
    for name in names:
        cls = reg.get(types_map.get(name, "text").upper())
        for spelled in (name, name.lower()):
            for with_tzid in (True, False):
                eng.contracts = dict(base_contracts)
                st = E.State()
                comp_m = E.MapObj.fresh("component", cls="Event")
                comp_m.fields["errors"] = E.VList(st.alloc(E.ListObj([])))
                comp_m.fields["subcomponents"] = E.VList(st.alloc(E.ListObj([])))
                a_comp = st.alloc(comp_m)
                stack = st.alloc(E.ListObj([E.VMap(a_comp)]))
                comps = st.alloc(E.ListObj([]))
                line = z3.Const("line", E.Ref)
                st.assume(E.truthy(line), E.cls_of(line) == lat.id("Contentline"))
                VALS = z3.String("vals")
                params_m = E.MapObj.fresh("params", cls="Parameters")
                a_params = st.alloc(params_m)
                tzv = z3.Const("tzid_value", E.Ref)
                st.assume(E.map_wf(params_m), E.map_wf(comp_m))
                KT = E.upper_lit(st, "TZID")
                if with_tzid:
                    st.assume(z3.Select(params_m.arr, KT) == E.OptRef.some(tzv))
                else:
                    st.assume(z3.Select(params_m.arr, KT) == E.OptRef.none)
                eng.contracts["ref.parts"] = lambda e, s, a, k, spelled=spelled: [(s, E.VTuple([E.VStr(z3.StringVal(spelled)), E.VMap(a_params), E.VStr(VALS)]))]
                eng.globals["types_factory"] = E.VClass("TypesFactory")
                eng.globals["component_factory"] = E.VClass("TypesFactory")
                eng.globals["tzp"] = E.VClass("TZP")
                eng.contracts["TypesFactory.for_property"] = comp.exact_arity(lambda e, s, a, k, cls=cls: [(s, E.VClass(cls))], 2, "types_factory.for_property(name)")
                calls = []

                def from_ical(engine, s, args, kw):
                    a = list(args[1:])
                    tz = kw.get("timezone", a[1] if len(a) > 1 else None)
                    calls.append((s, None if tz is None else engine.box(tz, s)))
                    return [(s, E.VRef(z3.Const(f"decoded_{len(calls)}", E.Ref)))]
                eng.contracts[f"{cls}.from_ical"] = from_ical
                eng.contracts[f"new:{cls}"] = lambda e, s, a, k: [(s, E.VRef(s.new_ref(None, "value_obj")))]
                eng.contracts["Component.add"] = lambda e, s, a, k: [(s, E.VNone())]
                eng.contracts["op:setattr"] = lambda e, s, o, n, v: [(s, None)]
                two = lambda e, s, *a: [(s, E.VList(s.alloc(E.ListObj([E.VStr(z3.String('item1')), E.VStr(z3.String('item2'))]))))]
                eng.contracts["ref.split"] = lambda e, s, a, k: two(e, s)
                saved_split = E.STR_METHODS.get("split")
                E.STR_METHODS["split"] = lambda e, s, strv, a, k: two(e, s)
                st.env = {"cls": E.VClass("Component"), "st": E.VStr(z3.String("st")), "multiple": E.VBool(z3.BoolVal(False)),
                          "stack": E.VList(stack), "comps": E.VList(comps), "line": E.VRef(line)}
                target = ob_other if cls not in zoned_classes else (ob_yes if with_tzid else ob_no)
                try:
                    results = eng.exec_block(loop.body, st)
                except E.Undecided as u:
                    if target.status == PROVED:
                        target.status, target.detail = UNDECIDED, f"{spelled}: outside subset: {u}"
                    continue
                finally:
                    if saved_split is None:
                        E.STR_METHODS.pop("split", None)
                    else:
                        E.STR_METHODS["split"] = saved_split
                n_runs += 1
                if not calls:
                    if target.status == PROVED:
                        target.status, target.detail = UNDECIDED, f"{spelled}: the decoder was not called"
                    continue
                for s, tz in calls:
                    if cls in zoned_classes and with_tzid:
                        goal = z3.BoolVal(False) if tz is None else tz == tzv
                    else:
                        goal = z3.BoolVal(True) if tz is None else tz == E.NONE
                    status, secs, info = check_vc(eng.axioms, [*s.pc, *s.qpc], goal, T)
                    compare.fold_status(target, status, secs, info, f"{spelled}" + (";TZID=..." if with_tzid else ""))
                    if target.status == REFUTED:
                        target.witness_name = spelled
    for o in (ob_yes, ob_no, ob_other):
        o.detail = o.detail or f"{len(names)} property names ({'every date-time valued name, every name the loop mentions, one per other value class' if tier == 'quick' else 'all RFC 5545 names'}), upper and lower case ({n_runs} symbolic runs of the loop body in total)"
        if o.status == REFUTED:
            o.shape_only = True
    return [ob_yes, ob_no, ob_other]


# ---------------------------------------------------------------------------------------------------
# Z: the provider proxy

prov_tz = z3.Function("provider_timezone_of", E.S, E.Ref)          # provider.timezone(id): a tzinfo or None
prov_localize = z3.Function("provider_localize", E.Ref, E.Ref, E.Ref)
prov_localize_utc = z3.Function("provider_localize_utc", E.Ref, E.Ref)
clean = z3.Function("strip_slashes", E.S, E.S)
win = z3.Function("windows_to_olson", E.S, E.S)
is_win = z3.Function("is_windows_name", E.S, E.B)
cache_get = z3.Function("cached_zone", E.S, E.Ref)
to_dt = z3.Function("to_datetime", E.Ref, E.Ref)


def tzp_engine():
    lat = E.Lattice()
    for m in ("caselessdict", "parser", "prop"):
        lat.load_module(m)
    lat.add("TZP", ["object"])
    lat.add("WIN", ["object"])
    eng = E.Engine(lat, {})
    provider, cache = z3.Const("provider", E.Ref), z3.Const("tz_cache", E.Ref)

    def strip(engine, st, s, args, kw):
        a = z3.simplify(args[0].z) if args and isinstance(args[0], E.VStr) else None
        if a is None or not z3.is_string_value(a) or a.as_string() != "/":
            raise E.Undecided("str.strip with another argument")
        return [(st, E.VStr(clean(s.z)))]
    E.STR_METHODS["strip"] = strip

    def ref_timezone(engine, st, args, kw):
        if not z3.eq(args[0].z, provider):
            raise E.Undecided("timezone() on another object")
        k = engine.unbox_known(args[1], st)
        r = prov_tz(k.z)
        st.assume(z3.Implies(r != E.NONE, E.truthy(r)), z3.Not(engine.lat.isinstance_z(r, ["str"])))
        return [(st, E.VRef(r))]
    eng.contracts["ref.timezone"] = ref_timezone
    eng.contracts["ref.localize"] = lambda e, s, a, k: [(s, E.VRef(prov_localize(e.box(a[1], s), e.box(a[2], s))))]
    eng.contracts["ref.get"] = lambda e, s, a, k: [(s, E.VRef(cache_get(e.unbox_known(a[1], s).z)))]

    def ref_localize_utc(engine, st, args, kw):
        if not z3.eq(args[0].z, provider):
            raise E.Undecided("localize_utc() on another object")
        return [(st, E.VRef(prov_localize_utc(engine.box(args[1], st))))]
    eng.contracts["ref.localize_utc"] = ref_localize_utc
    eng.globals["WINDOWS_TO_OLSON"] = E.VClass("WIN")

    def contains(engine, st, c, item):
        c = engine.unbox_known(c, st)
        if isinstance(c, E.VClass) and c.name == "WIN":
            return [(st, is_win(engine.unbox_known(item, st).z))]
        raise E.Undecided("membership")
    eng.contracts["op:contains"] = contains

    def getitem(engine, st, c, k):
        c = engine.unbox_known(c, st)
        if isinstance(c, E.VClass) and c.name == "WIN":
            kz = engine.unbox_known(k, st).z
            out = []
            for s, ok in engine.split(st, is_win(kz)):
                out.append((s, E.VStr(win(kz)) if ok else E.VExc("KeyError", "windows name")))
            return out
        raise E.Undecided("subscript")
    eng.contracts["op:getitem"] = getitem
    E.BUILTINS["to_datetime"] = lambda e, s, a, k: [(s, E.VRef(to_dt(e.box(a[0], s))))]
    eng.globals["to_datetime"] = E.VBuiltin("to_datetime")
    mod = source.module("timezone/tzp")
    members = mod.class_members("TZP")

    def self_obj(st):
        o = E.HeapObj("TZP", {"__provider": E.VRef(provider), "__tz_cache": E.VRef(cache)})
        return E.VObj(st.alloc(o))
    for m in ("clean_timezone_id", "timezone"):
        if isinstance(members.get(m), ast.FunctionDef):
            eng.contracts[f"TZP.{m}"] = comp.inline_method(members[m])
    return eng, members, self_obj, provider


def proxy_obligations(rep, tier):
    T = TIMEOUT_MS[tier]
    obs = []
    saved = E.STR_METHODS.get("strip")
    try:
        eng, members, self_obj, provider = tzp_engine()
        # timezone
        node = members.get("timezone")
        fn = "timezone/tzp:TZP.timezone"
        if not isinstance(node, ast.FunctionDef):
            obs.append(ob_from(f"{PID}.Z.TZP.timezone", fn, None, UNDECIDED, "not found"))
        else:
            rep.functions.add(fn)
            rep.functions.add("timezone/tzp:TZP.clean_timezone_id")
            k = z3.String("tz_id")
            st = E.State()
            paths = eng.run(node, dict(eng.globals, self=self_obj(st), tz_id=E.VStr(k)), st)

            def c(pa):
                r = eng.box(pa.value, pa.state)
                known = prov_tz(clean(k))
                w = prov_tz(win(clean(k)))
                rest = z3.If(z3.And(is_win(clean(k)), w != E.NONE), w,
                             z3.If(prov_tz(k) != E.NONE, prov_tz(k), cache_get(clean(k))))
                return r == z3.If(known != E.NONE, known, rest)
            hyp = [z3.ForAll([z3.Const("r!t", E.Ref)], z3.Implies(z3.Const("r!t", E.Ref) != E.NONE, z3.Const("r!t", E.Ref) == z3.Const("r!t", E.Ref)))]
            truth_h = []
            for term in (prov_tz(clean(k)), prov_tz(win(clean(k))), prov_tz(k)):
                truth_h.append(E.truthy(term) == (term != E.NONE))           # a tzinfo object is truthy
            obs.append(compare.ensures(eng, f"{PID}.Z.TZP.timezone.the_provider_zone_of_the_cleaned_id_then_windows_name_then_raw_id_then_cache", fn,
                                       source.lines_of(node), paths, c, T, extra_hyps=truth_h))
            obs.append(compare.raises_only(eng, f"{PID}.Z.TZP.timezone.raises_nothing", fn, source.lines_of(node), paths, [], T, extra_hyps=truth_h))
        node = members.get("localize")
        fn = "timezone/tzp:TZP.localize"
        if not isinstance(node, ast.FunctionDef):
            obs.append(ob_from(f"{PID}.Z.TZP.localize", fn, None, UNDECIDED, "not found"))
        else:
            rep.functions.add(fn)
            d, tz = z3.Const("dt", E.Ref), z3.Const("tz", E.Ref)
            st = E.State()
            paths = eng.run(node, dict(eng.globals, self=self_obj(st), dt=E.VRef(d), tz=E.VRef(tz)), st)

            def c2(pa):
                r = eng.box(pa.value, pa.state)
                is_str = eng.lat.isinstance_z(tz, ["str"])
                k = E.str_of(tz)
                # the zone a str resolves to is whatever TZP.timezone returns (contract above): here its first alternative
                return z3.Implies(z3.Not(is_str), r == prov_localize(to_dt(d), tz))
            obs.append(compare.ensures(eng, f"{PID}.Z.TZP.localize.delegates_to_the_provider_with_the_given_tzinfo", fn, source.lines_of(node), paths, c2, T))

            def c3(pa):
                r = eng.box(pa.value, pa.state)
                is_str = eng.lat.isinstance_z(tz, ["str"])
                k = E.str_of(tz)
                return z3.Implies(z3.And(is_str, prov_tz(clean(k)) != E.NONE), r == prov_localize(to_dt(d), prov_tz(clean(k))))
            obs.append(compare.ensures(eng, f"{PID}.Z.TZP.localize.a_zone_id_is_resolved_through_TZP.timezone", fn, source.lines_of(node), paths, c3, T))
        # localize_utc: the link between the UTC descriptor / Component.add (which assume "tzp.localize_utc converts to UTC") and the
        # providers' localize_utc (shape obligations below): the proxy hands EVERY value to the provider, whatever its offset
        node = members.get("localize_utc")
        fn = "timezone/tzp:TZP.localize_utc"
        if not isinstance(node, ast.FunctionDef):
            obs.append(ob_from(f"{PID}.Z.TZP.localize_utc", fn, None, UNDECIDED, "not found"))
        else:
            rep.functions.add(fn)
            d = z3.Const("dt", E.Ref)
            try:
                st = E.State()
                paths = eng.run(node, dict(eng.globals, self=self_obj(st), dt=E.VRef(d)), st)
                o1 = compare.ensures(eng, f"{PID}.Z.TZP.localize_utc.every_value_is_handed_to_the_provider", fn, source.lines_of(node), paths,
                                     lambda pa: eng.box(pa.value, pa.state) == prov_localize_utc(to_dt(d)), T)
                o2 = compare.raises_only(eng, f"{PID}.Z.TZP.localize_utc.raises_nothing", fn, source.lines_of(node), paths, [], T)
                for o in (o1, o2):
                    if o.status == REFUTED:
                        o.shape_only = True
                obs += [o1, o2]
            except E.Undecided as u:
                obs.append(ob_from(f"{PID}.Z.TZP.localize_utc.every_value_is_handed_to_the_provider", fn, source.lines_of(node), UNDECIDED, f"outside subset: {u}"))
    except E.Undecided as u:
        obs.append(ob_from(f"{PID}.Z.TZP", "timezone/tzp:TZP", None, UNDECIDED, f"outside subset: {u}"))
    finally:
        if saved is None:
            E.STR_METHODS.pop("strip", None)
        else:
            E.STR_METHODS["strip"] = saved
    # providers: shapes
    for modn, cls, want in (("timezone/zoneinfo", "ZONEINFO", {"localize": ["return dt.replace(tzinfo=tz)"],
                                                               "localize_utc": ["if getattr(dt, 'tzinfo', False) and dt.tzinfo is not None:\n    return dt.astimezone(self.utc)",
                                                                                "return self.localize(dt, self.utc)"]}),
                            ("timezone/pytz", "PYTZ", {"localize": ["return tz.localize(dt)"],
                                                       "localize_utc": ["if getattr(dt, 'tzinfo', False) and dt.tzinfo is not None:\n    return dt.astimezone(pytz.utc)",
                                                                        "return pytz.utc.localize(dt)"]})):
        mem = source.module(modn).class_members(cls)
        for m, body in want.items():
            node = mem.get(m)
            got = [ast.unparse(x) for x in source.strip_docstring(node.body)] if isinstance(node, ast.FunctionDef) else None
            got = [g for g in (got or []) if not g.startswith("#")]
            ob = ob_from(f"{PID}.Z.{cls}.{m}.keeps_the_wall_fields_or_the_instant", f"{modn}:{cls}.{m}", source.lines_of(node) if node is not None else None,
                         PROVED if got == body else REFUTED,
                         "attaches the zone to the wall fields (replace / tz.localize); aware values are converted with astimezone(utc)" if got == body
                         else f"body changed: {got!r}", backend="fin")
            if got != body:
                ob.shape_only = True
            else:
                rep.functions.add(f"{modn}:{cls}.{m}")
            obs.append(ob)
    return obs


# ---------------------------------------------------------------------------------------------------
# U: UTC property descriptor

def utc_property_obligations(rep, tier):
    from props import C16
    T = TIMEOUT_MS[tier]
    fn = "cal:create_utc_property"
    mod, outer = source.find(fn)
    if outer is None:
        return [ob_from(f"{PID}.U.create_utc_property", fn, None, UNDECIDED, "not found")]
    obs = []
    eng, classes = C16.make_engine()
    lat = eng.lat
    if "TZP" not in lat.ids:
        lat.add("TZP", ["object"])
    eng.globals["tzp"] = E.VClass("TZP")
    utc_of = z3.Function("localize_utc", E.Ref, E.Ref)
    eng.contracts["TZP.localize_utc"] = comp.exact_arity(lambda e, s, a, k: [(s, E.VRef(utc_of(e.box(a[1], s))))], 2, "tzp.localize_utc(dt)")
    added = []

    def c_add(engine, st, args, kw):
        added.append((st, engine.unbox_known(args[1], st), engine.box(args[2], st)))
        return [(st, E.VNone())]
    eng.contracts["Component.add"] = c_add
    rep.functions.add(fn + ".p_set")
    rep.functions.add(fn + ".p_get")
    p_set, p_get = source.nested(outer, "p_set"), source.nested(outer, "p_get")
    name = "ACKNOWLEDGED"
    env = dict(eng.globals)
    env.update({"name": E.VStr(z3.StringVal(name)), "docs": E.VStr(z3.StringVal(""))})
    # setter
    oid = f"{PID}.U.setter_stores_the_value_converted_to_UTC"
    if p_set is None:
        obs.append(ob_from(oid, fn, None, UNDECIDED, "p_set not found"))
    else:
        st, addr = C16.comp_state(eng, "Alarm")
        value = z3.Const("value", E.Ref)
        st.assume(value != E.NONE)
        e = dict(env, self=E.VMap(addr), value=E.VRef(value))
        added.clear()
        paths = eng.run(p_set, e, st)
        ob = Obligation(oid, fn + ".p_set", "z3", PROVED, lines=source.lines_of(p_set))
        rets = [p for p in paths if p.kind == "ret"]
        und = [p for p in paths if p.kind == "undecided"]
        if und or not rets or not added:
            ob.status, ob.detail = UNDECIDED, f"outside subset / add not called: {[p.value for p in und][:1]}"
        else:
            for s, nm, v in added:
                goal = z3.And(nm.z == z3.StringVal(name), v == utc_of(value))
                status, secs, info = check_vc(eng.axioms, [*s.pc, *s.qpc], goal, T)
                compare.fold_status(ob, status, secs, info, "the value handed to add")
            # the old value is removed first
            for p in rets:
                m = p.state.heap[addr]
                status, secs, info = check_vc(eng.axioms, [p.pc], z3.Select(m.arr, z3.StringVal(name)) == E.OptRef.none, T)
                compare.fold_status(ob, status, secs, info, "the previous value is popped before add")
            ob.detail = ob.detail or f"add(name, tzp.localize_utc(value)) after pop(name); TypeError for non-dates ({len(paths)} paths)"
        obs.append(ob)
    oid = f"{PID}.U.getter_returns_the_stored_value_converted_to_UTC"
    if p_get is None:
        obs.append(ob_from(oid, fn, None, UNDECIDED, "p_get not found"))
    else:
        st, addr = C16.comp_state(eng, "Alarm")
        m = st.heap[addr]
        K = z3.StringVal(name)
        stored = E.OptRef.val(z3.Select(m.arr, K))
        st.assume(z3.Select(m.arr, K) != E.OptRef.none, lat.isinstance_z(stored, ["vDDDTypes"]), eng.has_attr_z(stored, "dt"),
                  lat.isinstance_z(eng.attr_z(stored, "dt"), ["datetime"]), eng.attr_z(stored, "dt") != E.NONE)
        paths = eng.run(p_get, dict(env, self=E.VMap(addr)), st)
        obs.append(compare.ensures(eng, oid, fn + ".p_get", source.lines_of(p_get), paths,
                                   lambda pa: eng.box(pa.value, pa.state) == utc_of(eng.attr_z(stored, "dt")), T))
    # which names use the descriptor
    uses = []
    for n in ast.walk(source.module("cal").tree):
        if isinstance(n, ast.Call) and isinstance(n.func, ast.Name) and n.func.id == "create_utc_property" and n.args and isinstance(n.args[0], ast.Constant):
            uses.append(n.args[0].value)
    need = {"DTSTAMP", "LAST-MODIFIED", "ACKNOWLEDGED"}
    obs.append(ob_from(f"{PID}.U.DTSTAMP_LAST_MODIFIED_ACKNOWLEDGED_use_the_UTC_descriptor", "cal:(class bodies)", None,
                       PROVED if need <= set(uses) else REFUTED, f"create_utc_property instantiations: {sorted(uses)}", backend="fin"))
    return obs


# ---------------------------------------------------------------------------------------------------

def fin_obligations(rep, tier):
    import icalendar
    from props import C11_bnd
    obs = []
    for prov in ("zoneinfo", "pytz"):
        t0 = time.time()
        icalendar.timezone.tzp.use(prov)
        try:
            n, fails = C11_bnd.fin_lookups(prov)
        finally:
            icalendar.timezone.tzp.use_default()
        findings = common.findings_for(PID)
        fresh = []
        for f in fails:
            fid = [x for x in findings if x.get("class", {}).get("stand_in") == "lookups" and f["witness"]["zone"] in x["class"].get("zones", [])
                   and x["class"].get("provider", prov) == prov]
            if fid:
                rep.known_seen.append(f"{fid[0]['id']} {fid[0]['what']} (witness {f['witness']['zone']} [{prov}]: {f['detail']})")
            else:
                fresh.append(f)
        ob = Obligation(f"{PID}.F.every_zone_key_is_found_and_identified_by_its_key[{prov}]", "timezone/tzp:TZP.timezone + timezone/tzid:tzid_from_tzinfo",
                        "fin", PROVED if not fresh else REFUTED, seconds=time.time() - t0,
                        detail=f"{n} zone keys of the installed database, complete" + (f"; {len(fails) - len(fresh)} inside listed findings" if len(fails) != len(fresh) else "")
                        if not fresh else f"{len(fresh)} of {n} keys fail, e.g. {fresh[0]['detail']}")
        if fresh:
            ob.witness = fresh[0]["witness"]
            ob.replay = {"confirmed": True, "native": fresh[0]["detail"]}
        elif len(fails) != len(fresh):
            pass
        obs.append(ob)
    return obs


def run(rep: common.Report):
    findings = common.findings_for(PID)
    tier = rep.tier
    rep.trust("engine: vc/pyvc + vc/pyvc/chars (shaped strings, calendar fields) + z3",
              "assumed (CPython / pytz): datetime.replace(tzinfo=) and pytz tz.localize keep the wall fields; astimezone keeps the instant",
              "assumed: tzids_from_tzinfo returns a tuple of ids (modelled by three facts: UTC among them, empty, first)",
              "the offsets themselves are the provider's (zoneinfo / pytz data): external",
              "contracts of the TZID-deriving constructors (vDDDTypes, vDDDLists, vPeriod) are the C02 obligations V1-V3",
              "providers' localize / localize_utc are checked by exact statement shape")
    rep.assume("zone keys are those of the tz database installed in this sandbox (fin is complete for it, not for other releases)")
    groups = [("I", tzid_obligations), ("W", writing_obligations), ("R", reading_obligations), ("R2", passing_obligations), ("L", loop_obligations),
              ("Z", proxy_obligations), ("U", utc_property_obligations), ("F", fin_obligations)]
    for tag, fnc in groups:
        try:
            for ob in fnc(rep, tier):
                rep.add(ob)
        except E.Undecided as u:
            rep.add(Obligation(f"{PID}.{tag}", "prop/cal/timezone", "z3", UNDECIDED, detail=f"outside subset: {u}"))
        except Exception as e:  # noqa
            import traceback
            traceback.print_exc()
            rep.add(Obligation(f"{PID}.{tag}", "prop/cal/timezone", "z3", ERROR, detail=f"checker crashed: {e!r}"))
    # the TZID rules of single values, lists and periods (C02 V1-V3) belong to this property too: same obligations, this id
    for fnc in (C02.vddd_obligations, C02.vdddlists_obligations, C02.vperiod_obligations):
        try:
            for ob in fnc(rep, tier):
                if any(t in ob.oid for t in ("params_view", "every_zoned_element", "an_explicit_end", "single_value_params")):
                    ob.oid = ob.oid.replace("C02.", "C11.T.")
                    rep.add(ob)
        except E.Undecided as u:
            rep.add(Obligation(f"{PID}.T", "prop", "z3", UNDECIDED, detail=f"outside subset: {u}"))
    from props import C11_bnd
    for ob in rep.obligations:
        if ob.status == REFUTED and not ob.finding and ob.witness is None:
            w = C11_bnd.search_for(ob.oid)
            if w:
                ob.witness, ob.replay = w[0], {"confirmed": True, "native": w[1]}
            else:
                ob.status = UNDECIDED
                ob.detail += " -- candidate not confirmed on the real objects (zone sweep)"
    b = Bounded("C11.bnd.zones_and_transitions", "Event.add / to_ical / from_ical with zoned values (real, providers' zones)", C11_bnd.BOUND[tier])
    t0 = time.time()
    try:
        C11_bnd.run(b, tier, rep.seed, findings, rep.known_seen)
    except Exception as e:  # noqa
        import traceback
        traceback.print_exc()
        b.error = repr(e)
    b.seconds = time.time() - t0
    rep.bounded.append(b)
    rep.explanation = __doc__ + "\nLevel 'other': the writing / reading / hand-over contracts hold for every value and zone id; that the provider " \
        "assigns the same offset again is the provider's behaviour, exercised over zones and transitions by the stand-in."


def replay(payload: dict) -> int:
    from props import C11_bnd
    w = payload.get("witness") or {}
    msg = C11_bnd.replay_witness(w) if w else None
    print("replay:", msg or "no violation on the current tree")
    return 1 if msg else 0
