"""Bounded stand-in for C10 (labelled bounded): real trees serialised twice, in permuted insertion orders, with sorting on/off,
and in several processes with different PYTHONHASHSEED values."""
import itertools
import os
import random
import subprocess
import sys
from datetime import date, datetime, timedelta, timezone

BOUND = {
    "quick": "150 seeded trees (values of every kind incl. RDATE/EXDATE lists of dates and periods, zoned values, vRecur, parameters): "
             "to_ical twice + tree snapshot, 4 permutations of the insertion history of properties and parameters, sorted on/off, "
             "balanced BEGIN/END; the same build script in 3 processes with different PYTHONHASHSEED",
    "thorough": "1500 seeded trees, 8 permutations, 6 processes",
}


def values(rnd):
    from zoneinfo import ZoneInfo
    z = ZoneInfo("Europe/Berlin")
    return [
        ("SUMMARY", "text with ; and ,"), ("X-ROOM-1", "a"), ("X-ROOM-01", "b"), ("X-ROOM-10", "c"), ("PRIORITY", 5), ("GEO", (1.5, -2.25)),
        ("DTSTART", datetime(2024, 3, 1, 10, tzinfo=z)), ("DTEND", datetime(2024, 3, 1, 11, tzinfo=timezone.utc)), ("DTSTAMP", datetime(2024, 1, 1)),
        ("RDATE", [date(2024, 3, 2), date(2024, 3, 9)]), ("EXDATE", [datetime(2024, 3, 2, 10, tzinfo=z)]),
        ("RDATE", [(datetime(2024, 3, 3, 10), timedelta(hours=1))]),
        # lists whose members disagree (zones, value types): which one names the list must not depend on the hash seed
        ("EXDATE", [datetime(2024, 3, 2, 10, tzinfo=z), datetime(2024, 3, 3, 10, tzinfo=ZoneInfo("America/New_York")), datetime(2024, 3, 4, 10, tzinfo=ZoneInfo("Asia/Tokyo"))]),
        ("RRULE", {"freq": "weekly", "byday": ["mo", "we"], "count": 4}),
        ("ATTENDEE", "mailto:a@example.com"), ("ATTENDEE", "mailto:b@example.com"), ("CATEGORIES", ["x", "y"]), ("DURATION", timedelta(hours=2)),
        ("UID", "u1"), ("COMMENT", "c1"), ("COMMENT", "c2"), ("URL", "http://example.com/x"), ("SEQUENCE", 3),
    ]


def build(seed, perm_seed=None, lower=False):
    """the same logical tree; perm_seed permutes the insertion order of DISTINCT property names and of parameters"""
    import icalendar
    rnd = random.Random(seed)
    pool = values(rnd)
    cal = icalendar.Calendar()

    def fill(c, depth):
        chosen = rnd.sample(pool, rnd.randint(2, 8))
        # group by name keeping the relative order of repeated names
        names = []
        for n, _ in chosen:
            if n not in names:
                names.append(n)
        if "DTEND" in names and "DURATION" in names:
            names.remove("DURATION")
        if perm_seed is not None:
            random.Random(perm_seed + depth).shuffle(names)
        for n in names:
            for n2, v in chosen:
                if n2 != n:
                    continue
                params = {"X-B": "2", "LANGUAGE": "en", "x-a": "1"}
                keys = list(params)
                if perm_seed is not None:
                    random.Random(perm_seed).shuffle(keys)
                use = {k: params[k] for k in keys} if n in ("SUMMARY", "ATTENDEE", "COMMENT") else None
                c.add(n.lower() if lower else n, v, parameters=use)
        subs = rnd.randint(0, 2) if depth > 0 else 0
        for _ in range(subs):
            kind = rnd.choice(["VEVENT", "VTODO", "VALARM", "X-BOX", "VTIMEZONE", "VJOURNAL", "VFREEBUSY", "STANDARD"])
            sub = icalendar.cal.component_factory.get(kind, icalendar.Component)()
            if not getattr(sub, "name", None):
                sub.name = kind
            fill(sub, depth - 1)
            c.add_component(sub)
    cal.add("version", "2.0")
    cal.add("prodid", "x")
    fill(cal, 2)
    return cal


def snapshot(c):
    return (c.name, [(k, repr(c[k]), [sorted((pk, repr(pv)) for pk, pv in getattr(x, "params", {}).items()) for x in (c[k] if isinstance(c[k], list) else [c[k]])])
                     for k in c.keys()], [snapshot(s) for s in c.subcomponents])


def balanced(data):
    stack = []
    for line in data.replace(b"\r\n ", b"").split(b"\r\n"):
        if line.upper().startswith(b"BEGIN:"):
            stack.append(line[6:])
        elif line.upper().startswith(b"END:"):
            if not stack or stack.pop() != line[4:]:
                return False
    return not stack


def names_in_order(c, data):
    """property names of the top-level component as they appear"""
    out = []
    depth = 0
    for line in data.replace(b"\r\n ", b"").split(b"\r\n"):
        u = line.upper()
        if u.startswith(b"BEGIN:"):
            depth += 1
            continue
        if u.startswith(b"END:"):
            depth -= 1
            continue
        if depth == 1 and line:
            out.append(line.split(b":")[0].split(b";")[0].decode())
    return out


def block_tree(data):
    """the nesting of BEGIN/END blocks of a serialisation as (name, [children]) and the repeated-property values per block"""
    root = ("", [], {})
    stack = [root]
    for line in data.replace(b"\r\n ", b"").split(b"\r\n"):
        u = line.upper()
        if u.startswith(b"BEGIN:"):
            node = (line[6:].decode(), [], {})
            stack[-1][1].append(node)
            stack.append(node)
        elif u.startswith(b"END:"):
            stack.pop()
        elif line:
            head, _, val = line.partition(b":")
            stack[-1][2].setdefault(head.split(b";")[0].decode().upper(), []).append(val)
    return root[1][0] if root[1] else None


def tree_mismatch(c, node):
    """subcomponents and the values of a repeated property keep their insertion order (both values of `sorted`)"""
    if node is None or node[0] != c.name:
        return f"block {node and node[0]!r} for component {c.name!r}"
    if [n[0] for n in node[1]] != [s.name for s in c.subcomponents]:
        return f"subcomponents of {c.name} are written as {[n[0] for n in node[1]]}, inserted as {[s.name for s in c.subcomponents]}"
    for k in ("COMMENT", "ATTENDEE"):
        v = c.get(k)
        if isinstance(v, list):
            want = [x.to_ical() for x in v]
            if node[2].get(k) != want:
                return f"values of the repeated property {k} are written as {node[2].get(k)!r}, inserted as {want!r}"
    for s, n in zip(c.subcomponents, node[1]):
        m = tree_mismatch(s, n)
        if m:
            return m
    return None


def check(seed, nperm):
    msgs = []
    for srt in (True, False):
        c = build(seed)
        before = snapshot(c)
        a = c.to_ical(sorted=srt)
        tm = tree_mismatch(c, block_tree(a))
        if tm:
            msgs.append(f"insertion order not kept (sorted={srt}): {tm}")
        mid = snapshot(c)
        b2 = c.to_ical(sorted=srt)
        if a != b2:
            msgs.append(f"serialising twice gives different bytes (sorted={srt})")
        if before != mid or snapshot(c) != before:
            msgs.append(f"to_ical changed the tree (sorted={srt})")
        if not balanced(a):
            msgs.append("BEGIN/END are not balanced")
        if not srt:
            got = names_in_order(c, a)
            want = []
            for k in c.keys():
                want += [k] * (len(c[k]) if isinstance(c[k], list) else 1)
            if got != want:
                msgs.append(f"sorted=False does not keep insertion order: {got} vs {want}")
    base = build(seed).to_ical()
    for p in range(nperm):
        other = build(seed, perm_seed=1000 + p).to_ical()
        if other != base:
            msgs.append("with sorting on, the bytes depend on the insertion order of distinct properties / parameters")
            break
    if build(seed, lower=True).to_ical() != base:
        msgs.append("with sorting on, the bytes depend on the letter case used for property names")
    # nested components honour sorted=False
    c = build(seed)
    for sub in c.walk():
        if sub is c or not len(sub):
            continue
        got = names_in_order(sub, sub.to_ical(sorted=False))
        want = []
        for k in sub.keys():
            want += [k] * (len(sub[k]) if isinstance(sub[k], list) else 1)
        inside = c.to_ical(sorted=False)
        if got != want:
            msgs.append("a subcomponent's own sorted=False output is not in insertion order")
        elif sub.to_ical(sorted=False) not in inside:
            msgs.append("sorted=False is not handed down to subcomponents")
    return msgs


def insertion_history_check():
    """sorted=False writes the names in FIRST-insertion order: the history is recorded here, not read back from the component"""
    import icalendar
    msgs = []
    for names in (["ATTENDEE", "SUMMARY", "ATTENDEE"], ["COMMENT", "DTSTART", "COMMENT", "UID", "COMMENT"], ["X-A", "X-B", "x-a", "X-C", "x-b"]):
        e = icalendar.Event()
        want = []
        for i, nm in enumerate(names):
            e.add(nm, datetime(2024, 1, 1 + i, 10, 0) if nm == "DTSTART" else f"v{i}")
        first = []
        for nm in names:
            if nm.upper() not in first:
                first.append(nm.upper())
        for nm in first:
            want += [nm] * sum(1 for x in names if x.upper() == nm)
        got = names_in_order(e, e.to_ical(sorted=False))
        if got != want:
            msgs.append(f"add calls {names!r}: to_ical(sorted=False) writes {got}, first-insertion order is {want}")
        text = "BEGIN:VEVENT\r\n" + "".join(f"{nm}:{'20240101T100000' if nm == 'DTSTART' else 'v'}\r\n" for nm in names) + "END:VEVENT\r\n"
        p = icalendar.Event.from_ical(text)
        got = names_in_order(p, p.to_ical(sorted=False))
        if got != want:
            msgs.append(f"parsed lines {names!r}: to_ical(sorted=False) writes {got}, first-insertion order is {want}")
    return msgs


def direct_values_check():
    """value objects stored directly (item assignment): their state before and after serialising"""
    import icalendar
    from icalendar import prop
    from zoneinfo import ZoneInfo
    z = ZoneInfo("Europe/Berlin")
    vals = {"DTSTART": prop.vDatetime(datetime(2024, 3, 1, 10, tzinfo=z)), "DTEND": prop.vDDDTypes(datetime(2024, 3, 1, 11, tzinfo=z)),
            "RDATE": prop.vDDDLists([date(2024, 3, 2), date(2024, 3, 3)]), "EXDATE": prop.vDDDLists([(datetime(2024, 3, 3, 10), timedelta(hours=1))]),
            "X-PER": prop.vPeriod((datetime(2024, 3, 3, 10, tzinfo=z), timedelta(hours=1))), "RRULE": prop.vRecur(freq="daily", count=2),
            "DUE": prop.vDate(date(2024, 3, 4)), "X-T": prop.vTime(10, 0, 0), "DURATION": prop.vDuration(timedelta(hours=1)),
            "CATEGORIES": prop.vCategory(["a", "b"]), "GEO": prop.vGeo((1.0, 2.0)), "TZOFFSETTO": prop.vUTCOffset(timedelta(hours=1))}
    msgs = []
    e = icalendar.Event()
    for k, v in vals.items():
        e[k] = v

    def state(v):
        d = dict(getattr(v, "__dict__", {}))
        d["params"] = sorted((k, repr(x)) for k, x in getattr(v, "params", {}).items()) if hasattr(v, "params") else None
        return repr(sorted((k, repr(x)) for k, x in d.items()))
    before = {k: state(v) for k, v in vals.items()}
    first = e.to_ical()
    after = {k: state(v) for k, v in vals.items()}
    second = e.to_ical()
    for k in vals:
        if before[k] != after[k]:
            msgs.append(f"serialising changed the stored {type(vals[k]).__name__} value of {k}")
    if first != second:
        msgs.append("second serialisation of directly stored values differs from the first")
    return msgs


def run(b, tier, seed):
    rnd = random.Random(seed)
    n = 150 if tier == "quick" else 1500
    fails = {}
    cases = 0
    for _ in range(n):
        s = rnd.randrange(10 ** 9)
        cases += 1
        try:
            ms = check(s, 4 if tier == "quick" else 8)
        except Exception as e:  # noqa
            ms = [f"raises {type(e).__name__}: {str(e)[:100]}"]
        for m in ms:
            fails.setdefault(m[:50], {"witness": {"seed": s}, "detail": m})
    cases += 1
    for m in direct_values_check():
        fails.setdefault(m[:50], {"witness": {"case": "direct"}, "detail": m})
    cases += 6
    for m in insertion_history_check():
        fails.setdefault(m[:50], {"witness": {"case": "history"}, "detail": m})
    # other processes, other hash seeds
    script = ("import sys; sys.path.insert(0, %r); from props import C10_bnd; import hashlib; "
              "print(hashlib.sha1(b''.join(C10_bnd.build(s).to_ical() for s in range(40))).hexdigest())") % os.path.dirname(os.path.dirname(os.path.abspath(__file__)))
    digests = set()
    for hs in (["0", "1", "12345"] if tier == "quick" else ["0", "1", "2", "77", "12345", "random"]):
        env = dict(os.environ, PYTHONHASHSEED=hs)
        p = subprocess.run([sys.executable, "-c", script], capture_output=True, text=True, env=env, timeout=300)
        cases += 1
        if p.returncode != 0:
            fails.setdefault("subprocess", {"witness": {"case": "hashseed"}, "detail": "subprocess failed: " + p.stderr[-200:]})
        digests.add(p.stdout.strip())
    if len(digests) > 1:
        fails.setdefault("hashseed", {"witness": {"case": "hashseed"}, "detail": "the same API calls give different bytes under different PYTHONHASHSEED"})
    b.cases = cases
    b.nontrivial = cases
    b.failures = list(fails.values())[:12]
    b.samples = ["Calendar(seed) built with 4 insertion orders"]
    return b


def search_for(oid):
    from vc.common import Bounded
    b = Bounded("s", "", "")
    run(b, "quick", 0)
    for f in b.failures:
        return f["witness"], f["detail"]
    return None


def replay_witness(w):
    if "seed" in w:
        return "; ".join(check(w["seed"], 4)) or None
    if w.get("case") == "direct":
        return "; ".join(direct_values_check()) or None
    if w.get("case") == "history":
        return "; ".join(insertion_history_check()) or None
    return None


def canon_order_dependence():
    """native search: two orderings of the same distinct keys for which the real canonsort_keys differs (or loses / raises)"""
    import itertools
    from icalendar.caselessdict import canonsort_keys
    names = ["A", "B", "C", "D"]
    pool = ["A", "C", "X-A", "a", "Z", ""]
    for order in [None] + [tuple(p) for r in range(0, 4) for p in itertools.permutations(names, r)]:
        for r in range(0, 4):
            for ks in itertools.combinations(pool, r):
                outs = set()
                for perm in itertools.permutations(ks):
                    try:
                        got = tuple(canonsort_keys(list(perm), order))
                    except Exception as e:  # noqa
                        return {"canon_perm": True, "keys": list(perm), "order": order}, f"canonsort_keys({list(perm)!r}, {order!r}) raises {type(e).__name__}"
                    if sorted(got) != sorted(perm):
                        return {"canon_perm": True, "keys": list(perm), "order": order}, f"canonsort_keys({list(perm)!r}, {order!r}) = {list(got)!r}: not a permutation"
                    outs.add(got)
                if len(outs) > 1:
                    return {"canon_perm": True, "keys": list(ks), "order": order}, f"canonsort_keys of the keys {list(ks)!r} with order {order!r} depends on their order: {sorted(outs)!r}"
    return None
