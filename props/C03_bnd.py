"""Bounded stand-in for C03 (labelled bounded): the real value classes on boundary and seeded values; RFC grammars as regexes."""
import random
import re
from datetime import date, datetime, time, timedelta, timezone

BOUND = {
    "quick": "per type: boundary values plus 300 seeded values (dates 0001-9999, times, offsets, durations up to +-10^6 days, ints up to "
             "+-2^70, floats incl. tiny/huge/negative zero, text and binary payloads, periods in both forms)",
    "thorough": "per type: boundary values plus 20000 seeded values",
}
G = {
    "DATE": r"\d{8}", "DATE-TIME": r"\d{8}T\d{6}Z?", "TIME": r"\d{6}Z?", "UTC-OFFSET": r"[+-]\d{4}(\d{2})?",
    "DURATION": r"[-+]?P(?:\d+W|\d+D(?:T(?:\d+H(?:\d+M(?:\d+S)?)?|\d+M(?:\d+S)?|\d+S))?|T(?:\d+H(?:\d+M(?:\d+S)?)?|\d+M(?:\d+S)?|\d+S))",
    "INTEGER": r"[+-]?\d+", "FLOAT": r"[+-]?\d+(\.\d+)?", "BOOLEAN": r"TRUE|FALSE", "BINARY": r"(?:[A-Za-z0-9+/]{4})*(?:[A-Za-z0-9+/]{2}==|[A-Za-z0-9+/]{3}=)?",
    "GEO": r"[+-]?\d+(\.\d+)?;[+-]?\d+(\.\d+)?",
}
FINDING_CLASS = {"C03-F1": "float_exponent", "C03-F3": "geo_exponent"}


def txt(x):
    return x.decode("utf-8") if isinstance(x, bytes) else str(x)


def cases(tier, seed):
    from icalendar import prop
    rnd = random.Random(seed)
    n = 300 if tier == "quick" else 20000
    out = []
    dates = [date(1, 1, 1), date(9999, 12, 31), date(999, 12, 31), date(2000, 2, 29), date(1900, 3, 1), date(2024, 12, 31)]
    dates += [date.fromordinal(rnd.randint(1, 3652059)) for _ in range(n)]
    for d in dates:
        out.append(("DATE", prop.vDate, d, None))
    for d in dates[:n // 2 + 6]:
        t = time(rnd.randrange(24), rnd.randrange(60), rnd.randrange(60))
        out.append(("DATE-TIME", prop.vDatetime, datetime.combine(d, t), None))
        out.append(("DATE-TIME", prop.vDatetime, datetime.combine(d, t, tzinfo=timezone.utc), None))
        out.append(("TIME", prop.vTime, t, None))
    for t in (time(0, 0, 0), time(23, 59, 59)):
        out.append(("TIME", prop.vTime, t, None))
    offs = [0, 1, -1, 59, -59, 60, -60, 3600, -3600, 86399, -86399, 19800, -12600, 30, -30] + [rnd.randint(-86399, 86399) for _ in range(n)]
    for o in offs:
        out.append(("UTC-OFFSET", prop.vUTCOffset, timedelta(seconds=o), None))
    durs = [0, 1, -1, 59, 60, 61, 3599, 3600, 3601, 3660, 3605, 86399, 86400, 86401, -86400, 7 * 86400, -7 * 86400 - 1, 90061, 10 ** 6 * 86400]
    durs += [rnd.randint(-10 ** 6 * 86400, 10 ** 6 * 86400) for _ in range(n)] + [rnd.randint(-100000, 100000) for _ in range(n)]
    for s in durs:
        out.append(("DURATION", prop.vDuration, timedelta(seconds=s), None))
    ints = [0, 1, -1, 2 ** 31 - 1, -2 ** 31, 2 ** 31, 2 ** 70, -2 ** 70] + [rnd.randint(-2 ** 40, 2 ** 40) for _ in range(n)]
    for i in ints:
        out.append(("INTEGER", prop.vInt, i, None))
    floats = [0.0, -0.0, 1.5, -3.14, 1000000.0000001, 1e15, 1e16, 1e22, 1e-4, 1e-5, 1e-7, 123456789.123, 5e-324, 1.7976931348623157e308]
    floats += [rnd.uniform(-1e6, 1e6) for _ in range(n)] + [rnd.uniform(-1, 1) * 10 ** rnd.randint(-12, 20) for _ in range(n)]
    for f in floats:
        out.append(("FLOAT", prop.vFloat, f, None))
    for _ in range(n // 3 + 3):
        out.append(("GEO", prop.vGeo, (rnd.uniform(-90, 90), rnd.uniform(-180, 180)), None))
    out.append(("GEO", prop.vGeo, (1e-7, 2.0), None))
    out.append(("GEO", prop.vGeo, (0.0, -0.0), None))
    for b in (True, False):
        out.append(("BOOLEAN", prop.vBoolean, b, None))
    payloads = ["", "a", "ab", "abc", "äöü", "\x00\x01", "line\nbreak", "x" * 100] + ["".join(chr(rnd.randint(0, 0x2FF)) for _ in range(rnd.randint(0, 20))) for _ in range(n // 3)]
    for p in payloads:
        out.append(("BINARY", prop.vBinary, p, None))
        out.append(("URI", prop.vUri, "http://example.com/" + p.replace("\n", ""), None))
        out.append(("CAL-ADDRESS", prop.vCalAddress, "mailto:" + p.replace("\n", ""), None))
    for d in dates[:n // 3 + 6]:
        if d.year > 9990:
            continue
        s = datetime.combine(d, time(rnd.randrange(24), rnd.randrange(60), rnd.randrange(60)))
        dur = timedelta(seconds=rnd.randint(0, 10 ** 6))
        out.append(("PERIOD", prop.vPeriod, (s, s + dur), None))
        out.append(("PERIOD", prop.vPeriod, (s, dur), None))
        su = s.replace(tzinfo=timezone.utc)
        out.append(("PERIOD", prop.vPeriod, (su, su + dur), None))
    return out


def check(kind, cls, value):
    """-> (message or None, finding_class or None)"""
    from icalendar import prop
    try:
        if kind == "TIME":
            obj = cls(value)
        else:
            obj = cls(value)
        text = txt(obj.to_ical())
    except Exception as e:  # noqa
        return f"{kind} {value!r}: encoding raises {type(e).__name__}: {e}", None
    g = G.get(kind)
    if g and not re.fullmatch(g, text):
        fc = None
        if kind == "FLOAT" and re.fullmatch(r"[+-]?\d+(\.\d+)?e[+-]?\d+", text):
            fc = "float_exponent"
        if kind == "GEO" and "e" in text:
            fc = "geo_exponent"
        if kind == "FLOAT" and text in ("inf", "-inf", "nan"):
            fc = "float_exponent"
        return f"{kind} {value!r}: encoded text {text!r} does not match the RFC grammar", fc
    try:
        if kind == "PERIOD":
            back = cls.from_ical(text)
            want = (value[0], value[1])
        elif kind == "BINARY":
            back = cls.from_ical(text).decode("utf-8")
            want = value
        elif kind == "GEO":
            back = cls.from_ical(text)
            want = (float(value[0]), float(value[1]))
        else:
            back = cls.from_ical(text)
            want = value
    except Exception as e:  # noqa
        return f"{kind} {value!r}: decoding {text!r} raises {type(e).__name__}: {e}", None
    same = back == want
    if kind == "DATE-TIME" and same and isinstance(want, datetime):
        same = (back.tzinfo is None) == (want.tzinfo is None) and back.utcoffset() == want.utcoffset()
    if kind in ("FLOAT",) and same:
        import math
        same = math.copysign(1, back) == math.copysign(1, want)
    if not same:
        return f"{kind} {value!r}: decodes to {back!r}", None
    return None, None


def grammar_texts():
    """every grammar-valid text of a type decodes to the value the RFC assigns (samples beyond the deductive part)"""
    from icalendar import prop
    out = []
    for text, want in (("+1234567890", 1234567890), ("-0", 0), ("007", 7)):
        if prop.vInt.from_ical(text) != want:
            out.append(f"INTEGER text {text!r} decodes to {prop.vInt.from_ical(text)!r}")
    for text, want in (("+1.333", 1.333), ("-3.14", -3.14), ("1000000.0000001", 1000000.0000001), ("5", 5.0)):
        if prop.vFloat.from_ical(text) != want:
            out.append(f"FLOAT text {text!r} decodes wrongly")
    from datetime import datetime as _dt, timedelta as _td, timezone as _tz
    u = _dt(1997, 1, 1, 18, 0, 0, tzinfo=_tz.utc)
    for text, want in (("19970101T180000Z/19970102T070000Z", (u, _dt(1997, 1, 2, 7, tzinfo=_tz.utc))),
                       ("19970101T180000Z/PT5H30M", (u, _td(hours=5, minutes=30))), ("19970101T180000Z/+PT5H30M", (u, _td(hours=5, minutes=30))),
                       ("19970101T180000/P1W", (_dt(1997, 1, 1, 18), _td(weeks=1))), ("19970101T180000/+P1DT2H", (_dt(1997, 1, 1, 18), _td(days=1, hours=2)))):
        for dec in (prop.vPeriod.from_ical, prop.vDDDTypes.from_ical):
            try:
                got = dec(text)
                if tuple(got) != want:
                    out.append(f"PERIOD text {text!r} decodes to {got!r}")
            except Exception as e:  # noqa
                out.append(f"PERIOD text {text!r} raises {type(e).__name__}")
    for text, want in (("+P1D", _td(days=1)), ("-PT15M", _td(minutes=-15)), ("P2W", _td(weeks=2)), ("+PT0S", _td(0))):
        try:
            if prop.vDDDTypes.from_ical(text) != want:
                out.append(f"DURATION text {text!r} decodes wrongly")
        except Exception as e:  # noqa
            out.append(f"DURATION text {text!r} raises {type(e).__name__}")
    # the combined decoder must classify by SHAPE, not by length: durations and date / date-time texts of every length 2 .. 24
    seen_len = set()
    for sign in ("", "+", "-"):
        for d in (None, 1, 12, 123, 1234, 12345, 123456, 1234567, 12345678):   # with 5-7 digits the T of the time part sits where a DATE-TIME has it
            for h, m, sec in ((None, None, None), (1, None, None), (10, 30, None), (10, 30, 15), (None, 5, None), (None, None, 7), (100000, None, None),
                              (None, None, 100000000000), (1, 2, 3), (None, 30, 15)):
                if d is None and h is None and m is None and sec is None:
                    continue
                text = sign + "P" + (f"{d}D" if d is not None else "")
                if (h, m, sec) != (None, None, None):
                    text += "T" + (f"{h}H" if h is not None else "") + (f"{m}M" if m is not None else "") + (f"{sec}S" if sec is not None else "")
                want = _td(days=d or 0, hours=h or 0, minutes=m or 0, seconds=sec or 0) * (-1 if sign == "-" else 1)
                seen_len.add(len(text))
                for label, dec, wrap in (("DURATION", prop.vDDDTypes.from_ical, lambda x: x), ("PERIOD", prop.vDDDTypes.from_ical, lambda x: x[1])):
                    t2 = text if label == "DURATION" else "19970101T180000Z/" + text
                    try:
                        got = wrap(dec(t2))
                        if got != want:
                            out.append(f"{label} text {t2!r} ({len(text)} characters) decodes to {got!r}, the RFC says {want!r}")
                    except Exception as e:  # noqa
                        out.append(f"{label} text {t2!r} (duration of {len(text)} characters) raises {type(e).__name__}: {e}")
    for text, want in (("37.386013;-122.082932", (37.386013, -122.082932)),):
        if prop.vGeo.from_ical(text) != want:
            out.append("GEO text decodes wrongly")
    return out


def finding_witness(fid):
    from icalendar import prop
    if fid == "C03-F1":
        t = txt(prop.vFloat(1e-7).to_ical())
        return f"vFloat(1e-07).to_ical() = {t!r}" if not re.fullmatch(G["FLOAT"], t) else None
    if fid == "C03-F3":
        t = txt(prop.vGeo((1e-7, 2)).to_ical())
        return f"vGeo((1e-07, 2)).to_ical() = {t!r}" if not re.fullmatch(G["GEO"], t) else None
    if fid == "C03-F2":
        r = prop.vDDDTypes.from_ical("120000Z")
        return f"'120000Z' decodes to {r!r} (UTC designator dropped)" if getattr(r, "tzinfo", None) is None else None
    return None


def run(b, tier, seed, findings, known_seen):
    fails = {}
    n = 0
    seen = set()
    classes = {FINDING_CLASS[f["id"]]: f for f in findings if f["id"] in FINDING_CLASS}
    for kind, cls, value, _ in cases(tier, seed):
        n += 1
        msg, fc = check(kind, cls, value)
        if not msg:
            continue
        if fc and fc in classes:
            seen.add(classes[fc]["id"])
            continue
        if len(fails) < 12:
            fails.setdefault(kind, {"witness": {"kind": kind, "value": repr(value)}, "detail": msg})
    for m in grammar_texts():
        n += 1
        fails.setdefault(m[:30], {"witness": {"grammar_text": m}, "detail": m})
    b.cases = n
    b.nontrivial = n
    b.failures = list(fails.values())
    b.samples = ["vDuration(timedelta(seconds=3605))", "vUTCOffset(timedelta(seconds=-30))"]
    for f in findings:
        if f["id"] in seen:
            w = finding_witness(f["id"])
            if w:
                known_seen.append(f"{f['id']} {f['what']} ({w})")
    return b


def search_for(oid):
    from vc.common import Bounded, findings_for
    b = Bounded("s", "", "")
    run(b, "quick", 0, findings_for("C03"), [])
    key = oid.split(".")[1] if "." in oid else ""
    for f in b.failures:
        if f["witness"].get("kind") == key:
            return f["witness"], f["detail"]
    for f in b.failures:
        return f["witness"], f["detail"]
    return None


def replay_witness(w):
    import datetime as _d  # noqa
    from icalendar import prop
    if "kind" in w:
        cls = {"DATE": prop.vDate, "DATE-TIME": prop.vDatetime, "TIME": prop.vTime, "UTC-OFFSET": prop.vUTCOffset, "DURATION": prop.vDuration,
               "INTEGER": prop.vInt, "FLOAT": prop.vFloat, "GEO": prop.vGeo, "BOOLEAN": prop.vBoolean, "BINARY": prop.vBinary, "URI": prop.vUri,
               "CAL-ADDRESS": prop.vCalAddress, "PERIOD": prop.vPeriod}[w["kind"]]
        value = eval(w["value"], {"datetime": _d, "inf": float("inf"), "nan": float("nan")})
        return check(w["kind"], cls, value)[0]
    return "; ".join(grammar_texts()) or None
