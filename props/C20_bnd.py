"""Bounded stand-in for C20 (labelled bounded) and native concretiser: random component trees on the real classes."""
import copy
import pickle
import random

BOUND = {
    "quick": "300 seeded trees (depth <= 4, fan-out <= 3, repeated and unknown component names, 0-3 properties each): walk / accessors vs a "
             "reference pre-order; equality algebra on each tree and 8 variants; deepcopy / pickle / serialise-and-parse copies",
    "thorough": "4000 seeded trees (depth <= 6, fan-out <= 4)",
}
KINDS = ["VEVENT", "VTODO", "VALARM", "VJOURNAL", "X-FOO", "X-BAR", "VTIMEZONE", "STANDARD", "DAYLIGHT"]


def make(kind):
    import icalendar
    cls = icalendar.cal.component_factory.get(kind, icalendar.Component)
    c = cls()
    if not getattr(c, "name", None):
        c.name = kind
    return c


def rand_tree(rnd, depth, fan):
    import icalendar
    c = make(rnd.choice(KINDS)) if depth < 99 else icalendar.Calendar()
    for _ in range(rnd.randint(0, 3)):
        name = rnd.choice(["SUMMARY", "summary", "X-A", "UID", "COMMENT", "Description"])
        c.add(name, rnd.choice(["a", "b", "c d", "1"]))
    if depth > 0:
        for _ in range(rnd.randint(0, fan)):
            c.add_component(rand_tree(rnd, depth - 1, fan))
    return c


def preorder(c):
    out = [c]
    for s in c.subcomponents:
        out += preorder(s)
    return out


def ids(xs):
    return [id(x) for x in xs]


def check_walk(cal):
    msgs = []
    ref = preorder(cal)
    if ids(cal.walk()) != ids(ref):
        msgs.append("walk() is not the pre-order list of all nested components")
    for name in ("VEVENT", "vevent", "X-Foo", "VALARM", "standard"):
        want = [c for c in ref if c.name == name.upper()]
        if ids(cal.walk(name)) != ids(want):
            msgs.append(f"walk({name!r}) differs from the pre-order filter by upper-cased name")
    pred = lambda c: len(c) % 2 == 0     # noqa: E731
    if ids(cal.walk(select=pred)) != ids([c for c in ref if pred(c)]):
        msgs.append("walk(select=...) differs from the pre-order filter by predicate")
    if ids(cal.walk("VEVENT", select=pred)) != ids([c for c in ref if c.name == "VEVENT" and pred(c)]):
        msgs.append("walk(name, select) differs")
    for attr, name in (("events", "VEVENT"), ("todos", "VTODO"), ("timezones", "VTIMEZONE")):
        if ids(getattr(cal, attr)) != ids([c for c in ref if c.name == name]):
            msgs.append(f"Calendar.{attr} differs from the components of that kind")
    return msgs


def shuffled(c, rnd):
    d = c.copy()
    keys = list(c.keys())
    rnd.shuffle(keys)
    d.clear()
    for k in keys:
        d[k.lower() if rnd.random() < 0.5 else k] = c[k]
    if not getattr(d, "name", None):
        d.name = c.name
    subs = [shuffled(s, rnd) for s in c.subcomponents]
    rnd.shuffle(subs)
    d.subcomponents = subs
    return d


def check_eq(cal, rnd, findings_classes, seen):
    msgs = []

    def eq(a, b):
        try:
            return a == b
        except Exception as e:  # noqa
            return f"raises {type(e).__name__}"
    if eq(cal, cal) is not True:
        msgs.append("equality is not reflexive")
    for other in (None, 3, "x", {}, [], object()):
        if eq(cal, other) is not False:
            msgs.append(f"== {other!r} gives {eq(cal, other)!r} (expected False)")
    # non-components that ARE mappings with the component's own items (both operand orders), and an empty component against {}
    import collections
    for label, other in (("dict(component)", dict(cal)), ("OrderedDict(component.items())", collections.OrderedDict(cal.items()))):
        if eq(cal, other) is not False or eq(other, cal) is not False:
            msgs.append(f"a component compares equal to the non-component {label}: {eq(cal, other)!r} / {eq(other, cal)!r} (expected False)")
    for kind in ("VEVENT", "X-EMPTY"):
        e0 = make(kind)
        for k in list(e0.keys()):
            del e0[k]
        if eq(e0, {}) is not False or eq({}, e0) is not False:
            msgs.append(f"an empty {kind} compares equal to {{}}: {eq(e0, {})!r} / {eq({}, e0)!r} (expected False)")
    v = shuffled(cal, rnd)
    if eq(cal, v) is not True or eq(v, cal) is not True:
        msgs.append("not equal to a copy with permuted subcomponents / property insertion order / name case")
    nodes = preorder(cal)
    # value perturbation
    cand = [c for c in preorder(v) if len(c)]
    if cand:
        c = rnd.choice(cand)
        k = rnd.choice(list(c.keys()))
        old = c[k]
        c[k] = "perturbed-value"
        r1, r2 = eq(cal, v), eq(v, cal)
        if r1 is not False or r2 is not False:
            msgs.append(f"a changed property value is not distinguished ({r1!r}, {r2!r})")
        c[k] = old
    # multiset of subcomponents
    cand = [c for c in preorder(v) if len(c.subcomponents) >= 1]
    if cand:
        c = rnd.choice(cand)
        extra = make("X-EXTRA")
        saved = list(c.subcomponents)
        c.subcomponents = saved + [extra]
        if eq(cal, v) is not False or eq(v, cal) is not False:
            msgs.append("an additional subcomponent is not distinguished")
        c.subcomponents = saved[:-1] + [saved[0] if len(saved) > 1 else extra]
        r1, r2 = eq(cal, v), eq(v, cal)
        if r1 != r2:
            msgs.append(f"equality is not symmetric on a changed multiset of subcomponents ({r1!r} vs {r2!r})")
        c.subcomponents = saved
    # kind
    ev, td = make("VEVENT"), make("VTODO")
    if eq(ev, td) is not False:
        if "kind" in findings_classes:
            seen.add(findings_classes["kind"])
        else:
            msgs.append("components of different kind with equal content compare equal")
    return msgs


def check_copies(cal):
    msgs = []
    import icalendar
    data = cal.to_ical()
    for label, mk in (("deepcopy", lambda: copy.deepcopy(cal)), ("pickle", lambda: pickle.loads(pickle.dumps(cal))),
                      ("serialise-and-parse", lambda: icalendar.Calendar.from_ical(data))):
        try:
            c = mk()
        except Exception as e:  # noqa
            msgs.append(f"{label} raises {type(e).__name__}: {str(e)[:80]}")
            continue
        if c.to_ical() != data:
            msgs.append(f"{label} copy serialises differently")
        if label != "serialise-and-parse" or True:
            try:
                if not (c == cal and cal == c):
                    msgs.append(f"{label} copy is not equal to the original")
            except Exception as e:  # noqa
                msgs.append(f"comparing with the {label} copy raises {type(e).__name__}")
    return msgs


def check_value_equality():
    """trees that differ in one property value (and serialise differently) are unequal; copies of special values are equal"""
    import icalendar
    from datetime import datetime, timedelta, date, timezone
    msgs = []
    pairs = [("GEO", (0.0, 1.0), (-0.0, 1.0)), ("GEO", (1.5, 2.0), (1.5, 2.5)), ("TZOFFSETTO", timedelta(hours=1), timedelta(hours=2)),
             ("RDATE", [date(2024, 1, 1)], [date(2024, 1, 2)]), ("CATEGORIES", ["a", "b"], ["a", "c"]),
             # the same values in another ORDER are another value (the serialisations differ)
             ("CATEGORIES", ["WORK", "APPOINTMENT"], ["APPOINTMENT", "WORK"]), ("RDATE", [date(2024, 1, 1), date(2024, 1, 2)], [date(2024, 1, 2), date(2024, 1, 1)]),
             ("EXDATE", [datetime(2024, 1, 1, 10), datetime(2024, 1, 2, 10)], [datetime(2024, 1, 2, 10), datetime(2024, 1, 1, 10)]),
             ("RRULE", {"freq": "weekly", "byday": ["MO", "WE"]}, {"freq": "weekly", "byday": ["WE", "MO"]}),
             ("ATTENDEE", "mailto:a@example.com", "mailto:A@example.com"), ("SUMMARY", "a b", "a  b"),
             ("DTSTART", datetime(2024, 1, 1, 10), datetime(2024, 1, 1, 10, tzinfo=timezone.utc)), ("ATTACH", "a", "b"),
             ("DURATION", timedelta(hours=1), timedelta(hours=2)), ("PRIORITY", 1, 2)]
    for name, a, b in pairs:
        e1, e2 = icalendar.Event(), icalendar.Event()
        e1.add(name, a)
        e2.add(name, b)
        try:
            differ = e1.to_ical() != e2.to_ical()
            if differ and (e1 == e2 or e2 == e1):
                msgs.append(f"events that differ in {name} ({a!r} vs {b!r}) and serialise differently compare equal")
            e3 = icalendar.Event()
            e3.add(name, a)
            if not (e1 == e3 and e3 == e1):
                msgs.append(f"events with the same {name} value built twice compare unequal")
        except Exception as ex:  # noqa
            msgs.append(f"comparing events with {name} raises {type(ex).__name__}")
    for name, v in (("GEO", (float("nan"), 10.0)), ("GEO", (-0.0, 0.0)), ("X-BIN", icalendar.vBinary("abc"))):
        e = icalendar.Event()
        e.add(name, v)
        for label, mk in (("deepcopy", lambda: copy.deepcopy(e)), ("pickle", lambda: pickle.loads(pickle.dumps(e))),
                          ("serialise-and-parse", lambda: icalendar.Event.from_ical(e.to_ical()))):
            try:
                c = mk()
                if label == "serialise-and-parse" and name == "X-BIN":
                    continue            # an X- property is read back as text
                if not (c == e and e == c):
                    msgs.append(f"{label} copy of an event with {name}={v!r} is not equal to the original")
                if c.to_ical() != e.to_ical():
                    msgs.append(f"{label} copy of an event with {name}={v!r} serialises differently")
            except Exception as ex:  # noqa
                msgs.append(f"{label} of an event with {name}={v!r} raises {type(ex).__name__}")
    return msgs


VTZ = """BEGIN:VTIMEZONE
TZID:{tzid}
BEGIN:STANDARD
DTSTART:16011028T030000
RRULE:FREQ=YEARLY;BYDAY=-1SU;BYMONTH=10
TZOFFSETFROM:{dst}
TZOFFSETTO:{std}
END:STANDARD
BEGIN:DAYLIGHT
DTSTART:16010325T020000
RRULE:FREQ=YEARLY;BYDAY=-1SU;BYMONTH=3
TZOFFSETFROM:{std}
TZOFFSETTO:{dst}
END:DAYLIGHT
END:VTIMEZONE
"""


def check_copy_histories():
    """copies of trees whose date-times lie in zones built from VTIMEZONE definitions, after OTHER definitions of the same TZID were
    parsed (process-wide zone cache): the copy equals the original both ways, serialises identically and keeps every UTC offset"""
    import icalendar
    from datetime import datetime
    msgs = []
    for prov in ("zoneinfo", "pytz"):
        icalendar.timezone.tzp.use(prov)
        try:
            tzid = "Customized Time Zone"
            first = ("BEGIN:VCALENDAR\r\nVERSION:2.0\r\n" + VTZ.format(tzid=tzid, std="+0100", dst="+0200").replace("\n", "\r\n")
                     + f"BEGIN:VEVENT\r\nUID:1\r\nDTSTART;TZID={tzid}:20240701T090000\r\nEND:VEVENT\r\nEND:VCALENDAR\r\n")
            parsed = icalendar.Calendar.from_ical(first)            # this definition is now cached under the TZID
            vtz = icalendar.Timezone.from_ical(VTZ.format(tzid=tzid, std="-0500", dst="-0400").replace("\n", "\r\n"))
            other = vtz.to_tz(lookup_tzid=False)
            ev = icalendar.Event()
            ev.add("uid", "2")
            ev.add("dtstart", datetime(2024, 7, 1, 12, 0, tzinfo=other) if not hasattr(other, "localize") else other.localize(datetime(2024, 7, 1, 12, 0)))
            cal = icalendar.Calendar()
            cal.add("version", "2.0")
            cal.add_component(vtz)
            cal.add_component(ev)
            for label, tree in (("tree built after another definition of its TZID was parsed", cal), ("parsed calendar with a custom VTIMEZONE", parsed)):
                for how, mk in (("deepcopy", lambda t=tree: copy.deepcopy(t)), ("pickle", lambda t=tree: pickle.loads(pickle.dumps(t)))):
                    try:
                        c = mk()
                        if not (c == tree and tree == c):
                            msgs.append(f"[{prov}] {how} of a {label} is not equal to the original")
                        if c.to_ical() != tree.to_ical():
                            msgs.append(f"[{prov}] {how} of a {label} serialises differently")
                        o1 = [x["DTSTART"].dt.utcoffset() for x in tree.walk("VEVENT")]
                        o2 = [x["DTSTART"].dt.utcoffset() for x in c.walk("VEVENT")]
                        if o1 != o2:
                            msgs.append(f"[{prov}] {how} of a {label} changes the UTC offset of DTSTART: {o1} -> {o2}")
                    except Exception as ex:  # noqa
                        msgs.append(f"[{prov}] {how} of a {label} raises {type(ex).__name__}: {ex}")
        finally:
            icalendar.timezone.tzp.use_default()
    return msgs


def run(b, tier, seed, findings, known_seen):
    import icalendar
    rnd = random.Random(seed)
    n = 300 if tier == "quick" else 4000
    depth, fan = (4, 3) if tier == "quick" else (6, 4)
    fails = {}
    classes = {f["class"]["name"]: f"{f['id']} {f['what']}" for f in findings if isinstance(f.get("class"), dict) and "name" in f["class"]}
    seen = set()
    cases = 0
    for t in range(n):
        cal = icalendar.Calendar()
        cal.add("version", "2.0")
        tseed = rnd.randrange(10 ** 9)
        r2 = random.Random(tseed)
        for _ in range(r2.randint(0, fan)):
            cal.add_component(rand_tree(r2, r2.randint(0, depth - 1), fan))
        cases += 1
        for kind, msgs in (("walk", check_walk(cal)), ("eq", check_eq(cal, r2, classes, seen)), ("copy", check_copies(cal))):
            for m in msgs:
                fails.setdefault(kind + m[:30], {"witness": {"tree_seed": tseed, "depth": depth, "fan": fan}, "detail": m, "kind": kind})
    for m in check_value_equality():
        cases += 1
        fails.setdefault("value" + m[:40], {"witness": {"value_equality": True}, "detail": m, "kind": "eq"})
    for m in check_copy_histories():
        cases += 1
        if m.startswith("[pytz]") and "raises UnknownTimeZoneError" in m and "pytz_custom_zone_copy" in classes:
            seen.add(classes["pytz_custom_zone_copy"])          # listed finding C20-F2
            continue
        fails.setdefault("hist" + m[:60], {"witness": {"copy_history": True}, "detail": m, "kind": "copy"})
    b.cases = cases
    b.nontrivial = cases
    b.failures = list(fails.values())[:12]
    b.samples = ["Calendar > [VEVENT > [VALARM], X-FOO > [VEVENT]]"]
    for k in sorted(seen):
        known_seen.append(k)
    return b


def search_for(oid):
    from vc.common import Bounded, findings_for
    b = Bounded("s", "", "")
    run(b, "quick", 0, findings_for("C20"), [])
    want = "walk" if ("walk" in oid or "is_walk" in oid) else "eq"
    for f in b.failures:
        if f["kind"] == want:
            return f["witness"], f["detail"]
    return None


def replay_witness(w):
    import icalendar
    from vc.common import findings_for
    if w.get("value_equality"):
        return "; ".join(check_value_equality()) or None
    if w.get("copy_history"):
        return "; ".join(check_copy_histories()) or None
    r2 = random.Random(w["tree_seed"])
    cal = icalendar.Calendar()
    cal.add("version", "2.0")
    for _ in range(r2.randint(0, w["fan"])):
        cal.add_component(rand_tree(r2, r2.randint(0, w["depth"] - 1), w["fan"]))
    classes = {f["class"]["name"]: f["id"] for f in findings_for("C20") if isinstance(f.get("class"), dict) and "name" in f["class"]}
    msgs = check_walk(cal) + check_eq(cal, r2, classes, set()) + check_copies(cal)
    return "; ".join(msgs) or None
