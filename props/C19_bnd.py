"""Bounded stand-in for C19 (labelled bounded): real vRecur objects from the statement's grid, dateutil as the expander."""
import itertools
import random
import re
from datetime import date, datetime, timezone

BOUND = {
    "quick": "every FREQ x {COUNT, UNTIL date / floating / UTC, none} x INTERVAL x one or two BYxxx parts with single / multiple, positive / "
             "negative values, ordinal weekdays, WKST, leap-month BYMONTH, SKIP/RSCALE, keys in any case, scalar or list values (600 seeded "
             "rules): grammar, FREQ first, decode == parts, re-encode identical, dateutil occurrences (first 40, 0.5 s budget per expansion) equal",
    "thorough": "8000 seeded rules",
}
RECUR = re.compile(r"(?:RSCALE=[A-Za-z0-9-]+;)?FREQ=(?:SECONDLY|MINUTELY|HOURLY|DAILY|WEEKLY|MONTHLY|YEARLY)(?:;[A-Z-]+=[^;=]+)*")


def finite_atoms():
    from icalendar import prop
    bad = []
    n = 0
    days = ["SU", "MO", "TU", "WE", "TH", "FR", "SA"]
    vals = []
    for d in days:
        vals += [(prop.vWeekday, d)] + [(prop.vWeekday, f"{s}{k}{d}") for s in ("", "+", "-") for k in (1, 2, 5, 53)]
    vals += [(prop.vFrequency, f) for f in ("SECONDLY", "MINUTELY", "HOURLY", "DAILY", "WEEKLY", "MONTHLY", "YEARLY")]
    vals += [(prop.vMonth, str(m) + l) for m in range(1, 14) for l in ("", "L")]
    vals += [(prop.vSkip, s) for s in ("OMIT", "FORWARD", "BACKWARD")]
    vals += [(prop.vInt, i) for i in list(range(-366, 367))]
    for cls, v in vals:
        n += 1
        try:
            text = cls(v).to_ical().decode()
            if any(c in text for c in ";=,"):
                bad.append((cls.__name__, v, "separator in atom"))
            back = cls.from_ical(text)
            if cls(back).to_ical().decode() != text:
                bad.append((cls.__name__, v, "re-encode differs"))
        except Exception as e:  # noqa
            bad.append((cls.__name__, v, type(e).__name__))
    return bad, n


def rules(tier, seed):
    rnd = random.Random(seed)
    n = 600 if tier == "quick" else 8000
    freqs = ["SECONDLY", "MINUTELY", "HOURLY", "DAILY", "WEEKLY", "MONTHLY", "YEARLY"]
    by = {"BYSECOND": [0, 15, 59, 60], "BYMINUTE": [0, 30, 59], "BYHOUR": [0, 12, 23], "BYDAY": ["MO", "-1SU", "2FR", "+3WE", "TU"],
          "BYMONTHDAY": [1, -1, 15, 31, -31], "BYYEARDAY": [1, -1, 100, 366, -366], "BYWEEKNO": [1, -1, 20, 53], "BYMONTH": [1, 6, 12, "5L"],
          "BYSETPOS": [1, -1, 3, 366]}
    for i in range(n):
        r = {}
        f = freqs[i % 7]
        keyf = rnd.choice([str, str.lower, str.capitalize])
        r[keyf("FREQ")] = rnd.choice([f, f.lower(), [f]])
        end = rnd.choice(["none", "count", "date", "floating", "utc"])
        if end == "count":
            r[keyf("COUNT")] = rnd.choice([1, 10, [5]])
        elif end == "date":
            r[keyf("UNTIL")] = date(2030, 1, 1)
        elif end == "floating":
            r[keyf("UNTIL")] = datetime(2030, 1, 1, 12, 0, 0)
        elif end == "utc":
            r[keyf("UNTIL")] = datetime(2030, 1, 1, 12, 0, 0, tzinfo=timezone.utc)
        if rnd.random() < 0.5:
            r[keyf("INTERVAL")] = rnd.choice([1, 2, 10])
        for k in rnd.sample(list(by), rnd.randint(0, 2)):
            vals = rnd.sample(by[k], rnd.randint(1, min(3, len(by[k]))))
            r[keyf(k)] = vals if (len(vals) > 1 or rnd.random() < 0.5) else vals[0]
        if rnd.random() < 0.3:
            r[keyf("WKST")] = rnd.choice(["MO", "SU", "su"])
        if rnd.random() < 0.1:
            r[keyf("RSCALE")] = rnd.choice(["GREGORIAN", "gregorian", "Chinese", "HEBREW"])      # (a text value: as supplied)
            r[keyf("SKIP")] = rnd.choice(["OMIT", "FORWARD", "BACKWARD"])
        yield r


class _Timeout(Exception):
    pass


def limited(thunk, seconds=0.5):
    """dateutil can search (practically) forever for rules whose parts exclude each other: give every expansion a time budget; an
    expansion that does not finish is skipped (None), never reported"""
    import signal

    def on_alarm(signum, frame):
        raise _Timeout()
    old = signal.signal(signal.SIGALRM, on_alarm)
    signal.setitimer(signal.ITIMER_REAL, seconds)
    try:
        return thunk()
    except _Timeout:
        return None
    finally:
        signal.setitimer(signal.ITIMER_REAL, 0)
        signal.signal(signal.SIGALRM, old)


# the value type RFC 5545 3.3.10 / RFC 7529 give to each rule part
RFC_KIND = {"COUNT": "int", "INTERVAL": "int", "BYSECOND": "int", "BYMINUTE": "int", "BYHOUR": "int", "BYMONTHDAY": "int", "BYYEARDAY": "int",
            "BYWEEKNO": "int", "BYSETPOS": "int", "BYMONTH": "month", "BYDAY": "weekday", "WKST": "weekday", "FREQ": "name", "UNTIL": "date",
            "RSCALE": "text", "SKIP": "name"}


def typed_equal(kind, supplied, decoded):
    if kind == "int":
        return isinstance(decoded, int) and not isinstance(decoded, bool) and decoded == int(supplied)
    if kind == "month":
        return isinstance(decoded, int) and str(decoded) == str(supplied) and int(decoded) == int(str(supplied).rstrip("L"))
    if kind == "weekday":
        return isinstance(decoded, str) and decoded.upper().lstrip("+") == str(supplied).upper().lstrip("+")
    if kind == "name":
        return isinstance(decoded, str) and decoded.upper() == str(supplied).upper()
    if kind == "text":
        return isinstance(decoded, str) and str(decoded) == str(supplied)
    if kind == "date":
        return type(decoded) is type(supplied) and decoded == supplied
    return True


def norm_vals(v):
    from icalendar import prop
    vs = v if isinstance(v, (list, tuple)) else [v]
    return vs


def check(rule):
    from icalendar import prop
    msgs = []
    try:
        r = prop.vRecur(rule)
        text = r.to_ical().decode()
    except Exception as e:  # noqa
        return [f"encoding {rule!r} raises {type(e).__name__}: {e}"]
    if not RECUR.fullmatch(text):
        msgs.append(f"{text!r} does not match the RECUR grammar / FREQ is not first")
    keys = [p.split("=")[0] for p in text.split(";")]
    order = list(prop.vRecur.canonical_order)
    want_keys = sorted([k.upper() for k in rule if k.upper() in order], key=order.index) + sorted(k.upper() for k in rule if k.upper() not in order)
    if keys != want_keys:
        msgs.append(f"part order {keys} expected {want_keys}")
    try:
        back = prop.vRecur.from_ical(text)
    except Exception as e:  # noqa
        return msgs + [f"decoding {text!r} raises {type(e).__name__}: {e}"]
    if back.to_ical().decode() != text:
        msgs.append(f"re-encoding gives {back.to_ical().decode()!r} instead of {text!r}")
    if [k for k in back.keys()] != keys:
        msgs.append("decoded parts are not in the same order")
    for k, v in rule.items():
        typ = prop.vRecur.types.get(k, prop.vText)
        want = [typ(x).to_ical() for x in norm_vals(v)]
        if k not in back:
            msgs.append(f"part {k.upper()} of {text!r} is missing after decoding")
            continue
        got = [typ(x).to_ical() for x in back[k]]
        if got != want:
            msgs.append(f"part {k}: decoded {back[k]!r} for supplied {v!r}")
        # the typed values themselves, against the RFC's value type of the part (not the implementation's table)
        kind = RFC_KIND.get(k.upper())
        for sup, dec in zip(norm_vals(v), back[k]):
            if not typed_equal(kind, sup, dec):
                msgs.append(f"part {k.upper()}: typed value {dec!r} ({type(dec).__name__}) decoded for supplied {sup!r} (RFC value type: {kind})")
                break
    for tail in (";", ";;"):
        try:
            if prop.vRecur.from_ical(text + tail).to_ical().decode() != text:
                msgs.append("a trailing semicolon changes the rule")
        except Exception as e:  # noqa
            msgs.append(f"a trailing semicolon raises {type(e).__name__}")
    # occurrences with a standard expander (RFC 7529 parts are not understood by dateutil)
    if not any(k.upper() in ("RSCALE", "SKIP") for k in rule) and "L" not in text.split("BYMONTH=")[-1].split(";")[0]:
        try:
            from dateutil.rrule import rrulestr
            start = datetime(2024, 1, 1, 9, 0, 0, tzinfo=timezone.utc) if "Z" in text else datetime(2024, 1, 1, 9, 0, 0)
            if "UNTIL=20300101;" in text + ";" and "T" not in text.split("UNTIL=")[1].split(";")[0]:
                start = datetime(2024, 1, 1, 9, 0, 0)
            a = limited(lambda: list(itertools.islice(rrulestr(text, dtstart=start), 40)))
            supplied = ";".join(f"{k.upper()}=" + ",".join(prop.vRecur.types.get(k, prop.vText)(x).to_ical().decode() for x in norm_vals(v))
                                for k, v in sorted(rule.items(), key=lambda kv: (kv[0].upper() != "FREQ", kv[0].upper())))
            b = limited(lambda: list(itertools.islice(rrulestr(supplied, dtstart=start), 40)))
            if a is not None and b is not None and a != b:
                msgs.append("the expander computes different occurrences from the encoded text")
        except (ValueError, TypeError):
            pass
    return msgs


def run(b, tier, seed):
    fails = {}
    n = 0
    for rule in rules(tier, seed):
        n += 1
        for m in check(rule):
            fails.setdefault(m[:40], {"witness": {"rule": repr(rule)}, "detail": f"{rule!r}: {m}"})
    extra = [{"byhour": 0}, {"FREQ": "DAILY", "bysecond": 0, "ByMinute": 0}, {"freq": "yearly", "bymonth": ["4", "4L"]}, {"FREQ": "DAILY", "BYSECOND": 60},
             {"freq": "monthly", "bymonth": ["5L"]}, {"freq": "monthly", "bymonth": 5}]
    for rule in extra:
        n += 1
        if "freq" not in {k.lower() for k in rule}:
            rule = dict(rule, FREQ="DAILY")
        for m in check(rule):
            fails.setdefault(m[:40], {"witness": {"rule": repr(rule)}, "detail": f"{rule!r}: {m}"})
    # keyword construction
    from icalendar import prop
    for kw in ({"freq": "daily", "byhour": 0}, {"FREQ": "WEEKLY", "byminute": 0, "bysecond": 0}, {"freq": "daily", "count": 3}):
        n += 1
        text = prop.vRecur(**kw).to_ical().decode()
        for k, v in kw.items():
            if f"{k.upper()}=" not in text:
                fails.setdefault("kw" + k, {"witness": {"rule": repr(kw)}, "detail": f"vRecur(**{kw!r}) encodes to {text!r}: part {k} is missing"})
    # sequence: month N then leap month N in the same process
    n += 1
    t1 = prop.vRecur({"freq": "yearly", "bymonth": 5}).to_ical()
    r2 = prop.vRecur.from_ical("FREQ=YEARLY;BYMONTH=5L")
    if r2.to_ical() != b"FREQ=YEARLY;BYMONTH=5L":
        fails.setdefault("leap", {"witness": {"rule": "BYMONTH=5 then BYMONTH=5L"}, "detail": f"after encoding BYMONTH=5, BYMONTH=5L re-encodes as {r2.to_ical()!r}"})
    b.cases = n
    b.nontrivial = n
    b.failures = list(fails.values())[:12]
    b.samples = ["{'freq': 'monthly', 'byday': ['-1SU', '2FR'], 'until': date(2030, 1, 1)}"]
    return b


def replay_witness(w):
    import datetime as _d  # noqa
    try:
        rule = eval(w["rule"], {"datetime": _d, "date": _d.date})
    except Exception:
        return None
    return "; ".join(check(rule)) or None
