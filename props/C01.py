"""C01 -- parse, serialise, parse of any accepted calendar is stable and lossless.

The property is a composition; its parts are under contract in the real code and every part is re-checked in this run:
  L1  lines       Contentlines.from_ical(Contentlines.to_ical(lines)) == lines, folding undone exactly            (C06 obligations)
  L2  one line    Contentline.parts(from_parts(name, params, value)) == (name, params, value); values cannot inject structure
                                                                                                                     (C05 obligations)
  L3  values      typed values: dec(enc(x)) == x for DATE, DATE-TIME, TIME, UTC-OFFSET, DURATION, PERIOD parts      (C03 obligations)
                  TEXT values (new here, fstc, ALL strings): with D = unescape_string ; unescape_char (what parsing does to the value
                  text) and Enc = escape_char ; escape_string (what serialising does):   D ; Enc ; D == D
                  -- whatever the first parse made of a text, serialising and parsing again gives the same value; bytes are stable
                  one step later.  CATEGORIES lists likewise on marker-encoded lists.
                  parameters (new here, fstc, ALL parameter texts): from_ical ; to_ical ; from_ical == from_ical
  L4  order       serialisation order is a function of the tree (sorted keys, canonical order first) and idempotent  (C10 obligations)
  L5  tree        the real line loop of Component.from_ical, one iteration, symbolic state (pyvc):
                  BEGIN pushes exactly one new component whose name is the upper-cased value (class by component_factory);
                  END pops the innermost component and attaches it to its parent, or completes it when the stack is empty;
                  END with an empty stack is a ValueError; a property line adds its values to the innermost open component (C04 I.good)
                  content_lines maps property_items (C18: recursive contract) one to one to Contentline.from_parts(name, params, value)
Second sentence (well-formed RFC text: the first parse is exact): for TEXT this is C07's obligation (b) with its known findings; the
corresponding C01 findings are listed (C01-F1).
The whole pipeline over every fixture of the repository and generated calendars (tree after each pass, bytes after pass 2 / 3,
single and multiple=True) is a labelled bounded stand-in.
"""
from __future__ import annotations

import ast
import importlib
import time

import z3

from contracts import comp
from vc import common
from vc.common import Obligation, Bounded, PROVED, REFUTED, UNDECIDED, ERROR
from vc.fstc import extract, oblig
from vc.fstc import fst as F
from vc.fstc import regex as R
from vc.pyvc import compare, source, seqs
from vc.pyvc import engine as E
from vc.pyvc.discharge import TIMEOUT_MS, check_vc

LEVEL = "other"
PID = "C01"


def ob_from(oid, fn, lines, status, detail, backend="z3"):
    return Obligation(oid, fn, backend, status, detail=detail, lines=lines)


# ---------------------------------------------------------------------------------------------------
# lemmas proved by the other property modules: re-run on the current tree (their stand-ins are skipped)

def import_lemmas(rep, tier, plan=None, pid=None):
    obs = []
    pid = pid or PID
    plan = plan or [("L1", "C06", lambda o: True, "lines round trip and folding"),
                    ("L2", "C05", lambda o: True, "content line split / join"),
                    ("L3", "C03", lambda o: o.backend != "fin" or True, "typed value codecs"),
                    ("L4", "C10", lambda o: True, "serialisation order")]
    for tag, modname, keep, what in plan:
        t0 = time.time()
        mod = importlib.import_module(f"props.{modname}")
        sub = common.Report(modname, tier, rep.seed, "proof")
        bnd = None
        saved = None
        try:
            bnd = importlib.import_module(f"props.{modname}_bnd")
            saved = bnd.run
            bnd.run = lambda b, *a, **k: b
        except ImportError:
            pass
        saved_b = getattr(mod, "bounded", None)
        if saved_b is not None:
            mod.bounded = lambda b, *a, **k: b
        try:
            mod.run(sub)
            status = PROVED
            bad = [o for o in sub.obligations if keep(o) and o.status != PROVED and not o.finding]
            detail = f"{sum(1 for o in sub.obligations if o.status == PROVED)} obligations of {modname} proved on this tree ({what})"
            if any(o.status == REFUTED and not o.finding for o in sub.obligations):
                status = UNDECIDED          # the violation is reported by that property's own check
                detail = f"{modname} reports a refuted obligation: {bad[0].oid}: {bad[0].detail[:160]}"
            elif bad or sub.errors:
                status = UNDECIDED
                detail = f"{modname}: {bad[0].oid if bad else sub.errors[0]} is not proved"
            kf = [o for o in sub.obligations if o.finding]
            if kf:
                detail += f"; {len(kf)} inside listed known findings of {modname}"
        except Exception as e:  # noqa
            status, detail = ERROR, f"{modname}.run crashed: {e!r}"
        finally:
            if bnd is not None and saved is not None:
                bnd.run = saved
            if saved_b is not None:
                mod.bounded = saved_b
        ob = Obligation(f"{pid}.{tag}.lemma_{modname}_holds_on_this_tree", f"(functions under contract in {modname})", "z3+fstc", status, detail=detail,
                        seconds=time.time() - t0)
        obs.append(ob)
        for f in sub.functions:
            rep.functions.add(f)
    return obs


# ---------------------------------------------------------------------------------------------------
# L3: stability of TEXT values and parameters (fstc, all strings)

def stability_obligations(rep, tier):
    from props import C07, C08
    findings = common.findings_for(PID)
    obs = []
    import icalendar.parser as P
    fs = C07.Lazy()
    fn = "parser:unescape_string;unescape_char;escape_char;escape_string"
    noeol = R.dfa_from_regex("[^\\r\\n]*", C07.A0, "fullmatch")

    def native_text(t):
        d = lambda x: P.unescape_char(P.unescape_string(x))
        e = lambda v: P.escape_string(P.escape_char(v))
        return d(e(d(t))), d(t)
    try:
        D = F.compose(fs["us"], fs["unesc"])
        Enc = F.compose(fs["esc"], fs["es"])
        ob = oblig.decide_equiv(f"{PID}.L3.TEXT.parse_serialise_parse_gives_the_value_of_the_first_parse", fn, F.compose_all([D, Enc, D]), D, C07.A0,
                                findings, native_text, rep.known_seen, domain=noeol, show=C07.show)
        obs.append(ob)
        for ex in fs.ex:
            for u in ex.used:
                rep.functions.add(u.split(" ")[0])
    except (extract.Outside, NotImplementedError) as e:
        obs.append(ob_from(f"{PID}.L3.TEXT.parse_serialise_parse_gives_the_value_of_the_first_parse", fn, None, UNDECIDED, f"outside the fstc fragment: {e}", backend="fstc"))
    # CATEGORIES: list level
    fnc = "prop:vCategory.from_ical/to_ical through parser:unescape_string/escape_string"
    try:
        Dl = F.compose(fs["us1"], fs["cat_from"])
        El = F.compose(fs["cat_to"], fs["es1"])
        noeol1 = R.dfa_from_regex("[^\\r\\n" + C07.M + "]*", C07.A1, "fullmatch")

        def native_cat(t):
            from icalendar.prop import vCategory
            d = lambda x: vCategory.from_ical(P.unescape_string(x))
            e = lambda items: P.escape_string(vCategory(items).to_ical().decode("utf-8"))
            return C07.M.join(d(e(d(t)))), C07.M.join(d(t))
        obs.append(oblig.decide_equiv(f"{PID}.L3.CATEGORIES.parse_serialise_parse_gives_the_list_of_the_first_parse", fnc, F.compose_all([Dl, El, Dl]), Dl, C07.A1,
                                      findings, native_cat, rep.known_seen, domain=noeol1, show=C07.show))
    except (extract.Outside, NotImplementedError) as e:
        obs.append(ob_from(f"{PID}.L3.CATEGORIES.parse_serialise_parse_gives_the_list_of_the_first_parse", fnc, None, UNDECIDED, f"outside the fstc fragment: {e}", backend="fstc"))
    # parameters
    fnp = "parser:Parameters.from_ical/to_ical"
    try:
        m = C08.build()

        def native_params(text):
            from icalendar.parser import Parameters
            enc = lambda p: C08.M3.join(k + C08.M2 + C08.M1.join(v if isinstance(v, list) else [v]) for k, v in p.items())
            p1 = Parameters.from_ical(text)
            p2 = Parameters.from_ical(p1.to_ical(sorted=False).decode("utf-8"))
            return enc(p2), enc(p1)
        ob = oblig.decide_equiv(f"{PID}.L3.parameters.parse_serialise_parse_gives_the_parameters_of_the_first_parse", fnp,
                                F.compose_all([m["from_text"], m["to_text"], m["from_text"]]), m["from_text"], C08.P3, findings, native_params, rep.known_seen)
        obs.append(ob)
        for u in m["used"]:
            rep.functions.add(u.split(" ")[0])
    except (extract.Outside, NotImplementedError) as e:
        obs.append(ob_from(f"{PID}.L3.parameters.parse_serialise_parse_gives_the_parameters_of_the_first_parse", fnp, None, UNDECIDED, f"outside the fstc fragment: {e}", backend="fstc"))
    except Exception as e:  # noqa
        obs.append(ob_from(f"{PID}.L3.parameters.parse_serialise_parse_gives_the_parameters_of_the_first_parse", fnp, None, UNDECIDED, f"not decided: {e!r}", backend="fstc"))
    return obs


# ---------------------------------------------------------------------------------------------------
# L5: BEGIN / END branches of the line loop

created = z3.Function("created_component", E.S, E.Ref)
factory_cls = z3.Function("component_factory_class", E.S, E.I)


def tree_obligations(rep, tier):
    from props import C04
    T = TIMEOUT_MS[tier]
    fn = "cal:Component.from_ical"
    try:
        fnode, loop = C04.loop_parts()
    except E.Undecided as u:
        return [ob_from(f"{PID}.L5.loop", fn, None, UNDECIDED, str(u))]
    rep.functions.add(fn)
    lines = source.lines_of(loop)
    obs = []
    for branch in ("BEGIN", "END_nested", "END_outermost", "END_empty"):
        lat = E.Lattice()
        for m in ("caselessdict", "parser", "prop", "cal"):
            lat.load_module(m)
        lat.add("TZP", ["object"])
        lat.add("TypesFactory", ["object"])
        eng = seqs.SeqEngine(lat, {})
        classes = comp.Classes("cal", extra=())
        comp.install(eng, classes)
        st = E.State()
        line = z3.Const("line", E.Ref)
        st.assume(E.truthy(line), E.cls_of(line) == lat.id("Contentline"))
        VALS = z3.String("vals")
        params_m = E.MapObj.fresh("params", cls="Parameters")
        a_params = st.alloc(params_m)
        st.assume(E.map_wf(params_m))
        word = "BEGIN" if branch == "BEGIN" else "END"
        spelled = z3.String("name")
        st.assume(E.up(spelled) == z3.StringVal(word))
        eng.contracts["ref.parts"] = lambda e, s, a, k: [(s, E.VTuple([E.VStr(spelled), E.VMap(a_params), E.VStr(VALS)]))]
        eng.globals["types_factory"] = E.VClass("TypesFactory")
        eng.globals["component_factory"] = E.VClass("TypesFactory")
        eng.globals["tzp"] = E.VClass("TZP")
        new_comp = z3.Const("new_component", E.Ref)

        def factory_get(engine, s, args, kw):
            # component_factory.get(c_name, Component): some component class, a function of the upper-cased name
            k = engine.unbox_known(args[1], s)
            return [(s, E.VRef(z3.Function("factory_class_object", E.S, E.Ref)(k.z)))]
        eng.contracts["TypesFactory.get"] = factory_get
        named = z3.Function("class_sets_a_name", E.S, E.B)

        def call_ref(engine, s, args, kw):
            # c_class(): a fresh component; subclasses of the factory carry their own upper-case name, the generic class none
            m = E.MapObj.fresh("fresh_component", cls="Component")
            m.ref = new_comp
            m.fields["subcomponents"] = E.VList(s.alloc(E.ListObj([])))
            m.fields["errors"] = E.VList(s.alloc(E.ListObj([])))
            a = s.alloc(m)
            s.assume(E.map_wf(m), new_comp != E.NONE)
            s.ghost = dict(s.ghost)
            s.ghost["fresh_addr"] = a
            out = []
            for s2, has in engine.split(s, named(E.up(VALS))):
                if has:
                    s2.heap[a].fields["name"] = E.VStr(E.up(VALS))          # factory classes are registered under their own name (C17 / fin below)
                out.append((s2, E.VMap(a)))
            return out
        eng.contracts["call:ref"] = call_ref
        attached = []

        def add_component(engine, s, args, kw):
            attached.append((s, args[0], args[1]))
            return [(s, E.VNone())]
        eng.contracts["Component.add_component"] = add_component
        eng.contracts["TZP.cache_timezone_component"] = lambda e, s, a, k: [(s, E.VNone())]
        # the stack
        parent = E.MapObj.fresh("parent", cls="Component")
        parent.fields["subcomponents"] = E.VList(st.alloc(E.ListObj([])))
        parent.fields["errors"] = E.VList(st.alloc(E.ListObj([])))
        a_parent = st.alloc(parent)
        child = E.MapObj.fresh("child", cls="Component")
        child.fields["subcomponents"] = E.VList(st.alloc(E.ListObj([])))
        child.fields["errors"] = E.VList(st.alloc(E.ListObj([])))
        a_child = st.alloc(child)
        st.assume(E.map_wf(parent), E.map_wf(child))
        if branch in ("BEGIN", "END_nested"):
            items = [E.VMap(a_parent), E.VMap(a_child)]
        elif branch == "END_outermost":
            items = [E.VMap(a_child)]
        else:
            items = []
        stack = st.alloc(E.ListObj(items))
        comps = st.alloc(E.ListObj([]))
        st.env = {"cls": E.VClass("Component"), "st": E.VStr(z3.String("st")), "multiple": E.VBool(z3.BoolVal(False)),
                  "stack": E.VList(stack), "comps": E.VList(comps), "line": E.VRef(line)}
        # list.pop on the concrete stack
        base_cm = eng.call_method

        def call_method(obj, name, args, kwargs, s, base_cm=base_cm):
            o = eng.unbox_known(obj, s)
            if isinstance(o, E.VList) and name == "pop" and not args:
                lst = s.heap[o.addr].items
                if not lst:
                    return [(s, E.VExc("IndexError", "pop from empty list"))]
                return [(s, lst.pop())]
            return base_cm(obj, name, args, kwargs, s)
        eng.call_method = call_method
        oid = {"BEGIN": "L5.BEGIN_pushes_one_new_component_named_by_the_upper_cased_value",
               "END_nested": "L5.END_pops_the_innermost_component_and_attaches_it_to_its_parent",
               "END_outermost": "L5.END_of_the_outermost_component_completes_it",
               "END_empty": "L5.END_without_BEGIN_is_a_ValueError"}[branch]
        ob = Obligation(f"{PID}.{oid}", fn, "z3", PROVED, lines=lines)
        try:
            results = eng.exec_block(loop.body, st)
        except E.Undecided as u:
            ob.status, ob.detail = UNDECIDED, f"outside subset: {u}"
            obs.append(ob)
            continue
        n = 0
        for s, sig in results:
            n += 1
            stk = s.heap[stack].items
            cps = s.heap[comps].items
            if branch == "END_empty":
                ok = sig is not None and sig[0] == "raise" and sig[1].cls == "ValueError"
                goal = z3.BoolVal(ok)
            elif sig is not None:
                goal = z3.BoolVal(False)
            elif branch == "BEGIN":
                ok = len(stk) == 3 and isinstance(stk[2], E.VMap) and stk[2].addr == s.ghost.get("fresh_addr") and stk[:2] == items and not cps
                goal = z3.BoolVal(ok)
                if ok:
                    nm = s.heap[stk[2].addr].fields.get("name")
                    goal = z3.BoolVal(False) if nm is None else eng.py_eq(nm, E.VStr(E.up(VALS)), s)
            elif branch == "END_nested":
                ok = len(stk) == 1 and stk[0] == items[0] and not cps and len(attached) >= 1 and attached[-1][1] == items[0] and attached[-1][2] == items[1]
                goal = z3.BoolVal(ok)
            else:
                ok = not stk and len(cps) == 1 and cps[0] == items[0] and not attached
                goal = z3.BoolVal(ok)
            status, secs, info = check_vc(eng.axioms, [*s.pc, *s.qpc], goal, T)
            compare.fold_status(ob, status, secs, info, f"path {n} ({'exits with ' + str(sig[0]) if sig else 'continues'})")
        if n == 0:
            ob.status, ob.detail = UNDECIDED, "no path"
        ob.detail = ob.detail or f"{n} paths of the real loop body"
        if ob.status == REFUTED:
            ob.shape_only = True
        obs.append(ob)
    # component_factory classes carry their own registration name (so that BEGIN:<name> gives a component of that name)
    mod = source.module("cal")
    reg = {}
    init = mod.class_members("ComponentFactory").get("__init__")
    for n in ast.walk(init) if init is not None else []:
        if isinstance(n, ast.Assign) and isinstance(n.targets[0], ast.Subscript) and ast.unparse(n.targets[0].value) == "self" and isinstance(n.value, ast.Name):
            reg[ast.literal_eval(n.targets[0].slice)] = n.value.id
    bad = []
    for key, cls in reg.items():
        nm = mod.class_members(cls).get("name") if cls in mod.classes else None
        val = ast.literal_eval(nm) if isinstance(nm, ast.Constant) else None
        if val != key:
            bad.append((key, cls, val))
    obs.append(ob_from(f"{PID}.L5.every_registered_component_class_has_the_name_it_is_registered_under", "cal:ComponentFactory.__init__", None,
                       PROVED if reg and not bad else REFUTED, f"{len(reg)} registrations: {sorted(reg)}" if reg and not bad else f"mismatch: {bad[:3]}", backend="fin"))
    # content_lines: one line per property item
    mod_, cl = source.find("cal:Component.content_lines")
    got = [ast.unparse(x) for x in source.strip_docstring(cl.body)] if cl is not None else []
    want = ["contentlines = Contentlines()", "for name, value in self.property_items(sorted=sorted):\n    cl = self.content_line(name, value, sorted=sorted)\n    contentlines.append(cl)",
            "contentlines.append('')", "return contentlines"]
    mod_, c1 = source.find("cal:Component.content_line")
    got1 = [ast.unparse(x) for x in source.strip_docstring(c1.body)] if c1 is not None else []
    want1 = ["params = getattr(value, 'params', Parameters())", "return Contentline.from_parts(name, params, value, sorted=sorted)"]
    ok = got == want and got1 == want1
    ob = ob_from(f"{PID}.L5.content_lines_is_one_from_parts_line_per_property_item", "cal:Component.content_lines", source.lines_of(cl) if cl is not None else None,
                 PROVED if ok else REFUTED, "property_items (C18) mapped one to one to Contentline.from_parts(name, value.params, value)" if ok else
                 f"body changed: {got if got != want else got1!r}", backend="fin")
    if not ok:
        ob.shape_only = True
    else:
        rep.functions.add("cal:Component.content_lines")
        rep.functions.add("cal:Component.content_line")
    obs.append(ob)
    return obs


# ---------------------------------------------------------------------------------------------------

def run(rep: common.Report):
    findings = common.findings_for(PID)
    tier = rep.tier
    rep.trust("engines: vc/fstc (transducers extracted from the real source), vc/pyvc + seqs (symbolic execution of the real loop body), z3",
              "the lemmas L1-L4 are the obligations of C06 / C05 / C03 / C10, re-run on the current tree inside this check (their bounded stand-ins are skipped here)",
              "composition: equal lines (L1), equal (name, params, value) triples (L2), equal values and parameters (L3) and the same branch "
              "taken per line (L5) give equal trees; equal trees serialise to equal bytes (L4, C10 determinism). The induction over the line "
              "list is the meta-argument; it is exercised by the stand-in, not generated",
              "components created by the factory: a fresh object, named by its class (fin check) or by the upper-cased value")
    groups = [("L", import_lemmas), ("L3", stability_obligations), ("L5", tree_obligations)]
    for tag, fnc in groups:
        try:
            for ob in fnc(rep, tier):
                rep.add(ob)
        except E.Undecided as u:
            rep.add(Obligation(f"{PID}.{tag}", "cal/parser/prop", "z3", UNDECIDED, detail=f"outside subset: {u}"))
        except Exception as e:  # noqa
            import traceback
            traceback.print_exc()
            rep.add(Obligation(f"{PID}.{tag}", "cal/parser/prop", "z3", ERROR, detail=f"checker crashed: {e!r}"))
    from props import C01_bnd
    for ob in rep.obligations:
        if ob.status == REFUTED and not ob.finding and ob.witness is None:
            w = C01_bnd.search_for(ob.oid)
            if w:
                ob.witness, ob.replay = w[0], {"confirmed": True, "native": w[1]}
            else:
                ob.status = UNDECIDED
                ob.detail += " -- candidate not confirmed on the real pipeline"
    b = Bounded("C01.bnd.pipeline", "cal:Calendar.from_ical -> to_ical -> from_ical -> to_ical (real)", C01_bnd.BOUND[tier])
    t0 = time.time()
    try:
        C01_bnd.run(b, tier, rep.seed, findings, rep.known_seen)
    except Exception as e:  # noqa
        import traceback
        traceback.print_exc()
        b.error = repr(e)
    b.seconds = time.time() - t0
    rep.bounded.append(b)
    rep.explanation = __doc__


def replay(payload: dict) -> int:
    from props import C01_bnd
    w = payload.get("witness") or {}
    if "input" in w:
        import icalendar.parser as P
        t = w["input"]
        d = lambda x: P.unescape_char(P.unescape_string(x))
        e = lambda v: P.escape_string(P.escape_char(v))
        bad = d(e(d(t))) != d(t)
        print("replay:", f"value text {t!r}: first parse {d(t)!r}, after serialise and parse {d(e(d(t)))!r}" if bad else "no violation on the current tree")
        return 1 if bad else 0
    msg = C01_bnd.replay_witness(w) if w else None
    print("replay:", msg or "no violation on the current tree")
    return 1 if msg else 0
