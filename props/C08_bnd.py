"""Bounded stand-in for C08 (labelled bounded): real Parameters alone, inside a Contentline, on an Event property."""
import itertools
import random

BOUND = {
    "quick": "1-2 names (any case) x values of length <= 3 over 12 characters (, ; : = ' ^ space backslash % 2 C a) x scalar / 1-3 element "
             "lists, through Parameters alone, Contentline.from_parts/parts and an ATTENDEE property of an Event; 1500 seeded longer values",
    "thorough": "values of length <= 4, lists up to 4 elements, 20000 seeded values",
}
ALPHA = [",", ";", ":", "=", "'", "^", " ", "\\", "%", "2", "C", "a"]
CLASS_OBLIGATION = {"alone": "C08.Q4.parameter_text_round_trip", "line": "C08.Q5.content_line_round_trip", "event": "C08.Q5.content_line_round_trip"}


def norm(v):
    return list(v) if isinstance(v, (list, tuple)) else [v]


def routes():
    from icalendar.parser import Parameters, Contentline
    from icalendar import Event
    from icalendar.prop import vCalAddress

    def alone(params):
        p = Parameters(params)
        return Parameters.from_ical(p.to_ical().decode("utf-8"))

    def line(params):
        cl = Contentline.from_parts("ATTENDEE", Parameters(params), vCalAddress("mailto:a@example.com"))
        name, back, value = Contentline(cl).parts()
        if name != "ATTENDEE" or value != "mailto:a@example.com":
            raise AssertionError(f"name/value changed: {name!r} {value!r}")
        return back

    def event(params):
        e = Event()
        e.add("attendee", "mailto:a@example.com", parameters=dict(params))
        e2 = Event.from_ical(e.to_ical())
        if str(e2["ATTENDEE"]) != "mailto:a@example.com":
            raise AssertionError(f"value changed: {e2['ATTENDEE']!r}")
        return e2["ATTENDEE"].params
    return {"alone": alone, "line": line, "event": event}


def check(route_fn, params):
    try:
        back = route_fn(params)
    except Exception as e:  # noqa
        return f"raises {type(e).__name__}: {str(e)[:100]}"
    want = {k.upper(): norm(v) for k, v in params.items()}
    got = {k: norm(v) for k, v in back.items()}
    if got != want:
        return f"got {dict(back)!r}"
    # quoting: every value with , ; : is inside double quotes on the wire (checked on the alone route by the caller)
    return None


def in_class(cls, params):
    vals = [x for v in params.values() for x in norm(v)]
    return any(any(s in x for s in cls.get("contains_any", [])) or any(x.endswith(s) for s in cls.get("endswith_any", [])) for x in vals)


def gen(tier, seed):
    rnd = random.Random(seed)
    L = 3 if tier == "quick" else 4
    vals = ["".join(t) for n in range(0, L + 1) for t in itertools.product(ALPHA, repeat=n)]
    if tier == "quick":
        rnd.shuffle(vals)
        vals = sorted(vals[:6000], key=len)
    for v in vals:
        yield {"CN": v}
    for v in vals[:400]:
        yield {"cn": v, "X-Other": "z"}
        yield {"Member": [v, "b"]}
        yield {"MEMBER": ["b", v, "c,d"]}
        yield {"member": [v]}
    # characters by class: Latin-1, BMP, the last BMP code point, the first / a middle / the last astral code point, combining marks, NBSP,
    # LINE SEPARATOR, a private-use character - quoted (next to a comma) and unquoted, scalar and list member
    for ch in ("\u00e9", "\u4f1a", "\uffff", "\U00010000", "\U0001F389", "\U00020000", "\U0010FFFF", "e\u0301", "\u00a0", "\u2028", "\ue000"):
        for v in (ch, "a" + ch + "b", ch + ",x", "x;" + ch):
            yield {"CN": v}
            yield {"MEMBER": [v, "b"]}
    # parameter NAMES over the whole iana-token / x-name grammar 1*(ALPHA / DIGIT / "-"): a leading digit or hyphen, digits only, one character
    for nm in ("1st-choice", "2fa", "-x-flag", "9", "X-9", "x", "A-", "a1-b2", "0-0", "X-VERY-LONG-PARAMETER-NAME-WITH-MANY-PARTS-0123456789"):
        yield {nm: "v"}
        yield {nm: ["a", "b,c"], "CN": "x"}
    for _ in range(1500 if tier == "quick" else 20000):
        n = rnd.randint(1, 4 if tier != "quick" else 3)
        lst = ["".join(rnd.choice(ALPHA) for _ in range(rnd.randint(0, 12))) for _ in range(n)]
        yield {"X-P": lst if n > 1 else lst[0], "role": "a"}


def run(b, tier, seed, findings, known_seen):
    rs = routes()
    fails = {}
    cases = 0
    by_ob = {}
    for f in findings:
        by_ob.setdefault(f["obligation"], []).append(f)
    seen = set()
    from icalendar.parser import Parameters
    import re
    for params in gen(tier, seed):
        # quoting clause on the wire
        text = Parameters(params).to_ical().decode("utf-8")
        for v in [x for vv in params.values() for x in norm(vv)]:
            if any(c in v for c in ",;:") and ('"' + v.replace('"', "'") + '"') not in text:
                fails.setdefault("quoting", {"witness": {"route": "alone", "params": repr(params)}, "detail": f"{params!r} -> {text!r}: value with , ; : not quoted"})
        for name, fn in rs.items():
            cases += 1
            msg = check(fn, params)
            if not msg:
                continue
            cov = None
            for f in by_ob.get(CLASS_OBLIGATION[name], []):
                if in_class(f["class"], params):
                    cov = f
                    break
            if cov:
                seen.add(cov["id"])
                continue
            if len(fails) < 12:
                fails.setdefault(name, {"witness": {"route": name, "params": repr(params)}, "detail": f"{name}: {params!r}: {msg}"})
    b.cases = cases
    b.nontrivial = cases // 3
    b.failures = list(fails.values())
    b.samples = ["{'CN': 'a;b'}", "{'MEMBER': ['b', ',', 'c,d']}"]
    for f in findings:
        if f["id"] in seen:
            known_seen.append(f"{f['id']} {f['what']}")
    return b


def replay_witness(w):
    rs = routes()
    params = eval(w["params"])
    return check(rs[w["route"]], params)
