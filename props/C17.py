"""C17 -- components and parameter maps are dicts keyed by upper-cased names.

Deductive part (pyvc): every key-taking method of the real CaselessDict is executed symbolically from an
arbitrary well-formed view and compared with the reference `dict` operation applied at up(to_unicode(key)):
exit kinds, results and the WHOLE resulting view must agree on every pair of (implementation path,
reference path); the representation invariant (only upper-case keys stored, insertion ranks below the
counter) is preserved on every exit.  `update` is proved by the loop rule "body == one reference step".
Invariant preservation by every mutator gives the statement for all operation sequences (induction, no bound).

Bounded part (bnd, labelled): the operations implemented in C by OrderedDict and the glue that depends on them
(construction from mappings / pairs / keywords, copy, __eq__/__ne__, merge operators, fromkeys, popitem)
against a reference model, all operation sequences up to a stated length.

Canonical ordering (vc/pyvc/listalg): the real body of canonsort_keys is evaluated to a term over filter / sorted / + and three
quantifier-free VCs are discharged for ALL key lists and ALL declared orders: the result is a permutation of the keys, whenever x
stands before y the statement allows it (priority names in declared order, then the others alphabetically), no KeyError.  The three
one-line callers (sorted_keys, sorted_items, canonsort_items) by exact statement shape.
"""
from __future__ import annotations

import itertools
import random
import time

import z3

from contracts import od, caseless
from vc import common
from vc.common import Obligation, Bounded, PROVED, REFUTED, UNDECIDED, ERROR
from vc.pyvc import source
from vc.pyvc import engine as E
from vc.pyvc.discharge import check_unsat, TIMEOUT_MS, model_str

LEVEL = "proof"
PID = "C17"

# method -> (parameter names, reference primitive, reference extra args builder)
KEY_METHODS = {
    "__getitem__": (["key"], "__getitem__"),
    "__setitem__": (["key", "value"], "__setitem__"),
    "__delitem__": (["key"], "__delitem__"),
    "__contains__": (["key"], "__contains__"),
    "has_key": (["key"], "__contains__"),
    "get": (["key", "default"], "get"),
    "setdefault": (["key", "value"], "setdefault"),
    "pop": (["key", "default"], "pop"),
}


def make_engine():
    lat = E.Lattice()
    lat.load_module("caselessdict")
    contracts = {}
    od.register_super(contracts)
    eng = E.Engine(lat, contracts)
    eng.globals["to_unicode"] = E.VBuiltin("to_unicode")
    E.BUILTINS["to_unicode"] = E.to_unicode_contract
    E.BUILTINS["iter"] = caseless.b_iter
    caseless.register(contracts)              # self[key] = value inside update() goes through the proved contract
    contracts["ref.items"] = caseless.ref_items
    contracts["loop:iter"] = caseless.loop_over_pairs
    eng.attr_classes["items"] = {"dict"}
    return eng


def initial_state(eng, params):
    st = E.State()
    m = E.MapObj.fresh("old")
    addr = st.alloc(m)
    env = {"self": E.VMap(addr)}
    raw = set()
    for p in params:
        if p == "key":
            z = z3.Const("key", E.S)
            env[p] = E.VStr(z)
            raw.add(str(z))
        else:
            env[p] = E.VRef(z3.Const(p, E.Ref))
    st.ghost["raw_keys"] = raw
    return st, env, addr


def outcome_equal(eng, pa: E.Path, addr_a, pb: E.Path, addr_b):
    """Formula: the two outcomes are the same exit with the same result and the same whole view."""
    if pa.kind != pb.kind:
        return z3.BoolVal(False)
    ma, mb = pa.state.heap[addr_a], pb.state.heap[addr_b]
    conj = [E.same_view(ma, mb)]
    if pa.kind == "raise":
        conj.append(z3.BoolVal(pa.value.cls == pb.value.cls))
    else:
        va, vb = pa.value, pb.value
        if isinstance(va, E.VNone) and isinstance(vb, E.VNone):
            pass
        elif isinstance(va, E.VBool) and isinstance(vb, E.VBool):
            conj.append(va.z == vb.z)
        else:
            conj.append(eng.box(va, pa.state) == eng.box(vb, pb.state))
    return z3.And(*conj)


def method_obligations(rep, eng, mname, tier):
    params, refname = KEY_METHODS[mname]
    target = f"caselessdict:CaselessDict.{mname}"
    mod, node = source.find(target)
    obs = []
    if node is None:
        obs.append(Obligation(f"{PID}.{mname}.same_as_dict", target, "z3", UNDECIDED, detail="function not found in source"))
        return obs
    lines = source.lines_of(node)
    # defaults from the real signature (pop(key, default=None) etc.)
    st, env, addr = initial_state(eng, params)
    pre = [E.map_wf(st.heap[addr])]
    st.assume(*pre)
    st0_map = E.MapObj.fresh("old")
    # parameters with defaults that the reference must receive as the signature supplies them
    paths = eng.run(node, env, st)
    # reference: dict primitive at K = up(tu(key))
    st2, env2, addr2 = initial_state(eng, params)
    st2.assume(*pre)
    K = E.VStr(E.up(E.tu(env2["key"].z)))
    ref_args = [E.VMap(addr2), K] + [env2[p] for p in params[1:]]
    try:
        ref_results = od.PRIMS[refname](eng, st2, ref_args, {})
    except E.Undecided as u:
        ref_results = []
    ref_paths = [E.Path(s, "raise" if isinstance(v, E.VExc) else "ret", v) for s, v in ref_results]
    und = [p for p in paths if p.kind == "undecided"]
    if und:
        obs.append(Obligation(f"{PID}.{mname}.same_as_dict", target, "z3", UNDECIDED, detail=und[0].value, lines=lines))
        return obs
    tmo = TIMEOUT_MS[tier]
    # (1) agreement on every pair of paths
    ob = Obligation(f"{PID}.{mname}.same_as_dict", target, "z3", PROVED, lines=lines,
                    detail=f"{len(paths)} impl paths x {len(ref_paths)} reference paths")
    terms = {"key": z3.Const("key", E.S), "K=up(tu(key))": E.up(E.tu(z3.Const("key", E.S)))}
    for pa in paths:
        for pb in ref_paths:
            goal = outcome_equal(eng, pa, addr, pb, addr2)
            status, secs, info = check_unsat(eng.axioms, [pa.pc, pb.pc], goal, tmo if False else 4000, use_cvc5=False)
            ob.seconds += secs
            if status == "undecided":
                # refutation attempt on ground instances of the quantified invariant (DESIGN.md 3.6): a model of the
                # weaker hypotheses is only a SHAPE; it counts as a refutation only if a native input confirms it
                kz = z3.Const("key", E.S)
                kterms = [kz, E.tu(kz), E.up(E.tu(kz)), E.up(kz)]
                ghyps = list(pa.state.pc) + list(pb.state.pc) + E.map_wf_at(st0_map, kterms)
                gax = [a for a in eng.axioms if not z3.is_quantifier(a)]
                for t in kterms:
                    gax.append(E.up(E.up(t)) == E.up(t))
                st_g, secs_g, info_g = check_unsat(gax, ghyps, goal, 5000, use_cvc5=False)
                ob.seconds += secs_g
                if st_g == "refuted":
                    status, info = "shape", info_g
                elif st_g == "proved":
                    status, info = "proved", "ground instances suffice"
                else:
                    status2, secs2, info2 = check_unsat(eng.axioms, [pa.pc, pb.pc], goal, tmo)
                    ob.seconds += secs2
                    status, info = status2, info2
            if status == "shape":
                ob.status = REFUTED
                ob.detail = f"impl path {pa.kind} vs reference {pb.kind}: ground-instance model (shape) {model_str(info, terms)}"
                ob.backend = "z3 (ground instances) + native confirmation required"
                break
            if status == "refuted":
                ob.status = REFUTED
                ob.detail = f"impl path {pa.kind} vs reference {pb.kind}: model {model_str(info, terms)}"
                break
            if status == "undecided" and ob.status == PROVED:
                ob.status, ob.detail = UNDECIDED, str(info)
        if ob.status == REFUTED:
            break
    obs.append(ob)
    # (2) representation invariant preserved on every exit
    ob2 = Obligation(f"{PID}.{mname}.wf_preserved", target, "z3", PROVED, lines=lines, detail=f"{len(paths)} exits")
    for pa in paths:
        status, secs, info = check_unsat(eng.axioms, [pa.pc], E.map_wf(pa.state.heap[addr]), tmo)
        ob2.seconds += secs
        if status == "refuted":
            ob2.status, ob2.detail = REFUTED, f"exit {pa.kind}: model {model_str(info, terms)}"
            break
        if status == "undecided" and ob2.status == PROVED:
            ob2.status, ob2.detail = UNDECIDED, str(info)
    obs.append(ob2)
    # (3) vacuity: the precondition is satisfiable and at least one path is feasible
    s = eng.solver(5000, ground_only=True)
    kz = z3.Const("key", E.S)
    s.add(*E.map_wf_at(st.heap[addr] if False else E.MapObj.fresh("old"), [kz, E.up(E.tu(kz))]))
    s.add(E.map_present(E.MapObj.fresh("old"), E.up(E.tu(kz))))
    ob3 = Obligation(f"{PID}.{mname}.reachable", target, "z3", PROVED if s.check() == z3.sat and paths else ERROR,
                     lines=lines, detail="requires is satisfiable and paths exist")
    obs.append(ob3)
    return obs


def update_obligations(rep, eng, tier):
    """update(*args, **kwargs): every pair of every positional iterable/mapping, then every keyword, goes through one
    reference step view[K(k)] = v, in that order, and nothing else touches the view."""
    target = "caselessdict:CaselessDict.update"
    mod, node = source.find(target)
    if node is None:
        return [Obligation(f"{PID}.update.fold_of_setitem", target, "z3", UNDECIDED, detail="function not found in source")]
    lines = source.lines_of(node)
    a = node.args
    if not (a.vararg and a.kwarg and [p.arg for p in a.args] == ["self"]):
        return [Obligation(f"{PID}.update.fold_of_setitem", target, "z3", UNDECIDED, detail="signature is not (self, *args, **kwargs)", lines=lines)]
    tmo = TIMEOUT_MS[tier]
    ob = Obligation(f"{PID}.update.fold_of_setitem", target, "z3", PROVED, lines=lines)
    ob_body = Obligation(f"{PID}.update.loop_body_is_reference_step", target, "z3", PROVED, lines=lines)
    ob_wf = Obligation(f"{PID}.update.wf_preserved", target, "z3", PROVED, lines=lines)
    npaths = 0
    for nargs in (0, 1, 2):
        st = E.State()
        m = E.MapObj.fresh("old")
        addr = st.alloc(m)
        st.assume(E.map_wf(m))
        argrefs = [z3.Const(f"arg{i}", E.Ref) for i in range(nargs)]
        kwref = z3.Const("kwargs", E.Ref)
        st.assume(E.cls_of(kwref) == eng.lat.id("dict"))
        env = {"self": E.VMap(addr), a.vararg.arg: E.VTuple([E.VRef(r) for r in argrefs]), a.kwarg.arg: E.VRef(kwref)}
        paths = eng.run(node, env, st)
        for pa in paths:
            npaths += 1
            if pa.kind == "undecided":
                ob.status, ob.detail = UNDECIDED, pa.value
                continue
            if pa.kind == "raise":
                ob.status, ob.detail = REFUTED, f"update raises {pa.value.cls} with {nargs} positional arguments"
                continue
            trace = pa.state.ghost.get("fold_trace", [])
            exp = [z3.If(eng.has_attr_z(r, "items"), caseless.items_of(r), caseless.as_pairs(r)) for r in argrefs]
            exp.append(caseless.items_of(kwref))
            goal = z3.And(*[t == e for t, e in zip(trace, exp)]) if len(trace) == len(exp) else z3.BoolVal(False)
            status, secs, info = check_unsat([x for x in eng.axioms if not z3.is_quantifier(x)], list(pa.state.pc), goal, tmo, use_cvc5=False)
            ob.seconds += secs
            if status != "proved" and ob.status == PROVED:
                ob.status = REFUTED if status == "refuted" else UNDECIDED
                ob.detail = (f"{nargs} positional argument(s): ghost trace of applied pair sequences {[str(t) for t in trace]} "
                             f"is not [pairs of each positional argument..., keyword pairs] = {[str(e) for e in exp]}")
            status, secs, info = check_unsat(eng.axioms, [pa.pc], E.map_wf(pa.state.heap[addr]), tmo)
            ob_wf.seconds += secs
            if status != "proved" and ob_wf.status == PROVED:
                ob_wf.status, ob_wf.detail = (REFUTED if status == "refuted" else UNDECIDED), str(info)[:200]
            for name, s2, goal in pa.state.ghost.get("loop_obls", []):
                fs = s2.pc + s2.qpc
                status, secs, info = check_unsat(eng.axioms, fs, goal, tmo)
                ob_body.seconds += secs
                if status != "proved" and ob_body.status == PROVED:
                    ob_body.status, ob_body.detail = (REFUTED if status == "refuted" else UNDECIDED), f"{name}: {str(info)[:200]}"
    ob.detail = ob.detail or f"{npaths} paths over 0, 1 and 2 positional arguments"
    return [ob, ob_body, ob_wf]


# ---------------------------------------------------------------------------------------------------
# native oracle (used for replay/concretisation and for the bounded stand-ins)

KEYS = ["a", "A", "b", "B", "ß", b"a", "Ab", "aB"]


class VItems(E.V):
    """`m.items()` of a map view / `dict(m.items())`: the content (key -> value) of that view, order forgotten"""

    def __init__(self, arr):
        self.arr = arr


dict_eq = z3.Function("dict_equal", z3.ArraySort(E.S, E.OptRef), z3.ArraySort(E.S, E.OptRef), E.B)       # ASSUMED: dict == dict
upper_content = z3.Function("upper_cased_content_of", E.Ref, z3.ArraySort(E.S, E.OptRef))                # ASSUMED: CaselessDict(mapping)


def eq_obligations(rep, tier):
    """CaselessDict.__eq__: reflexive by identity; False (never an exception) for non-mappings; for mappings the answer is dict
    equality of the two CONTENTS (insertion order plays no role); a plain mapping is compared through its upper-cased content"""
    from vc.pyvc import compare
    fn = "caselessdict:CaselessDict.__eq__"
    mod, node = source.find(fn)
    if node is None:
        return [Obligation(f"{PID}.__eq__", fn, "z3", UNDECIDED, detail="function not found")]
    T = TIMEOUT_MS[tier]
    lines = source.lines_of(node)
    eng = make_engine()
    L = eng.lat
    for c, bases in (("Mapping", ["object"]), ("dict", ["Mapping"])):
        if c not in L.ids:
            L.add(c, bases)
    if "Mapping" not in L.bases.get("CaselessDict", []):
        L.bases.setdefault("CaselessDict", []).append("Mapping")
    rep.functions.add(fn)
    other = z3.Const("other", E.Ref)
    other_arr = z3.Const("content_of_other", z3.ArraySort(E.S, E.OptRef))

    def items(engine, s, args, kw):
        o = args[0]
        if isinstance(o, E.VMap):
            return [(s, VItems(s.heap[o.addr].arr))]
        return [(s, VItems(z3.If(engine.lat.isinstance_z(o.z, ["CaselessDict"]), other_arr, upper_content(o.z))))]
    eng.contracts["CaselessDict.items"] = items
    eng.contracts["ref.items"] = items
    saved_dict = E.BUILTINS.get("dict")
    E.BUILTINS["dict"] = lambda e, s, a, k: [(s, a[0])] if a and isinstance(a[0], VItems) else (_ for _ in ()).throw(E.Undecided("dict(...)"))
    eng.globals["dict"] = E.VBuiltin("dict")
    base_eq = eng.py_eq

    def py_eq(a, b, s):
        if isinstance(a, VItems) and isinstance(b, VItems):
            s.assume(z3.Implies(a.arr == b.arr, dict_eq(a.arr, b.arr)))
            return dict_eq(a.arr, b.arr)
        return base_eq(a, b, s)
    eng.py_eq = py_eq

    def new_caseless(engine, s, args, kw):
        # CaselessDict(mapping): its upper-cased content, or AttributeError / TypeError for keys that are neither str nor bytes
        r = s.new_ref(engine.lat.id("CaselessDict"), "converted")
        s.assume(E.cls_of(r) == engine.lat.id("CaselessDict"))
        s.ghost = dict(s.ghost)
        s.ghost[("converted", str(r))] = engine.box(args[0], s)
        s2, s3 = s.fork(), s.fork()
        return [(s, E.VRef(r)), (s2, E.VExc("AttributeError", "key")), (s3, E.VExc("TypeError", "key"))]
    eng.contracts["new:CaselessDict"] = new_caseless

    def items2(engine, s, args, kw):
        o = args[0]
        if isinstance(o, E.VMap):
            return [(s, VItems(s.heap[o.addr].arr))]
        src = s.ghost.get(("converted", str(o.z)))
        if src is not None:
            return [(s, VItems(upper_content(src)))]
        return [(s, VItems(other_arr))]
    eng.contracts["CaselessDict.items"] = items2
    eng.contracts["ref.items"] = items2
    eng.globals["Mapping"] = E.VClass("Mapping")
    eng.globals["CaselessDict"] = E.VClass("CaselessDict")
    obs = []
    try:
        st = E.State()
        m = E.MapObj.fresh("self", cls="CaselessDict")
        addr = st.alloc(m)
        st.assume(E.map_wf(m))
        paths = eng.run(node, dict(eng.globals, self=E.VMap(addr), other=E.VRef(other)), st)
        me = m.ref
        res = lambda pa: eng.truth(pa.value, pa.state)
        is_map = L.isinstance_z(other, ["Mapping"])
        is_cd = L.isinstance_z(other, ["CaselessDict"])
        obs.append(compare.raises_only(eng, f"{PID}.__eq__.never_fails", fn, lines, paths, [], T))
        obs.append(compare.ensures(eng, f"{PID}.__eq__.reflexive_by_identity", fn, lines, paths, lambda pa: z3.Implies(other == me, res(pa)), T))
        obs.append(compare.ensures(eng, f"{PID}.__eq__.False_for_anything_that_is_not_a_mapping", fn, lines, paths,
                                   lambda pa: z3.Implies(z3.And(other != me, z3.Not(is_map)), z3.Not(res(pa))), T))
        obs.append(compare.ensures(eng, f"{PID}.__eq__.two_caseless_maps_are_equal_iff_their_contents_are_equal_dicts", fn, lines, paths,
                                   lambda pa: z3.Implies(z3.And(other != me, is_cd), res(pa) == dict_eq(pa.state.heap[addr].arr, other_arr)), T))
        obs.append(compare.ensures(eng, f"{PID}.__eq__.a_plain_mapping_is_compared_by_its_upper_cased_content", fn, lines, paths,
                                   lambda pa: z3.Implies(z3.And(other != me, is_map, z3.Not(is_cd), res(pa)),
                                                         dict_eq(pa.state.heap[addr].arr, upper_content(other))), T))
        obs.append(compare.ensures(eng, f"{PID}.__eq__.leaves_the_map_unchanged", fn, lines, paths, lambda pa: E.same_view(pa.state.heap[addr], m), T))
    except E.Undecided as u:
        obs.append(Obligation(f"{PID}.__eq__", fn, "z3", UNDECIDED, detail=f"outside subset: {u}", lines=lines))
    finally:
        if saved_dict is None:
            E.BUILTINS.pop("dict", None)
        else:
            E.BUILTINS["dict"] = saved_dict
    return obs


def K_native(k):
    from icalendar.parser_tools import to_unicode
    return to_unicode(k).upper()


def native_method_check(mname, d_items, key, extra=()):
    """Run the real method and the reference dict operation; return a description of a disagreement or None."""
    from icalendar.caselessdict import CaselessDict
    real = CaselessDict()
    ref = {}
    for k, v in d_items:
        real[k] = v
        ref[K_native(k)] = v
    if dict(real) != ref or list(real) != list(ref):
        return f"construction differs: {dict(real)!r} vs {ref!r}"
    KK = K_native(key)

    def run(f):
        try:
            return ("ret", f())
        except Exception as e:   # noqa
            return ("raise", type(e).__name__)
    table = {
        "__getitem__": (lambda: real[key], lambda: ref[KK]),
        "__setitem__": (lambda: real.__setitem__(key, *extra), lambda: ref.__setitem__(KK, *extra)),
        "__delitem__": (lambda: real.__delitem__(key), lambda: ref.__delitem__(KK)),
        "__contains__": (lambda: key in real, lambda: KK in ref),
        "has_key": (lambda: real.has_key(key), lambda: KK in ref),
        "get": (lambda: real.get(key, *extra), lambda: ref.get(KK, *(extra or (None,)))),
        "setdefault": (lambda: real.setdefault(key, *extra), lambda: ref.setdefault(KK, *(extra or (None,)))),
        "pop": (lambda: real.pop(key, *extra), lambda: ref.pop(KK, *(extra or (None,)))),
    }
    a, b = table[mname]
    ra, rb = run(a), run(b)
    if ra != rb:
        return f"{mname}({key!r}{', ' if extra else ''}{', '.join(map(repr, extra))}) on {ref!r}: real {ra} reference {rb}"
    if dict(real) != ref or list(real.keys()) != list(ref.keys()):
        return f"{mname}({key!r}) on {d_items!r}: view {list(real.items())!r} reference {list(ref.items())!r}"
    if any(k != k.upper() for k in real.keys()):
        return f"non upper-case key stored: {list(real.keys())!r}"
    return None


def concretise(mname):
    """Search the small native domain for an input on which the real method disagrees with the reference."""
    vals = [1, None]
    for n in range(0, 3):
        for ks, vs in itertools.product(itertools.product(KEYS[:6], repeat=n), itertools.product([10, 1, None], repeat=n)):
            items = list(zip(ks, vs))
            for key in KEYS:
                for extra in ([()] + [(v,) for v in vals]):
                    if mname == "__setitem__" and not extra:
                        continue
                    if mname in ("__getitem__", "__delitem__", "__contains__", "has_key") and extra:
                        continue
                    try:
                        msg = native_method_check(mname, items, key, extra)
                    except Exception as e:  # noqa
                        msg = f"{mname} crashed natively: {type(e).__name__}: {e}"
                    if msg:
                        return {"method": mname, "items": repr(items), "key": repr(key), "extra": repr(extra)}, msg
    return None, None


def concretise_update():
    from props import C17_bnd
    from icalendar.caselessdict import CaselessDict
    for op in C17_bnd.op_instances():
        if not op[0].startswith("update"):
            continue
        for pre in ([], [("setitem", "a", 1)], [("setitem", "b", 1)]):
            real, ref = CaselessDict(), {}
            msg = None
            for o in pre + [op]:
                real, ref, msg = C17_bnd.apply(CaselessDict, real, ref, o)
                if msg:
                    break
            if msg:
                return {"method": "update", "ops": repr(pre + [op])}, msg
    return None, None


def canon_obligations(rep):
    """the canonical key ordering: canonsort_keys (real body -> list-algebra term -> three quantifier-free VCs), and the three
    one-line callers by statement shape"""
    import ast as _ast
    from vc.pyvc import listalg as LA
    obs = []
    fn = "caselessdict:canonsort_keys"
    mod, node = source.find(fn)
    names = {"perm": "result_is_a_permutation_of_the_keys", "order": "priority_names_in_declared_order_then_the_others_alphabetically",
             "noraise": "raises_nothing"}
    if node is None:
        return [Obligation(f"{PID}.canon.canonsort_keys.{v}", fn, "z3", UNDECIDED, detail="function not found") for v in names.values()]
    rep.functions.add(fn)
    lines = source.lines_of(node)
    try:
        params = [a.arg for a in node.args.args]
        desc, ctx, goals = LA.vcs(node, params[0], params[1])
    except LA.Unsupported as e:
        return [Obligation(f"{PID}.canon.canonsort_keys.{v}", fn, "z3", UNDECIDED, lines=lines,
                           detail=f"outside the list algebra (filter / sorted / +): {e}") for v in names.values()]
    for key, goal in goals.items():
        if key not in names:
            continue
        t0 = time.time()
        sol = z3.Solver()
        sol.set(timeout=TIMEOUT_MS[rep.tier])
        sol.add(*ctx.hyps())
        sol.add(z3.Not(goal))
        r = sol.check()
        ob = Obligation(f"{PID}.canon.canonsort_keys.{names[key]}", fn, "z3", PROVED, time.time() - t0, f"result term: {desc}", lines=lines)
        if r == z3.sat:
            m = sol.model()
            ev = lambda t: m.eval(t, model_completion=True)  # noqa: E731
            import re as _re
            unesc = lambda t: _re.sub(r"\\u\{([0-9a-fA-F]+)\}", lambda mm: chr(int(mm.group(1), 16)), t)  # noqa: E731
            xs, ys = unesc(ev(ctx.x).as_string()), unesc(ev(ctx.y).as_string())
            info = {"x": xs, "y": ys, "x_in_order": z3.is_true(ev(ctx.in_map(ctx.x))), "y_in_order": z3.is_true(ev(ctx.in_map(ctx.y))),
                    "rank_x": ev(ctx.rank(ctx.x)).as_long(), "rank_y": ev(ctx.rank(ctx.y)).as_long(), "n_keys": ev(ctx.n).as_long(),
                    "order_len": ev(ctx.order_len).as_long()}
            ob.status = REFUTED
            ob.detail = f"result term: {desc}; z3 model (complete: the VC is quantifier free): {info}"
            w, msg = canon_concretise(info)
            if w is not None:
                ob.witness, ob.replay = w, {"confirmed": True, "native": msg}
            else:
                ob.status = UNDECIDED
                ob.detail += " -- the model does not reproduce on the real function and the small native domain has no failing input"
        elif r != z3.unsat:
            ob.status, ob.detail = UNDECIDED, f"z3: {r} ({sol.reason_unknown()})"
        obs.append(ob)
    # reachability: each of the three cases of the ordering clause has a pair (x before y) in the result
    t0 = time.time()
    x, y = ctx.x, ctx.y
    term_before = None
    try:
        term = LA.eval_function(node, params[0], params[1])
        term_before = LA.before(x, y, term, ctx)
    except LA.Unsupported:
        pass
    cases = {"both priority names": z3.And(ctx.in_map(x), ctx.in_map(y), x != y), "priority then other": z3.And(ctx.in_map(x), z3.Not(ctx.in_map(y))),
             "both other names": z3.And(z3.Not(ctx.in_map(x)), z3.Not(ctx.in_map(y)), x != y)}
    missing = []
    for cname, c in cases.items():
        sol = z3.Solver()
        sol.set(timeout=TIMEOUT_MS[rep.tier])
        sol.add(*ctx.hyps())
        sol.add(c, term_before if term_before is not None else z3.BoolVal(False))
        if sol.check() != z3.sat:
            missing.append(cname)
    obs.append(Obligation(f"{PID}.canon.canonsort_keys.reachable", fn, "z3", PROVED if not missing else UNDECIDED, time.time() - t0,
                          "all three cases of the ordering clause occur" if not missing else f"no pair for: {missing}", lines=lines))
    # callers (statement shapes)
    shapes = {"caselessdict:CaselessDict.sorted_keys": ["return canonsort_keys(self.keys(), self.canonical_order)"],
              "caselessdict:CaselessDict.sorted_items": ["return canonsort_items(self, self.canonical_order)"],
              "caselessdict:canonsort_items": ["return [(k, dict1[k]) for k in canonsort_keys(dict1.keys(), canonical_order)]"]}
    for target, want in shapes.items():
        mod2, n2 = source.find(target)
        ob = Obligation(f"{PID}.canon.{target.split(':')[1]}.is_canonsort_keys_of_the_keys_and_the_class_order", target, "fin", UNDECIDED,
                        lines=source.lines_of(n2) if n2 is not None else None)
        if n2 is not None:
            rep.functions.add(target)
            body = [_ast.unparse(st) for st in source.strip_docstring(n2.body)]
            if body == want:
                ob.status, ob.detail = PROVED, "body is exactly: " + want[0]
            else:
                ob.detail = f"body is {body!r}: outside the statement shape (the stand-in decides)"
        obs.append(ob)
    return obs


def canon_concretise(info):
    """a concrete input from the model (order with x / y at their ranks, keys = x, y and fillers up to n_keys), else the small domain"""
    from props import C17_bnd
    try:
        ln = max(info["order_len"], (info["rank_x"] + 1) if info["x_in_order"] else 0, (info["rank_y"] + 1) if info["y_in_order"] else 0)
        if ln <= 64 and info["n_keys"] <= 64:
            order = [f"P{i:02d}" for i in range(ln)]
            if info["x_in_order"]:
                order[info["rank_x"]] = info["x"]
            if info["y_in_order"]:
                order[info["rank_y"]] = info["y"]
            keys = [info["x"]] + ([info["y"]] if info["y"] != info["x"] else [])
            keys += [f"zz{i}" for i in range(max(0, info["n_keys"] - len(keys)))]
            for ks in (keys, list(reversed(keys))):
                msg = C17_bnd.canon_check(ks, tuple(order))
                if msg:
                    return {"canon": True, "keys": ks, "order": order}, msg
    except Exception:  # noqa
        pass
    fails, _ = C17_bnd.canon_enum(1)
    if fails:
        return fails[0]["witness"], fails[0]["detail"]
    return None, None


def run(rep: common.Report):
    eng = make_engine()
    rep.trust(
        "assumed: collections.OrderedDict primitive operations (__getitem__/__setitem__/__delitem__/__contains__/get/"
        "setdefault/pop) on raw keys behave as dict with insertion order (C code; contracts/od.py)",
        "assumed: str.upper is idempotent (axiom up(up(x)) = up(x))",
        "engine: vc/pyvc (symbolic executor, own code) + z3 5.1.0; cvc5 only for z3 unknowns",
    )
    rep.assume("ints mathematical; strings SMT sequences; keys abstract raw keys with uninterpreted to_unicode (tu) and "
               "upper (up); dict values opaque references; asserts enabled; no subclass overrides of the dunder methods")
    for mname in KEY_METHODS:
        try:
            obs = method_obligations(rep, eng, mname, rep.tier)
        except Exception as e:  # engine crash on this method: error, never a violation
            import traceback
            traceback.print_exc()
            obs = [Obligation(f"{PID}.{mname}.same_as_dict", f"caselessdict:CaselessDict.{mname}", "z3", ERROR, detail=repr(e))]
        for ob in obs:
            if ob.status == REFUTED:
                w, msg = concretise(mname)
                if w is not None:
                    ob.witness, ob.replay = w, {"confirmed": True, "native": msg}
                elif "shape" in ob.detail:
                    ob.status = UNDECIDED
                    ob.detail += " -- not confirmed natively, so not a refutation"
                else:
                    ob.replay = {"confirmed": False, "native": "no failing input in the small native domain"}
            rep.add(ob)
    try:
        uobs = update_obligations(rep, eng, rep.tier)
    except Exception as e:  # noqa
        import traceback
        traceback.print_exc()
        uobs = [Obligation(f"{PID}.update.fold_of_setitem", "caselessdict:CaselessDict.update", "z3", ERROR, detail=repr(e))]
    for ob in uobs:
        if ob.status == REFUTED:
            w, msg = concretise_update()
            if w is not None:
                ob.witness, ob.replay = w, {"confirmed": True, "native": msg}
            else:
                ob.replay = {"confirmed": False, "native": "no failing input in the small native domain"}
        rep.add(ob)
    try:
        for ob in eq_obligations(rep, rep.tier):
            if ob.status == REFUTED:
                from props import C17_bnd as _b
                bb = Bounded("s", "", "")
                _b.run_sequences(bb, "quick", 0)
                if bb.failures:
                    ob.witness, ob.replay = bb.failures[0]["witness"], {"confirmed": True, "native": bb.failures[0]["detail"]}
                else:
                    ob.status = UNDECIDED
                    ob.detail += " -- not confirmed natively"
            rep.add(ob)
    except Exception as e:  # noqa
        import traceback
        traceback.print_exc()
        rep.add(Obligation(f"{PID}.__eq__", "caselessdict:CaselessDict.__eq__", "z3", ERROR, detail=repr(e)))
    try:
        for ob in canon_obligations(rep):
            rep.add(ob)
    except Exception as e:  # noqa
        import traceback
        traceback.print_exc()
        rep.add(Obligation(f"{PID}.canon", "caselessdict:canonsort_keys", "z3", ERROR, detail=repr(e)))
    rep.assume("canonsort_keys: sorted() is assumed to return a stable ascending permutation (CPython); str order = code points (z3 str.<=); "
               "the declared order has no duplicate names; tuples compare lexicographically")
    rep.extra["solver_seconds_path_pruning"] = round(eng.solver_time, 3)
    from vc.static import state as _state
    rep.add(_state.obligation(PID, ('caselessdict',), Obligation, PROVED, UNDECIDED))
    rep.explanation = __doc__
    # assumed-contract cross-checks (a failure is a checker error, exit 3, never a violation)
    from vc.fin import upper_axioms, od_crosscheck
    from vc.fin import engine_vs_cpython_maps
    for cc in (upper_axioms.run(rep.seed), od_crosscheck.run(rep.seed, 150 if rep.tier == "quick" else 1500),
               engine_vs_cpython_maps.run(make_engine, KEY_METHODS, rep.seed)):
        rep.crosschecks.append(cc)
        if not cc["ok"]:
            rep.error(f"assumed-contract cross-check failed: {cc['name']}: {cc['failures']}")
    # bounded stand-in for the C-implemented operations and the glue on top of them
    from props import C17_bnd
    b = Bounded("C17.bnd.operation_sequences", "caselessdict:CaselessDict (all mapping operations incl. C-level ones)",
                "all sequences of <= 2 operations from %d operation instances over keys %r on CaselessDict and Parameters "
                ", a subclass with canonical_order and Event, plus %d seeded random sequences of 3..40 operations; canonsort_keys on all orders of <= 4 of 6 names x all key lists of <= 3 of 8 names; the declared orders of Calendar/Event/Todo/Timezone/Alarm/vRecur with <= 2 priority + <= 2 other names"
                % (len(C17_bnd.op_instances()), C17_bnd.KEYS, 300 if rep.tier == "quick" else 5000))
    t0 = time.time()
    try:
        C17_bnd.run_sequences(b, rep.tier, rep.seed)
    except Exception as e:  # noqa
        import traceback
        traceback.print_exc()
        b.error = repr(e)
    b.seconds = time.time() - t0
    rep.bounded.append(b)
    rep.assume("bounded: construction from mappings/pairs/keywords, copy, popitem, merge operators, fromkeys, ==/!= "
               "are checked only on the stated operation sequences (bnd), not proved")


def replay(payload: dict) -> int:
    w = payload.get("witness")
    if not w:
        print("replay: no concrete input recorded; verifier output:", payload.get("verifier_output"))
        return 1
    if w.get("ctor"):
        from props import C17_bnd
        fails, _ = C17_bnd.construction_cases()
        msg = next((f["detail"] for f in fails if f["witness"] == w), fails[0]["detail"] if fails else None)
        print("replay:", msg or "no violation on the current tree")
        return 1 if msg else 0
    if w.get("canon"):
        from props import C17_bnd
        if "class" in w:
            fails, _ = C17_bnd.canon_enum(50)
            msg = next((f["detail"] for f in fails if f["witness"] == w), None)
        else:
            msg = C17_bnd.canon_check(w["keys"], None if w.get("order") is None else tuple(w["order"]))
        print("replay:", msg or "no violation on the current tree")
        return 1 if msg else 0
    if w.get("method") == "update":
        from props import C17_bnd
        from icalendar.caselessdict import CaselessDict
        real, ref, msg = CaselessDict(), {}, None
        for o in eval(w["ops"]):
            real, ref, msg = C17_bnd.apply(CaselessDict, real, ref, o)
            if msg:
                break
        print("replay:", msg or "no disagreement on the current tree")
        return 1 if msg else 0
    msg = native_method_check(w["method"], eval(w["items"]), eval(w["key"]), eval(w["extra"]))
    print("replay:", msg or "no disagreement on the current tree")
    return 1 if msg else 0
