"""Bounded stand-in for C07 (labelled bounded): the real objects end to end, over the statement's critical alphabet."""
import itertools
import random

BOUND = {
    "quick": "all strings of length <= 3 over 15 critical characters plus 1500 seeded strings of length 4..40, through 4 real paths "
             "(vText codec, SUMMARY via Event.to_ical/from_ical, CATEGORIES item via Event, vCategory codec); leading U+FEFF cases",
    "thorough": "all strings of length <= 4 over 15 critical characters plus 20000 seeded strings of length 5..60, same 4 paths",
}
ALPHA = ["\\", "n", "N", ";", ",", ":", '"', "%", "2", "C", "c", "\r", "\n", " ", "a"]
PATH_OBLIGATION = {"codec": "C07.a.codec", "summary": "C07.b.property_pipeline", "cat_codec": "C07.c1.list_codec",
                   "categories": "C07.c2.list_property"}


def N(s):
    return s.replace("\\N", "\n").replace("\r\n", "\n")


def paths():
    from icalendar import Event
    from icalendar.prop import vText, vCategory

    def codec(s):
        return str(vText.from_ical(vText(s).to_ical().decode("utf-8"))), N(s)

    def summary(s):
        e = Event()
        e.add("summary", s)
        e2 = Event.from_ical(e.to_ical())
        return str(e2["SUMMARY"]), N(s)

    def cat_codec(s):
        items = [s, "z"]
        return vCategory.from_ical(vCategory(items).to_ical().decode("utf-8")), [N(x) for x in items]

    def categories(s):
        e = Event()
        e.add("categories", ["z", s])
        e2 = Event.from_ical(e.to_ical())
        return [str(c) for c in e2["CATEGORIES"].cats], ["z", N(s)]
    return {"codec": codec, "summary": summary, "cat_codec": cat_codec, "categories": categories}


def in_class(cls, s):
    return any(x in s for x in cls.get("contains_any", [])) or any(s.startswith(x) for x in cls.get("startswith_any", [])) \
        or any(s.endswith(x) for x in cls.get("endswith_any", []))


def run(b, tier, seed, findings, known_seen):
    rnd = random.Random(seed)
    maxlen = 3 if tier == "quick" else 4
    strings = ["".join(t) for n in range(0, maxlen + 1) for t in itertools.product(ALPHA, repeat=n)]
    nrand = 1500 if tier == "quick" else 20000
    for _ in range(nrand):
        strings.append("".join(rnd.choice(ALPHA) for _ in range(rnd.randint(maxlen + 1, 40 if tier == "quick" else 60))))
    strings += ["﻿", "﻿a", "a﻿", "﻿﻿x"]
    # long values: a special character at every position around the places where the serialiser folds (74 octets per physical line):
    # a character that the unfolding could swallow together with the fold (CR, LF, space, tab, backslash) must survive
    for ch in ("\r", "\n", " ", "\t", "\\", "\r\r", " \r", "\r "):
        for pos in list(range(55, 80)) + list(range(128, 153)) + list(range(202, 227)):
            strings.append("x" * pos + ch + "y" * 30)
    for ch in ("\r", " ", "\t"):
        for pos in range(60, 76):
            strings.append("\u00e9" * (pos // 2) + ch + "\u4f1a" * 40 + ch + "z")
    # "for every Unicode string": each control character (C0 except LF / CR, DEL, C1), separators, BOM, NBSP, a non-BMP character - alone,
    # inside a word and next to the escape characters
    for cp in list(range(0, 10)) + [11, 12] + list(range(14, 32)) + [0x7f, 0x80, 0x85, 0x9f, 0xa0, 0x2028, 0x2029, 0xfeff, 0xfffd, 0x1f600, 0x10ffff]:
        ch = chr(cp)
        strings += [ch, "Agenda" + ch + "Item 1", ch + "x", "x" + ch, "a," + ch + ";b", "\\" + ch]
    ps = paths()
    fails = {}
    cases = 0
    seen_findings = set()
    by_ob = {}
    for f in findings:
        by_ob.setdefault(f["obligation"], []).append(f)
    for s in strings:
        for name, fn in ps.items():
            cases += 1
            try:
                got, want = fn(s)
            except Exception as e:  # noqa
                got, want = ("raises", type(e).__name__, str(e)[:80]), None
            if got == want:
                continue
            covered = None
            for f in by_ob.get(PATH_OBLIGATION[name], []):
                cls = dict(f["class"])
                if name in ("cat_codec", "categories"):
                    # list classes are stated on the marker encoding: an item ending in a backslash is "\\<marker>"
                    cls["endswith_any"] = [x[:-1] for x in cls.get("contains_any", []) if x.endswith("\x1f")]
                if in_class(cls, s):
                    covered = f
                    break
            if covered:
                seen_findings.add(covered["id"])
                continue
            if len(fails) < 12:
                fails.setdefault(name, {"witness": {"path": name, "text": s}, "detail": f"{name}: {s!r} -> {got!r}, expected {want!r}"})
    b.cases = cases
    b.nontrivial = len(strings)
    b.failures = list(fails.values())
    b.samples = [repr(strings[200]), repr(strings[-10])]
    for f in findings:
        if f["id"] in seen_findings and f.get("bounded_only"):
            known_seen.append(f"{f['id']} {f['what']}")
    return b


def replay_witness(w):
    ps = paths()
    try:
        got, want = ps[w["path"]](w["text"])
    except Exception as e:  # noqa
        return f"{w['path']}: {w['text']!r} raises {type(e).__name__}: {e}"
    return None if got == want else f"{w['path']}: {w['text']!r} -> {got!r}, expected {want!r}"
