"""Bounded stand-in for C04 (labelled bounded): totality of parse / serialise / walk on hostile input, through the project's own
oracle fuzz_calendar_v1; isolation of bad property lines inside a VEVENT."""
import random
import time

BOUND = {
    "quick": "2500 seeded inputs <= 4 KiB (token soup, mutated fixture calendars, mismatched BEGIN/END, duplicated singletons, hostile "
             "TZID values, malformed VTIMEZONEs, truncated lines, nesting <= 64, random bytes), str and bytes, single and multiple, both "
             "providers; 60 bad-line isolation cases; per-case time limit 5 s",
    "thorough": "40000 seeded inputs <= 16 KiB",
}
TOKENS = ["BEGIN:", "END:", "VCALENDAR", "VEVENT", "VTODO", "VTIMEZONE", "STANDARD", "DAYLIGHT", "VALARM", "VFREEBUSY", "X-COMP", "\r\n", "\n", "\r\n ",
          ":", ";", "=", ",", '"', "\\", "DTSTART", "DTEND", "DURATION", "RRULE", "RDATE", "EXDATE", "FREEBUSY", "TZID", "TZOFFSETFROM", "TZOFFSETTO",
          "TZNAME", "VALUE=DATE", "VALUE=PERIOD", "TZID=Europe/Berlin", "TZID=Europe", "TZID=" + "A" * 300, "TZID=/x", "TZID=Custom", "20240101T000000",
          "20240101T000000Z", "20240101", "P1D", "PT1H", "P99999999999D", "-P1W", "+0100", "-0500", "+2500", "+01", "FREQ=DAILY", "FREQ=YEARLY;BYMONTH=",
          "BYMONTH=99", "BYDAY=1SU", "COUNT=x", "UNTIL=20240101", "19970101T180000Z/19970102T070000Z", "19970102T000000Z/19970101T000000Z",
          "20240101T000000/20240101", "20240101T000000Z/20240102T000000", "20240101/20240102", "20240101/P1D", "TRIGGER", "REPEAT", "ACTION", "SUMMARY", "GEO", "1.0;2.0", "x;y",
          "ATTACH", "ENCODING=BASE64", "!!!", "ATTENDEE", "CN=", "ROLE=CHAIR,,OPT", 'MEMBER="mailto:a",', "TZID=Europe/Berlin,Europe/Paris", "TZID=Europe/Berlin,",
          "00010101T000000", "99991231T235959", "TZID=Asia/Tokyo", "X-COMMENT", "0", "-1", "a", "ä", "\x00", "﻿", "%2C", "PRIORITY", "SEQUENCE", "abc"]
# time zone ids a hostile file may carry: directories and files of the tz database, over-long names in characters and in BYTES
# (<= 255 characters but > 255 octets), path tricks, control characters, lone surrogates
HOSTILE_TZIDS = ["Europe", "America/Indiana", "A" * 300, "A" * 255, "A" * 256, "Europe/" + "A" * 255, "a/" * 200, "\u00e9" * 130, "\u00e9" * 127 + "a",
                 "\u00e9" * 300, "\U0001F600" * 64, "/x", "", " ", ".", "..", "Europe/..", "../../x", "Europe/Berlin/", "Europe/Berlin ", "europe/berlin",
                 "\x00", "Europe/Berlin\x00", "Etc/GMT+0\n", "posixrules", "tzdata.zi", "zone.tab", "GMT+1", "+01:00", "\ud800", "x\ud800y"]
TOKENS += ["TZID=" + t for t in HOSTILE_TZIDS if "\ud800" not in t and "\n" not in t and t not in ("A" * 300,)]
# RFC 6868 caret sequences and other escapes in parameter values (single and multi-valued): whatever a reader makes of them must not make
# the serialiser fail with anything but ValueError
TOKENS += ["^n", "^'", "^^", "CN=a^nb", 'MEMBER="mailto:a","mailto:b^n@x"', 'MEMBER="a^nb",c', "X-P=^n,^n", 'CN="x^\'y"', "CN=a\\nb", 'DELEGATED-TO="a\\n","b"']
VTZ = """BEGIN:VTIMEZONE
TZID:Custom
BEGIN:STANDARD
DTSTART:20201025T030000
TZOFFSETFROM:+0200
TZOFFSETTO:+0100
TZNAME:CET
RRULE:FREQ=YEARLY;BYMONTH=10;BYDAY=-1SU
END:STANDARD
BEGIN:DAYLIGHT
DTSTART:20200329T020000
TZOFFSETFROM:+0100
TZOFFSETTO:+0200
TZNAME:CEST
RRULE:FREQ=YEARLY;BYMONTH=3;BYDAY=-1SU
END:DAYLIGHT
END:VTIMEZONE
"""
BASE = """BEGIN:VCALENDAR
VERSION:2.0
PRODID:x
%sBEGIN:VEVENT
UID:1
DTSTAMP:20240101T000000Z
DTSTART;TZID=Custom:20240601T100000
DTEND;TZID=Custom:20240601T110000
SUMMARY:hello
RRULE:FREQ=WEEKLY;COUNT=3
BEGIN:VALARM
TRIGGER:-PT15M
ACTION:DISPLAY
END:VALARM
END:VEVENT
END:VCALENDAR
""" % VTZ


def gen(rnd, maxlen):
    kind = rnd.randrange(7)
    if kind == 0:
        s = "".join(rnd.choice(TOKENS) for _ in range(rnd.randint(1, 60)))
    elif kind == 1:
        lines = BASE.split("\n")
        for _ in range(rnd.randint(1, 4)):
            i = rnd.randrange(len(lines))
            op = rnd.randrange(5)
            if op == 0:
                del lines[i]
            elif op == 1:
                lines.insert(i, lines[rnd.randrange(len(lines))])
            elif op == 2:
                lines[i] = lines[i][:rnd.randint(0, len(lines[i]))]
            elif op == 3:
                lines[i] = lines[i] + rnd.choice(TOKENS)
            else:
                lines[i] = rnd.choice(TOKENS) + rnd.choice([":", ";", ""]) + rnd.choice(TOKENS)
        s = "\r\n".join(lines)
    elif kind == 2:
        depth = rnd.randint(1, 64)
        names = [rnd.choice(["VEVENT", "VTODO", "X-A", "VCALENDAR", "VTIMEZONE", "STANDARD"]) for _ in range(depth)]
        s = "".join(f"BEGIN:{n}\r\n" for n in names) + rnd.choice(["", "SUMMARY:x\r\n", "DTSTART:bad\r\n"])
        closing = list(reversed(names))
        if rnd.random() < 0.5:
            rnd.shuffle(closing)
        s += "".join(f"END:{n}\r\n" for n in closing[:rnd.randint(0, depth)])
    elif kind == 3:
        # malformed VTIMEZONE variants
        lines = VTZ.split("\n")
        for _ in range(rnd.randint(1, 3)):
            i = rnd.randrange(len(lines))
            if rnd.random() < 0.5:
                del lines[i]
            else:
                lines[i] = rnd.choice(["DTSTART;VALUE=DATE:20200101", "RRULE:FREQ=YEARLY;BYMONTH=99", "TZOFFSETFROM:+2500", "TZID:Custom", "TZID:Other",
                                       "DTSTART:bad", "TZNAME:ä", "RDATE:20210101T000000,20220101T000000", "END:VTIMEZONE", "BEGIN:DAYLIGHT"])
        body = "\r\n".join(lines)
        s = "BEGIN:VCALENDAR\r\n" + body + "\r\nBEGIN:VEVENT\r\nDTSTART;TZID=Custom:20240601T100000\r\nEND:VEVENT\r\nEND:VCALENDAR\r\n"
    elif kind == 4:
        s = "BEGIN:VEVENT\r\n" + "".join(rnd.choice(["DTSTART", "DTEND", "DUE", "RDATE", "EXDATE", "FREEBUSY", "RECURRENCE-ID", "TRIGGER", "DURATION", "GEO", "RRULE",
                                                      "ATTENDEE", "PRIORITY", "X-FOO"]) + rnd.choice(["", ";" + rnd.choice(TOKENS)]) + ":" + rnd.choice(TOKENS) + rnd.choice(["", rnd.choice(TOKENS)]) + "\r\n"
                                         for _ in range(rnd.randint(1, 8))) + "END:VEVENT\r\n"
    elif kind == 5:
        s = "".join(chr(rnd.choice([rnd.randrange(0, 256), rnd.randrange(0, 0x3000)])) for _ in range(rnd.randint(0, 200)))
    else:
        s = BASE.replace("Custom", rnd.choice(["Europe", "A" * 300, "/Europe/Berlin", "Europe/Berlin,Europe/Paris", "", "\\", "Etc/GMT+25", "../../etc/passwd"]
                                              + [t for t in HOSTILE_TZIDS if "\n" not in t]))
    return s[:maxlen]


def one(text, multiple, as_bytes, walk):
    """-> message or None"""
    import icalendar
    from icalendar.tests.fuzzed import fuzz_calendar_v1
    data = text.encode("utf-8", "surrogatepass") if as_bytes else text
    t0 = time.time()
    try:
        fuzz_calendar_v1(icalendar.Calendar.from_ical, data, multiple, walk)
    except ValueError:
        pass
    except Exception as e:  # noqa
        return f"{type(e).__name__}: {str(e)[:120]}"
    if time.time() - t0 > 5:
        return "takes more than 5 s"
    return None


def isolation_cases():
    """inside a VEVENT a bad property line is dropped and recorded, everything else is kept; outside it is a ValueError"""
    import icalendar
    bad_lines = ["DTSTART:not-a-date", "DTEND;TZID=Europe/Berlin:2024", "DURATION:P99999999999D", "FREEBUSY:19970102T000000Z/19970101T000000Z", "GEO:1;2;3",
                 "RRULE:FREQ=NEVER", "PRIORITY:high", "TRIGGER:soon", "X-A;=:1", "ATTENDEE;ROLE=CHAIR,,OPT-PARTICIPANT:mailto:a", "no-colon-line", ";:",
                 "DTSTART;TZID=Europe/Berlin,Europe/Paris:20240101T000000", "EXDATE:20240101,bad", "RDATE;VALUE=PERIOD:20240101T000000Z/x"]
    out = []
    for bad in bad_lines:
        good = "BEGIN:VCALENDAR\r\nVERSION:2.0\r\nBEGIN:VEVENT\r\nUID:1\r\nSUMMARY:keep\r\n%sCOMMENT:also\r\nBEGIN:VALARM\r\nACTION:DISPLAY\r\nEND:VALARM\r\nEND:VEVENT\r\nEND:VCALENDAR\r\n"
        try:
            ref = icalendar.Calendar.from_ical(good % "")
            cal = icalendar.Calendar.from_ical(good % (bad + "\r\n"))
        except Exception as e:  # noqa
            out.append((bad, f"a bad line inside VEVENT makes the parse fail with {type(e).__name__}: {str(e)[:80]}"))
            continue
        ev, rev = cal.walk("VEVENT")[0], ref.walk("VEVENT")[0]
        name = bad.split(":")[0].split(";")[0].upper()
        kept = {k: ev[k] for k in ev if k != name}
        if dict(kept) != dict(rev) and name in ev:
            # the line was accepted after all: fine as long as the rest is unchanged
            pass
        if {k: ev[k] for k in rev} != dict(rev) or len(ev.subcomponents) != len(rev.subcomponents):
            out.append((bad, "other properties / subcomponents changed"))
        elif name not in ev and not ev.errors:
            out.append((bad, "the line was dropped without being recorded in errors"))
        # outside a lenient component the same line is an error
        outside = "BEGIN:VCALENDAR\r\n%s\r\nEND:VCALENDAR\r\n" % bad
        try:
            c2 = icalendar.Calendar.from_ical(outside)
            if name not in ev and name not in c2 and not name.startswith("X-"):
                out.append((bad, "outside a lenient component the bad line is silently dropped"))
        except ValueError:
            pass
        except Exception as e:  # noqa
            out.append((bad, f"outside VEVENT: {type(e).__name__} instead of ValueError"))
        # "outside lenient components": also INSIDE a component that is not lenient itself although an enclosing one is (VALARM, X- and
        # unknown components in a VEVENT), and in non-lenient components at any depth (VTODO > VALARM, VTIMEZONE > STANDARD)
        for nest in (["VEVENT", "VALARM"], ["VEVENT", "X-BOX"], ["VEVENT", "VALARM", "X-DEEP"], ["VTODO"], ["VTODO", "VALARM"], ["VJOURNAL"],
                     ["VFREEBUSY"], ["X-BOX", "VEVENT", "VALARM"]):
            text = "BEGIN:VCALENDAR\r\n" + "".join(f"BEGIN:{n}\r\n" for n in nest) + bad + "\r\n" + "".join(f"END:{n}\r\n" for n in reversed(nest)) + "END:VCALENDAR\r\n"
            try:
                c3 = icalendar.Calendar.from_ical(text)
            except ValueError:
                continue
            except Exception as e:  # noqa
                out.append((bad, f"inside {' > '.join(nest)}: {type(e).__name__} instead of ValueError"))
                continue
            inner = c3
            for n in nest:
                inner = inner.subcomponents[0]
            if name not in inner and not name.startswith("X-") and ":" in bad and name not in c2_names(bad):
                out.append((bad, f"inside the non-lenient {' > '.join(nest)} the bad line is dropped instead of failing the parse with ValueError"))
    return out


def c2_names(bad):
    """names for which the 'bad' line is in fact accepted by a strict component (then nothing is dropped)"""
    import icalendar
    try:
        c = icalendar.Calendar.from_ical("BEGIN:VCALENDAR\r\n%s\r\nEND:VCALENDAR\r\n" % bad)
        return set(c.keys())
    except Exception:  # noqa
        return set()


def classify(msg, text):
    return None


def vtimezone_extremes():
    """VTIMEZONE definitions at the edges of what date arithmetic can represent (fresh TZID each, so that nothing is served from a cache):
    observances in year 1 / 9999 with offsets that push the onset out of range, huge offsets, RRULEs far in the future, empty pieces"""
    out = []
    k = 0
    for dtstart in ("00010101T000000", "00010101T010000", "99991231T235959", "99991231T000000", "19700101T000000"):
        for off_from, off_to in (("+0200", "+0100"), ("-0200", "-0100"), ("+2359", "-2359"), ("-2359", "+2359"), ("+0000", "+0000")):
            for extra in ("", "RRULE:FREQ=YEARLY;BYMONTH=3;BYDAY=-1SU\r\n", "RDATE:99991231T235959\r\n", "RDATE:00010101T000000\r\n"):
                k += 1
                tzid = f"Verif/Extreme-{k}"
                out.append(f"BEGIN:VCALENDAR\r\nBEGIN:VTIMEZONE\r\nTZID:{tzid}\r\nBEGIN:STANDARD\r\nDTSTART:{dtstart}\r\nTZOFFSETFROM:{off_from}\r\n"
                           f"TZOFFSETTO:{off_to}\r\n{extra}END:STANDARD\r\nEND:VTIMEZONE\r\nBEGIN:VEVENT\r\nDTSTART;TZID={tzid}:20240601T100000\r\n"
                           f"END:VEVENT\r\nEND:VCALENDAR\r\n")
    return out


def run(b, tier, seed, findings, known_seen):
    import icalendar
    rnd = random.Random(seed)
    n = 2500 if tier == "quick" else 40000
    maxlen = 4096 if tier == "quick" else 16384
    fails = {}
    cases = 0
    seen = set()
    fclasses = [(f, f["class"]) for f in findings if isinstance(f.get("class"), dict)]
    for prov in ("zoneinfo", "pytz"):
        icalendar.timezone.tzp.use(prov)
        try:
            for i in range(n // 2):
                text = gen(rnd, maxlen)
                multiple, as_bytes, walk = rnd.random() < 0.5, rnd.random() < 0.3, rnd.random() < 0.5
                cases += 1
                msg = one(text, multiple, as_bytes, walk)
                if not msg:
                    continue
                cov = None
                for f, cls in fclasses:
                    if cls.get("provider") in (None, prov) and any(msg.startswith(x) for x in cls.get("exception_prefixes", [])) \
                            and any(t in text for t in cls.get("input_contains", [""])):
                        cov = f
                        break
                if cov:
                    seen.add(cov["id"])
                    continue
                key = (prov, msg.split(":")[0], msg[:50])
                if len(fails) < 15:
                    fails.setdefault(key, {"witness": {"text": text, "multiple": multiple, "bytes": as_bytes, "walk": walk, "provider": prov},
                                           "detail": f"[{prov}] {msg} on {text[:200]!r}"})
            for bad, msg in isolation_cases():
                cases += 1
                fails.setdefault(("iso", bad), {"witness": {"isolation": bad, "provider": prov}, "detail": f"[{prov}] line {bad!r}: {msg}"})
            for line in ('ATTENDEE;MEMBER="mailto:a","mailto:b^n@x":mailto:j@example.com', "ATTENDEE;CN=a^nb:mailto:j@example.com",
                         'ATTENDEE;X-P="^n","^^","^\'":mailto:j@example.com', "SUMMARY;X-P=^n,^n:x", 'ATTENDEE;DELEGATED-TO="a\\n","b":mailto:j@example.com'):
                cases += 1
                text = "BEGIN:VCALENDAR\r\nBEGIN:VEVENT\r\n" + line + "\r\nEND:VEVENT\r\nBEGIN:VTODO\r\n" + line + "\r\nEND:VTODO\r\nEND:VCALENDAR\r\n"
                msg = one(text, False, False, True)
                if msg and len(fails) < 18:
                    fails.setdefault((prov, "caret", msg[:40]), {"witness": {"text": text, "multiple": False, "bytes": False, "walk": True, "provider": prov},
                                                               "detail": f"[{prov}] {msg} on {text[:160]!r}"})
            for text in vtimezone_extremes():
                cases += 1
                text = text.replace("Verif/Extreme-", f"Verif/{prov}-{seed}-Extreme-")
                msg = one(text, False, False, True)
                if msg and len(fails) < 18:
                    fails.setdefault((prov, "vtz", msg[:40]), {"witness": {"text": text, "multiple": False, "bytes": False, "walk": True, "provider": prov},
                                                             "detail": f"[{prov}] {msg} on {text[:160]!r}"})
        finally:
            icalendar.timezone.tzp.use_default()
    b.cases = cases
    b.nontrivial = cases
    b.failures = list(fails.values())
    b.samples = [repr(gen(random.Random(1), 300))]
    for f in findings:
        if f["id"] in seen:
            known_seen.append(f"{f['id']} {f['what']}")
    return b


def replay_witness(w):
    import icalendar
    from icalendar import prop, parser
    icalendar.timezone.tzp.use(w.get("provider", "zoneinfo"))
    try:
        if "decoder" in w or "line_function" in w or "tzid" in w or "constructor" in w:
            try:
                if "constructor" in w:
                    cls = getattr(prop, w["constructor"])
                    try:
                        v = cls.from_ical(w["text"])
                    except Exception:  # noqa
                        return None
                    cls(v)
                elif "decoder" in w:
                    getattr(prop, w["decoder"]).from_ical(w["text"])
                elif "tzid" in w:
                    icalendar.timezone.tzp.timezone(w["tzid"])
                elif w["line_function"] == "Contentline.parts":
                    parser.Contentline(w["text"].replace("\n", "")).parts()
                elif w["line_function"] == "Parameters.from_ical":
                    parser.Parameters.from_ical(w["text"])
                else:
                    parser.Contentlines.from_ical(w["text"])
            except ValueError:
                return None
            except Exception as e:  # noqa
                return f"raises {type(e).__name__}: {e}"
            return None
        if "isolation" in w:
            r = [m for bad, m in isolation_cases() if bad == w["isolation"]]
            return "; ".join(r) or None
        return one(w["text"], w["multiple"], w["bytes"], w["walk"])
    finally:
        icalendar.timezone.tzp.use_default()


def decoder_fuzz(call, rnd, n=4000):
    """texts -> first exception other than ValueError raised by call(text)"""
    import itertools
    atoms = TOKENS + ["", " ", "L", "5L", "Z", "T", "/", "P", "-", "+", "1", "99", "000000", "-0000", "00010101T000000", "\ud800",
                      # extremes of the value ranges (timedelta: +-999999999 days, asymmetric; int: unbounded; year 1 / 9999)
                      "-P999999999DT1S", "P999999999DT23H59M59S", "-P999999999D", "P999999999D", "-P999999999DT23H59M59S", "999999999", "DT1S",
                      "-PT86399999913600S", "00010101T000000/-P1D", "99991231T235959/P1D", "99991231T235959Z/PT1S"]
    texts = list(atoms) + [a + b for a, b in itertools.product(atoms[:40], atoms[:40])]
    for _ in range(n):
        texts.append("".join(rnd.choice(atoms) for _ in range(rnd.randint(1, 4))))
    for t in texts:
        try:
            call(t)
        except ValueError:
            pass
        except Exception as e:  # noqa
            return t, f"{type(e).__name__}: {str(e)[:100]}"
    return None


def confirm(oid, bad_classes=None):
    import icalendar
    from icalendar import prop, parser
    rnd = random.Random(0)
    for prov in ("zoneinfo", "pytz"):
        icalendar.timezone.tzp.use(prov)
        try:
            if ".D." in oid:
                cn = oid.split(".D.")[1].split(".")[0]
                cls = getattr(prop, cn, None)
                if cls is None:
                    return None
                calls = [cls.from_ical]
                if cn in ("vDatetime", "vDDDTypes", "vDDDLists", "vPeriod"):
                    for tz in ["Europe/Berlin", "Asia/Tokyo", "x"] + HOSTILE_TZIDS:
                        calls.append(lambda t, tz=tz: cls.from_ical(t, tz))
                    calls.append(lambda t: cls.from_ical(t, ["Europe/Berlin", "Europe/Paris"]))
                for c in calls:
                    r = decoder_fuzz(c, rnd)
                    if r:
                        return {"decoder": cn, "text": r[0], "provider": prov}, f"{cn}.from_ical({r[0]!r}) raises {r[1]} [{prov}]"
            elif ".L." in oid:
                for label, c in (("Contentline.parts", lambda t: parser.Contentline(t.replace("\n", "")).parts()),
                                 ("Parameters.from_ical", parser.Parameters.from_ical), ("Contentlines.from_ical", parser.Contentlines.from_ical)):
                    if label.split(".")[0] in oid:
                        r = decoder_fuzz(c, rnd)
                        if r:
                            return {"line_function": label, "text": r[0], "provider": prov}, f"{label}({r[0]!r}) raises {r[1]}"
            elif ".K." in oid:
                # the call shape of the parse loop: factory(factory.from_ical(text)) for texts the decoder accepts
                cn = oid.split(".K.")[1].split(".")[0]
                cls = getattr(prop, cn, None)
                if cls is None:
                    return None

                def construct(t, cls=cls):
                    try:
                        v = cls.from_ical(t)
                    except Exception:  # noqa  (the decoder's own failures belong to the D obligations)
                        return
                    cls(v)
                r = decoder_fuzz(construct, rnd)
                if r:
                    return {"constructor": cn, "text": r[0], "provider": prov}, f"{cn}({cn}.from_ical({r[0]!r})) raises {r[1]} [{prov}]"
            elif ".T." in oid:
                for t in TOKENS + HOSTILE_TZIDS:
                    try:
                        icalendar.timezone.tzp.timezone(t)
                    except Exception as e:  # noqa
                        return {"tzid": t, "provider": prov}, f"tzp.timezone({t!r}) raises {type(e).__name__} [{prov}]"
            else:
                from vc.common import Bounded, findings_for
                b = Bounded("s", "", "")
                run(b, "quick", 0, findings_for("C04"), [])
                for f in b.failures:
                    return f["witness"], f["detail"]
                return None
        finally:
            icalendar.timezone.tzp.use_default()
    return None
