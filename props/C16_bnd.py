"""Bounded stand-in for C16 (labelled bounded): real Event/Todo objects driven through edit histories and parsed
states, compared with an independent oracle of the RFC rules.  Also the native concretiser for refuted obligations."""
import itertools
import random
from datetime import date, datetime, timedelta, timezone

BOUND = {
    "quick": "all histories of <= 3 operations (setters/deleters of start, end, DTSTART, DTEND/DUE, DURATION; add) over 7 values "
             "on Event and Todo, plus 150 parsed property combinations",
    "thorough": "all histories of <= 4 operations over 7 values on Event and Todo, 2000 seeded histories of length 5..12, "
                "plus 600 parsed property combinations",
}
END = {"Event": "DTEND", "Todo": "DUE"}


def values():
    from zoneinfo import ZoneInfo
    return [date(2024, 3, 30), datetime(2024, 3, 30, 12, 0), datetime(2024, 3, 30, 12, 0, tzinfo=timezone.utc),
            datetime(2024, 3, 30, 12, 0, tzinfo=ZoneInfo("Europe/Berlin")), timedelta(days=1), timedelta(hours=5), timedelta(0), None,
            # whole days PLUS a time of day (still a dur-time for a DATE start), a negative duration
            timedelta(days=1, hours=6), -timedelta(hours=5)]


def ops_for(cls):
    end = END[cls]
    vals = values()
    out = []
    for attr in ("start", "end", "DTSTART", end):
        for v in vals:
            if isinstance(v, timedelta):
                continue
            out.append(("set", attr, v))
    for v in vals:
        if isinstance(v, timedelta) or v is None:
            out.append(("set", "DURATION", v))
    for attr in ("DTSTART", end, "DURATION"):
        out.append(("del", attr))
    for name in ("DTSTART", end, "DURATION"):
        for v in vals:
            if v is None:
                continue
            if name == "DURATION" and not isinstance(v, timedelta):
                continue
            if name != "DURATION" and isinstance(v, timedelta):
                continue
            out.append(("add", name, v))
    return out


def raw(c, name):
    """-> ('absent',) | ('list',) | ('value', python value) | ('bad', obj)"""
    if name not in c:
        return ("absent",)
    v = c[name]
    if isinstance(v, list):
        return ("list",)
    for a in ("dt", "td"):
        if hasattr(v, a):
            return ("value", getattr(v, a))
    return ("value", v)


def is_d(x):
    return isinstance(x, date) and not isinstance(x, datetime)


def oracle(c, cls):
    """Independent statement of the RFC rules: -> dict(start=..., end=..., duration=...) each ('ok', v) | ('err', kind)"""
    end = END[cls]
    s, e, d = raw(c, "DTSTART"), raw(c, end), raw(c, "DURATION")
    res = {}
    bad = None
    for name, x, types in (("DTSTART", s, (date,)), (end, e, (date,)), ("DURATION", d, (timedelta,))):
        if x[0] == "list" or (x[0] == "value" and not isinstance(x[1], types)):
            bad = bad or "InvalidCalendar"
    if bad is None and e[0] == "value" and d[0] == "value":
        bad = "InvalidCalendar"
    if bad is None and s[0] == "value" and d[0] == "value" and is_d(s[1]) and d[1].seconds != 0:
        bad = "InvalidCalendar"
    if bad is None and s[0] == "value" and e[0] == "value" and is_d(s[1]) != is_d(e[1]):
        bad = "InvalidCalendar"
    if bad is None and s[0] == "value" and e[0] == "value" and isinstance(s[1], datetime) and isinstance(e[1], datetime) \
            and (s[1].utcoffset() is None) != (e[1].utcoffset() is None):
        bad = "InvalidCalendar"      # RFC 5545: DTEND/DUE is local time iff DTSTART is
    if bad:
        return {k: ("err", bad) for k in ("start", "end", "duration")}
    if s[0] == "absent":
        res["start"] = ("err", "IncompleteComponent")
    else:
        res["start"] = ("ok", s[1])
    if e[0] == "value":
        res["end"] = ("ok", e[1])
    elif d[0] == "value":
        res["end"] = ("ok", s[1] + d[1]) if s[0] == "value" else ("err", "IncompleteComponent")
    elif s[0] == "value":
        res["end"] = ("ok", s[1] + timedelta(days=1) if is_d(s[1]) else s[1])
    else:
        res["end"] = ("err", "IncompleteComponent")
    if res["start"][0] == "ok" and res["end"][0] == "ok":
        a, b = res["end"][1], res["start"][1]
        if isinstance(a, datetime) and isinstance(b, datetime) and (a.tzinfo is None) != (b.tzinfo is None):
            res["duration"] = ("finding", "naive-aware-mix")
        else:
            res["duration"] = ("ok", a - b)
    else:
        res["duration"] = ("err", "IncompleteComponent") if "IncompleteComponent" in (res["start"][1], res["end"][1]) else ("err", "InvalidCalendar")
    return res


def observe(c, attr):
    from icalendar.cal import InvalidCalendar, IncompleteComponent
    try:
        return ("ok", getattr(c, attr))
    except InvalidCalendar:
        return ("err", "InvalidCalendar")
    except IncompleteComponent:
        return ("err", "IncompleteComponent")
    except Exception as ex:  # noqa
        return ("exc", type(ex).__name__)


def check_state(c, cls, setters_only):
    """-> list of (kind, message)"""
    out = []
    end = END[cls]
    if setters_only and end in c and "DURATION" in c:
        out.append(("excl", f"both {end} and DURATION present after a setter/deleter-only history"))
    exp = oracle(c, cls)
    for attr in ("start", "end", "duration"):
        got = observe(c, attr)
        want = exp[attr]
        if want[0] == "finding":
            if got[0] == "exc":
                out.append(("finding:" + want[1], f".{attr} raises {got[1]}"))
            continue
        if got[0] == "exc":
            out.append((attr + ".raises", f".{attr} raises undocumented {got[1]} (expected {want})"))
        elif want[0] == "err":
            if got[0] != "err":
                out.append((attr + ".value", f".{attr} = {got[1]!r} but the state is forbidden/incomplete ({want[1]})"))
        elif got != want:
            out.append((attr + ".value", f".{attr} = {got!r}, RFC rules give {want!r}"))
    return out


def apply_op(c, op):
    try:
        if op[0] == "set":
            setattr(c, op[1], op[2])
        elif op[0] == "del":
            delattr(c, op[1])
        else:
            c.add(op[1], op[2])
    except (TypeError, ValueError):
        # documented setter errors (wrong argument type for this attribute)
        pass


def run_history(cls, hist):
    import icalendar
    c = getattr(icalendar, cls)()
    setters_only = True
    for op in hist:
        if op[0] == "add":
            setters_only = False
        apply_op(c, op)
        res = check_state(c, cls, setters_only)
        if res:
            return res
    return []


PARSE_LINES = {
    "DTSTART": ["DTSTART;VALUE=DATE:20240330", "DTSTART:20240330T120000", "DTSTART:20240330T120000Z", "DTSTART:PT1H", "DTSTART:120000",
                "DTSTART;TZID=Europe/Berlin:20240330T120000",
                "DTSTART:20240330", "DTSTART;X-NOTE=DATE:20240330", "DTSTART;VALUE=DATE;X-A=1:20240330T120000"],
    "END": ["{E};VALUE=DATE:20240331", "{E}:20240330T130000", "{E}:20240330T130000Z", "{E}:P1D", "{E}:20240402"],
    "DURATION": ["DURATION:P1D", "DURATION:PT5H", "DURATION:PT0S", "DURATION:20240102", "DURATION:20240101T000000/PT1H", "DURATION:120000"],
}


def parsed_states(cls, limit, rnd):
    import icalendar
    kind = {"Event": "VEVENT", "Todo": "VTODO"}[cls]
    combos = []
    pools = [[None] + PARSE_LINES["DTSTART"], [None] + [x.format(E=END[cls]) for x in PARSE_LINES["END"]], [None] + PARSE_LINES["DURATION"],
             [None] + PARSE_LINES["DURATION"][:2], [None] + PARSE_LINES["DTSTART"][:2]]
    for combo in itertools.product(*pools):
        combos.append([x for x in combo if x])
    rnd.shuffle(combos)
    # every state with at most two of the lines is always explored (the type of a value is what was parsed, whatever the VALUE parameter says)
    combos = [c for c in combos if len(c) <= 2] + [c for c in combos if len(c) > 2][:limit]
    for lines in combos:
        text = f"BEGIN:{kind}\r\n" + "".join(l + "\r\n" for l in lines) + f"END:{kind}\r\n"
        try:
            c = getattr(icalendar, cls).from_ical(text)
        except ValueError:
            continue
        yield text, c


def run(b, tier, seed, findings):
    rnd = random.Random(seed)
    depth = 3 if tier == "quick" else 4
    fails = {}
    known = set()
    cases = 0
    distinct = set()
    known_classes = {f["class"]: f for f in findings if f.get("class")}

    def record(kind, msg, witness):
        if kind.startswith("finding:"):
            f = known_classes.get(kind.split(":", 1)[1])
            if f:
                known.add(f"{f['id']} {f['what']}")
                return
            kind = kind  # not listed: a violation
        if len(fails) < 12:
            fails.setdefault(kind + witness.get("cls", ""), {"witness": witness, "detail": msg, "kind": kind})
    for cls in ("Event", "Todo"):
        ops = ops_for(cls)
        if tier == "quick":
            # depth 3 over the full operation set is ~250k histories; quick uses depth 2 exhaustively + depth 3 sampled
            hists = itertools.chain(itertools.product(ops, repeat=1), itertools.product(ops, repeat=2),
                                    (tuple(rnd.choice(ops) for _ in range(3)) for _ in range(3000)))
        else:
            hists = itertools.chain(itertools.product(ops, repeat=1), itertools.product(ops, repeat=2),
                                    (tuple(rnd.choice(ops) for _ in range(rnd.randint(3, 4))) for _ in range(40000)),
                                    (tuple(rnd.choice(ops) for _ in range(rnd.randint(5, 12))) for _ in range(2000)))
        for h in hists:
            cases += 1
            distinct.add((cls,) + tuple((o[0], o[1], type(o[2]).__name__ if len(o) > 2 else "") for o in h))
            for kind, msg in run_history(cls, h):
                record(kind, f"{cls} after {h!r}: {msg}", {"cls": cls, "history": repr(list(h))})
        for label, msg, w in setter_effect_cases(cls):
            cases += 1
            distinct.add(label)
            if msg:
                record("setter.effect", f"{label}: {msg}", w)
        for text, c in parsed_states(cls, 150 if tier == "quick" else 600, rnd):
            cases += 1
            distinct.add((cls, text))
            for kind, msg in check_state(c, cls, False):
                record(kind, f"{cls} parsed from {text!r}: {msg}", {"cls": cls, "text": text})
    b.cases = cases
    b.nontrivial = len(distinct)
    b.failures = list(fails.values())
    b.samples = [repr(ops_for("Event")[5]), PARSE_LINES["DURATION"][3]]
    b.known_seen = sorted(known)
    return b


def setter_effect_cases(cls):
    """Every setter from every initial state built with add() (incl. states with both END and DURATION)."""
    import icalendar
    end = END[cls]
    vals = values()
    dts = [v for v in vals if v is not None and not isinstance(v, timedelta)]
    tds = [v for v in vals if isinstance(v, timedelta)]
    for has_s, has_e, has_d in itertools.product([0, 1], repeat=3):
        for attr in ("start", "end", "DTSTART", end, "DURATION"):
            for v in (tds if attr == "DURATION" else dts[:3]):
                c = getattr(icalendar, cls)()
                if has_s:
                    c.add("DTSTART", dts[1])
                if has_e:
                    c.add(end, dts[1] + timedelta(hours=1))
                if has_d:
                    c.add("DURATION", tds[0])
                before = dict(c)
                setattr(c, attr, v)
                target = {"start": "DTSTART", "end": end}.get(attr, attr)
                msg = None
                got = raw(c, target)
                if got != ("value", v):
                    msg = f"after {attr} = {v!r}: {target} holds {got!r}"
                elif target in (end, "DURATION"):
                    other = "DURATION" if target == end else end
                    if other in c:
                        msg = f"after {attr} = {v!r} on a state with {sorted(before)}: {other} is still present"
                if msg is None:
                    for k in before:
                        if k not in (target, end, "DURATION", "DTEND", "DUE") and (k not in c or c[k] is not before[k]):
                            msg = f"after {attr} = {v!r}: unrelated property {k} changed"
                yield (f"{cls}: initial {sorted(before)}; set {attr} = {v!r}", msg,
                       {"cls": cls, "setter_case": [has_s, has_e, has_d, attr, repr(v)]})


def search_for(oid):
    if ".fset" in oid:
        for cls in ("Event", "Todo"):
            if f".{cls}." not in oid:
                continue
            for label, msg, w in setter_effect_cases(cls):
                if msg:
                    return w, f"{label}: {msg}"
    """Native concretisation for a refuted obligation: first failing case of the bounded domain whose kind matches."""
    from vc.common import Bounded, findings_for
    b = Bounded("search", "", "")
    run(b, "quick", 0, findings_for("C16"))
    want = None
    for key in ("duration", "end", "start", "excl"):
        if f".{key}." in oid or oid.endswith(key):
            want = key
            break
    for f in b.failures:
        if want is None or f["kind"].startswith(want):
            return f["witness"], f["detail"]
    if b.failures:
        f = b.failures[0]
        return f["witness"], f["detail"]
    return None


def replay_witness(w):
    import icalendar
    from datetime import date, datetime, timedelta, timezone  # noqa (eval)
    import zoneinfo  # noqa
    cls = w["cls"]
    if "setter_case" in w:
        for label, msg, w2 in setter_effect_cases(cls):
            if w2["setter_case"] == w["setter_case"]:
                return f"{label}: {msg}" if msg else None
        return None
    if "history" in w:
        res = run_history(cls, eval(w["history"], {"datetime": __import__("datetime"), "date": date, "timedelta": timedelta,
                                                  "zoneinfo": zoneinfo, **{k: getattr(__import__("datetime"), k) for k in ("date", "timedelta", "timezone")}}))
    else:
        c = getattr(icalendar, cls).from_ical(w["text"])
        res = check_state(c, cls, False)
    res = [r for r in res if not r[0].startswith("finding:")]
    return "; ".join(m for _, m in res) if res else None
