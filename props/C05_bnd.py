"""Bounded stand-in for C05 (labelled bounded): tree-level structure after Component.to_ical -> from_ical on real objects."""
import itertools
import random

BOUND = {
    "quick": "Calendar > Event with one property of kind text / uri / cal-address / categories / x-inline whose value (and one parameter "
             "value) ranges over all strings of length <= 3 over 13 delimiter characters plus structure tokens (BEGIN:VEVENT, END:VEVENT, "
             "X:1, CRLF); 1500 seeded longer strings; parameter values of C08's stand-in (length <= 3 over 12 characters incl. ^ and ') through a "
             "content line and an Event",
    "thorough": "strings of length <= 4 and 20000 seeded strings",
}
ALPHA = ["\\", ";", ":", ",", '"', "%", "2", "C", "3", "A", "\r", "\n", " "]
TOKENS = ["BEGIN:VEVENT", "END:VEVENT", "\r\nX:1", "\nEND:VCALENDAR\nBEGIN:VCALENDAR", ";X=1:", "\\n", "a"]
PROPS = [("SUMMARY", "text"), ("URL", "uri"), ("ATTENDEE", "cal-address"), ("CATEGORIES", "cat"), ("X-THING", "text")]


# Python-level substrings of the listed finding C07-F2 / C05-F1 (double unescaping, %XX placeholders): values containing them are known to change
_TEXT_KNOWN = ["\\\\", "\\n", "\\N", "\\;", "\\,", "%2C", "%3A", "%3B", "%5C", "%2c", "%3a", "%3b", "%5c"]


def structure(comp):
    """names only: (component name, sorted [(property name, count, [param names per value])], [sub structures])"""
    props = []
    for k in comp.keys():
        v = comp[k]
        vs = v if isinstance(v, list) else [v]
        props.append((k, len(vs), [sorted(getattr(x, "params", {}).keys()) for x in vs]))
    return (comp.name, sorted(props), [structure(s) for s in comp.subcomponents])


def build(prop, kind, value, pvalue):
    from icalendar import Calendar, Event
    cal = Calendar()
    cal.add("version", "2.0")
    ev = Event()
    ev.add("uid", "1")
    params = {"X-P": pvalue} if pvalue is not None else None
    if kind == "cat":
        ev.add(prop, [value, "z"], parameters=params)
    else:
        ev.add(prop, value, parameters=params)
    cal.add_component(ev)
    return cal


def check(prop, kind, value, pvalue):
    """-> message or None.  Allowed: refusal at serialisation; the property alone rejected on read; exact structure."""
    from icalendar import Calendar
    try:
        cal = build(prop, kind, value, pvalue)
    except Exception:
        return None                  # refused when building
    want = structure(cal)
    try:
        data = cal.to_ical()
    except Exception:
        return None                  # serialisation refused
    try:
        back = Calendar.from_ical(data)
    except Exception as e:  # noqa
        return f"the whole parse fails: {type(e).__name__}: {str(e)[:80]}"
    got = structure(back)
    if got == want:
        # "value text that decodes to the same value": TEXT values outside the listed classes of C07-F2 come back exactly
        if kind == "text" and isinstance(value, str) and not any(x in value for x in _TEXT_KNOWN):
            try:
                bv = back.subcomponents[0].get(prop)
                bv = bv[0] if isinstance(bv, list) else bv
                if bv is not None and str(bv) != value.replace("\r\n", "\n"):
                    return f"the value read back is {str(bv)!r}, sent {value!r}"
            except Exception as e:  # noqa
                return f"reading the value back raises {type(e).__name__}: {e}"
        return None
    # the offending property alone may be rejected (recorded in the component's errors)
    ev_want = want[2][0]
    try:
        ev_got = got[2][0]
    except IndexError:
        return f"structure changed: {got!r}"
    if got[0] == want[0] and got[1] == want[1] and len(got[2]) == 1 and ev_got[0] == ev_want[0] and ev_got[2] == ev_want[2]:
        rest_want = [p for p in ev_want[1] if p[0] != prop]
        if ev_got[1] == rest_want and back.subcomponents[0].errors:
            return None
    return f"structure read back {got!r}, intended {want!r}"


def gen(tier, seed):
    rnd = random.Random(seed)
    L = 3 if tier == "quick" else 4
    strings = ["".join(t) for n in range(0, L + 1) for t in itertools.product(ALPHA, repeat=n)]
    if tier == "quick":
        rnd.shuffle(strings)
        strings = strings[:1500]
    strings += TOKENS
    for _ in range(1500 if tier == "quick" else 20000):
        strings.append("".join(rnd.choice(ALPHA + TOKENS) for _ in range(rnd.randint(2, 8))))
    ptokens = ['"', '"a"', '"a";X-INJ="b"', '"Bob";X-INJECTED="CHAIR"', 'a;X-INJ=1', 'a:b', '"a":X', "a\\", 'a",b="c']
    for s in strings:
        for prop, kind in PROPS:
            yield prop, kind, s, None
        yield "ATTENDEE", "cal-address", "mailto:a@example.com", s
        yield "SUMMARY", "text", s[::-1], s
    # long values: every delimiter / escape character at every offset around the first and second fold point (a character of the value
    # next to a fold must not be taken for part of the fold)
    for ch in sorted(set(ALPHA) | {"\r", "\t", " "}):
        for k in list(range(50, 80)) + list(range(126, 152)):
            yield "SUMMARY", "text", "x" * k + ch + "y" * 12, None
    for s in strings[:600] + ptokens:
        for t in ptokens + [None]:
            pv = s if t is None else t + s
            yield "ATTENDEE", "cal-address", "mailto:a@example.com", [pv]
            yield "ATTENDEE", "cal-address", "mailto:a@example.com", [pv, "b"]
            yield "ATTENDEE", "cal-address", "mailto:a@example.com;X=1:rest", pv


def run(b, tier, seed, findings, known_seen):
    fails = {}
    n = 0
    for prop, kind, v, pv in gen(tier, seed):
        n += 1
        msg = check(prop, kind, v, pv)
        if msg and len(fails) < 12:
            fails.setdefault((prop, pv is None, msg.split(":")[0]), {"witness": {"prop": prop, "kind": kind, "value": v, "pvalue": pv},
                                                                     "detail": f"{prop}={v!r} param={pv!r}: {msg}"})
    # "the same parameters": the content-line and event routes of C08's stand-in (real Parameters inside a Contentline / an Event) on
    # parameter values over C08's alphabet (, ; : = ' ^ space backslash % 2 C a) plus n; the class of C05-F2 is the known finding
    from props import C08_bnd
    rs = C08_bnd.routes()
    f2 = [f for f in findings if f["id"] == "C05-F2"]
    seen_f2 = False
    extra = [{"CN": a + b + c} for a in ("", "x", "^") for b in ("^", "^^", "'", "n") for c in ("n", "'", "^", "a", "")]
    for params in list(C08_bnd.gen(tier, seed)) + extra:
        for route in ("line", "event"):
            n += 1
            msg = C08_bnd.check(rs[route], params)
            if not msg:
                continue
            if f2 and C08_bnd.in_class(f2[0]["class"], params):
                seen_f2 = True
                continue
            if len(fails) < 14:
                fails.setdefault(("params", route), {"witness": {"route": route, "params": repr(params)}, "detail": f"{route}: parameters {params!r} read back differently: {msg}"})
    if seen_f2:
        known_seen.append(f"{f2[0]['id']} {f2[0]['what']}")
    b.cases = n
    b.nontrivial = n
    b.failures = list(fails.values())
    b.samples = ["SUMMARY='BEGIN:VEVENT'", "ATTENDEE;X-P='\\\\'"]
    return b


def replay_witness(w):
    if "route" in w:
        from props import C08_bnd
        return C08_bnd.replay_witness(w)
    return check(w["prop"], w["kind"], w["value"], w["pvalue"])
