"""C14 -- alarm times = anchor + TRIGGER + k*DURATION, k = 0..REPEAT (RFC 5545 / RFC 9074).

Functions under contract (real bodies from alarms.py / cal.py, every run):
  Alarms._add, Alarms._repeat (generator), Alarms.add_alarm, Alarms._alarm_time, Alarms._get_start_alarm_times,
  _get_end_alarm_times, _get_absolute_alarm_times, Alarms.times, AlarmTime.__init__, Alarm.TRIGGER (descriptor contract),
  Alarm.TRIGGER_RELATED, Alarm.REPEAT, Alarm.DURATION (descriptor contract), tools.is_date.

Sequences of alarm times have symbolic length (REPEAT is an unconstrained integer): they are segment lists
('one', x) / ('range', lo, hi, i, x[i]) produced by the uniform-body loop rule of vc/pyvc/seqs.py.
Statement-level postconditions
  _add(dt, td)            = dt + td, a date stays a date iff td has no time-of-day part, otherwise local midnight + td
  _repeat(first, alarm)   = [first] ++ [_add(first, DURATION*i) | i = 1..REPEAT]  when REPEAT and DURATION are both set
                            (non-zero), else [first]
  add_alarm               absolute iff TRIGGER is a date-time, start iff RELATED is START (default), else end;
                            no TRIGGER -> nothing added
  _get_*_alarm_times      concatenation over the alarms (in order) of  _repeat(anchor + TRIGGER, alarm)  /  _repeat(TRIGGER, alarm)
                            each wrapped in an AlarmTime carrying that alarm; ComponentStartMissing / ComponentEndMissing
                            exactly when the anchor is missing and such an alarm exists
  times                   = end times ++ start times ++ absolute times
  frames                  none of the computing functions writes to the Alarms object (this is what lets the comprehension
                            rule generalise from lists of length 0, 1, 2 to every length)
"""
from __future__ import annotations

import time

import z3

from contracts import comp, dt
from vc import common
from vc.common import Obligation, Bounded, PROVED, REFUTED, UNDECIDED, ERROR
from vc.pyvc import compare, source, seqs
from vc.pyvc import engine as E
from vc.pyvc.discharge import TIMEOUT_MS, check_vc

LEVEL = "proof"
PID = "C14"
midnight = z3.Function("midnight", E.Ref, E.Ref)
norm = z3.Function("normalize_pytz", E.Ref, E.Ref)
DAY = dt.DAY


def params_view(r):
    """the Parameters map of a stored value object, as functions of the object reference (congruent under equality)"""
    A, R = z3.ArraySort(E.S, E.OptRef), z3.ArraySort(E.S, E.I)
    return E.MapObj(z3.Function("params_arr", E.Ref, A)(r), z3.Function("params_rank", E.Ref, R)(r),
                    z3.Function("params_ctr", E.Ref, E.I)(r), cls="Parameters")


def make_engine():
    lat = E.Lattice()
    for m in ("caselessdict", "parser", "prop", "cal", "alarms"):
        lat.load_module(m)
    lat.add("TZP", ["object"])
    eng = seqs.SeqEngine(lat, {})
    classes = comp.Classes("cal")
    dt.register(eng.contracts)
    comp.install(eng, classes)
    tools = source.module("tools")
    eng.globals["is_date"] = E.VFunc(tools.functions["is_date"], eng.globals, None, "is_date")
    eng.globals["tzp"] = E.VClass("TZP")
    eng.contracts["new:AlarmTime"] = comp.constructor(classes, "AlarmTime")
    eng.attr_classes["tzinfo"] = {"datetime", "time"}
    eng.noattr_classes |= {"date", "timedelta"}
    eng.noattr_classes -= {"datetime"}

    def to_datetime(engine, st, args, kw):
        v = engine.unbox_known(args[0], st)
        out = []
        for s, isd in engine.split(st, dt.is_date_only(engine, v.z)):
            if isd:
                r = midnight(v.z)
                s.assume(engine.lat.isinstance_z(r, ["datetime"]), z3.Not(dt.aware(r)), E.truthy(r), dt.inst(r) == dt.inst(v.z),
                         E.cls_of(r) == engine.lat.id("datetime"))
                out.append((s, E.VRef(r)))
            else:
                out.append((s, v))
        return out

    def normalize_pytz(engine, st, args, kw):
        v = engine.unbox_known(args[0], st)
        r = norm(v.z)
        st.assume(E.cls_of(r) == E.cls_of(v.z), dt.aware(r) == dt.aware(v.z), dt.inst(r) == dt.inst(v.z), E.truthy(r))
        return [(st, E.VRef(r))]
    E.BUILTINS["to_datetime"] = to_datetime
    E.BUILTINS["normalize_pytz"] = normalize_pytz
    eng.globals["to_datetime"] = E.VBuiltin("to_datetime")
    eng.globals["normalize_pytz"] = E.VBuiltin("normalize_pytz")

    def attr_params(engine, st, v):
        """value.params of a stored property value: its Parameters map (a caseless view attached to the object)"""
        v = engine.unbox_known(v, st)
        if not isinstance(v, E.VRef):
            return None
        m = params_view(v.z)
        st.assume(E.map_wf(m))
        return [(st, E.VMap(st.alloc(m)))]       # read-only use: the view is a function of the object
    eng.contracts["attr:params"] = attr_params

    def ref_upper(engine, st, args, kw):
        """str.upper on a stored parameter value (a str by the type invariant of Parameters; AttributeError otherwise)"""
        r = args[0].z
        out = []
        for s, ok in engine.split(st, engine.lat.isinstance_z(r, ["str"])):
            out.append((s, E.VStr(E.up(E.str_of(r))) if ok else E.VExc("AttributeError", "upper")))
        return out
    eng.contracts["ref.upper"] = ref_upper
    return eng, classes


# ---------------------------------------------------------------------------------------------------
# symbolic alarms and the statement-level specification

class SymAlarm:
    def __init__(self, eng, st, tag):
        self.tag = tag
        self.m = E.MapObj.fresh(f"alarm{tag}", cls="Alarm")
        self.addr = st.alloc(self.m)
        self.v = E.VMap(self.addr)
        L = eng.lat
        m = self.m
        st.assume(E.map_wf(m))
        tr = E.OptRef.val(m.arr[z3.StringVal("TRIGGER")])
        self.trig_obj = tr
        self.trig = eng.attr_z(tr, "dt")
        self.has_trig = E.map_present(m, z3.StringVal("TRIGGER"))
        rp = E.OptRef.val(m.arr[z3.StringVal("REPEAT")])
        self.R = z3.If(E.map_present(m, z3.StringVal("REPEAT")), E.int_of(rp), 0)
        du = E.OptRef.val(m.arr[z3.StringVal("DURATION")])
        self.has_dur = E.map_present(m, z3.StringVal("DURATION"))
        self.D = E.td_us(z3.If(L.isinstance_z(du, ["vDDDTypes"]), eng.attr_z(du, "dt"), eng.attr_z(du, "td")))
        # type invariant of a VALARM as produced by add / parse / the setters (the statement's quantifier)
        st.assume(
            z3.Implies(self.has_trig, z3.And(E.cls_of(tr) == L.id("vDDDTypes"), eng.has_attr_z(tr, "dt"),
                                             z3.Or(z3.And(L.isinstance_z(self.trig, ["datetime"]), dt.aware(self.trig)),
                                                   L.isinstance_z(self.trig, ["timedelta"])), E.truthy(tr))),
            z3.Implies(E.map_present(params_view(tr), z3.StringVal("RELATED")),
                       L.isinstance_z(E.OptRef.val(params_view(tr).arr[z3.StringVal("RELATED")]), ["str"])),
            z3.Implies(E.map_present(m, z3.StringVal("REPEAT")), L.isinstance_z(rp, ["int"])),
            z3.Implies(self.has_dur, z3.And(z3.Or(E.cls_of(du) == L.id("vDDDTypes"), E.cls_of(du) == L.id("vDuration")),
                                            eng.has_attr_z(du, "dt"), eng.has_attr_z(du, "td"),
                                            L.isinstance_z(eng.attr_z(du, "dt"), ["timedelta"]),
                                            L.isinstance_z(eng.attr_z(du, "td"), ["timedelta"]))))

    @staticmethod
    def of(eng, st, alarm_v):
        a = SymAlarm.__new__(SymAlarm)
        a.addr, a.v = alarm_v.addr, alarm_v
        a.m = m = st.heap[alarm_v.addr]
        L = eng.lat
        tr = E.OptRef.val(m.arr[z3.StringVal("TRIGGER")])
        a.trig_obj, a.trig, a.has_trig = tr, eng.attr_z(tr, "dt"), E.map_present(m, z3.StringVal("TRIGGER"))
        rp = E.OptRef.val(m.arr[z3.StringVal("REPEAT")])
        a.R = z3.If(E.map_present(m, z3.StringVal("REPEAT")), E.int_of(rp), 0)
        du = E.OptRef.val(m.arr[z3.StringVal("DURATION")])
        a.has_dur = E.map_present(m, z3.StringVal("DURATION"))
        a.D = E.td_us(z3.If(L.isinstance_z(du, ["vDDDTypes"]), eng.attr_z(du, "dt"), eng.attr_z(du, "td")))
        return a

    def related_is_start(self, eng, st):
        """RELATED parameter of the TRIGGER value: START unless the parameter is present and different"""
        pm = params_view(self.trig_obj)
        rel = E.OptRef.val(pm.arr[z3.StringVal("RELATED")])
        return z3.Or(z3.Not(E.map_present(pm, z3.StringVal("RELATED"))),
                     z3.And(eng.lat.isinstance_z(rel, ["str"]), E.up(E.str_of(rel)) == z3.StringVal("START")))

    def is_absolute(self, eng):
        return eng.lat.isinstance_z(self.trig, ["date"])


def add_spec(eng, anchor, us):
    """the statement's `anchor + delta` (dates stay dates iff the delta has no time-of-day part)"""
    d = dt.is_date_only(eng, anchor)
    secs = E.floordivmod(E.floordivmod(us, z3.IntVal(DAY))[1], z3.IntVal(10 ** 6))[0]
    return z3.If(z3.And(d, secs == 0), dt.dt_add(anchor, us), norm(dt.dt_add(z3.If(d, midnight(anchor), anchor), us)))


def repeat_spec(eng, first, a: SymAlarm, ivar):
    """segments of the statement: first, then REPEAT further times spaced by DURATION when both are present"""
    both = z3.And(a.R != 0, a.has_dur, a.D != 0)
    return both, [("one", first)], [("one", first), ("range", z3.IntVal(1), a.R + 1, ivar, add_spec(eng, first, a.D * ivar))]


def alarms_state(eng, n_start=0, n_end=0, n_abs=0, start_present=True, end_present=True):
    st = E.State()
    alarms = {"start": [SymAlarm(eng, st, f"S{i}") for i in range(n_start)],
              "end": [SymAlarm(eng, st, f"E{i}") for i in range(n_end)],
              "abs": [SymAlarm(eng, st, f"A{i}") for i in range(n_abs)]}
    S, En = z3.Const("anchor_start", E.Ref), z3.Const("anchor_end", E.Ref)
    L = eng.lat
    for r in (S, En):
        st.assume(L.isinstance_z(r, ["date"]), E.truthy(r), r != E.NONE,
                  z3.Implies(z3.Not(L.isinstance_z(r, ["datetime"])), z3.Not(dt.aware(r))))
    fields = {"_absolute_alarms": E.VList(st.alloc(E.ListObj([a.v for a in alarms["abs"]]))),
              "_start_alarms": E.VList(st.alloc(E.ListObj([a.v for a in alarms["start"]]))),
              "_end_alarms": E.VList(st.alloc(E.ListObj([a.v for a in alarms["end"]]))),
              "_start": E.VRef(S) if start_present else E.VNone(), "_end": E.VRef(En) if end_present else E.VNone(),
              "_parent": E.VNone(), "_last_ack": E.VNone(), "_snooze_until": E.VNone(), "_local_tzinfo": E.VNone()}
    a_self = st.alloc(E.HeapObj("Alarms", fields))
    # the lists hold alarms as add_alarm classified them
    for a in alarms["start"] + alarms["end"]:
        st.assume(a.has_trig, L.isinstance_z(a.trig, ["timedelta"]))
    for a in alarms["abs"]:
        st.assume(a.has_trig, L.isinstance_z(a.trig, ["datetime"]), dt.aware(a.trig))
    return st, a_self, alarms, S, En


def install_callee_contracts(eng, which):
    """Callers see Alarms._add / _repeat / _alarm_time only through the contracts proved for them below."""
    def c_add(engine, st, args, kw):
        selfv, d, td = args[0], engine.unbox_known(args[1], st), engine.unbox_known(args[2], st)
        us = td.us if isinstance(td, E.VTd) else E.td_us(td.z)
        r = add_spec(engine, d.z, us)
        L = engine.lat
        st.assume(L.isinstance_z(r, ["date"]), E.truthy(r), r != E.NONE,
                  z3.Implies(z3.Not(L.isinstance_z(r, ["datetime"])), z3.Not(dt.aware(r))),
                  z3.Implies(L.isinstance_z(d.z, ["datetime"]), z3.And(L.isinstance_z(r, ["datetime"]), dt.aware(r) == dt.aware(d.z))))
        return [(st, E.VRef(r))]

    def c_repeat(engine, st, args, kw):
        selfv, first, alarm = args
        a = SymAlarm.of(engine, st, alarm)
        iv = E.fresh("k", E.I)
        both, short, long_ = repeat_spec(engine, engine.box(first, st), a, iv)
        out = []
        for s, b in engine.split(st, both):
            segs = long_ if b else short
            out.append((s, seqs.VSegList([(x[0], E.VRef(x[1])) if x[0] == "one" else (x[0], x[1], x[2], x[3], E.VRef(x[4])) for x in segs])))
        return out

    def c_alarm_time(engine, st, args, kw):
        selfv, alarm, trigger = args
        f = st.heap[selfv.addr].fields
        if not isinstance(f.get("_local_tzinfo"), E.VNone):
            raise E.Undecided("_alarm_time contract is stated for an unset local time zone")
        addr = st.alloc(E.HeapObj("AlarmTime", {"_alarm": alarm, "_parent": f["_parent"], "_trigger": trigger,
                                                "_last_ack": f["_last_ack"], "_snooze_until": f["_snooze_until"]}))
        return [(st, E.VObj(addr))]
    table = {"_add": c_add, "_repeat": c_repeat, "_alarm_time": c_alarm_time}
    for k in list(eng.contracts):
        if k in ("Alarms._add", "Alarms._repeat", "Alarms._alarm_time"):
            del eng.contracts[k]
    for n in which:
        eng.contracts["Alarms." + n] = table[n]


def member_fn(classes, eng, cls, name):
    d = classes.member(eng.lat, cls, name)
    if d is None:
        return None
    return d.fget if d.kind == "property_def" else getattr(d, "node", None)


def no_writes(pa, a_self):
    return z3.BoolVal(not any(addr == a_self for addr, _ in pa.state.ghost.get("writes", [])))


def obligations(eng, classes, tier):
    tmo = TIMEOUT_MS[tier]
    obs = []
    fn = {n: member_fn(classes, eng, "Alarms", n) for n in ("_add", "_repeat", "add_alarm", "_get_start_alarm_times",
                                                           "_get_end_alarm_times", "_get_absolute_alarm_times", "times", "_alarm_time")}
    missing = [n for n, v in fn.items() if v is None]
    for n in missing:
        obs.append(Obligation(f"{PID}.Alarms.{n}", f"alarms:Alarms.{n}", "z3", UNDECIDED, detail="function not found"))
    if missing:
        return obs
    L = eng.lat
    install_callee_contracts(eng, [])
    # ---- _add
    st, a_self, _, S, En = alarms_state(eng)
    td = z3.Int("td_us")
    paths = eng.run(fn["_add"], {"self": E.VObj(a_self), "dt": E.VRef(S), "td": E.VTd(td)}, st)
    terms = {"td_us": td, "anchor is date": dt.is_date_only(eng, S)}
    obs.append(compare.ensures(eng, f"{PID}.Alarms._add.anchor_plus_delta", "alarms:Alarms._add", source.lines_of(fn["_add"]), paths,
                               lambda pa: eng.box(pa.value, pa.state) == add_spec(eng, S, td), tmo, terms))
    obs.append(compare.raises_only(eng, f"{PID}.Alarms._add.raises_nothing", "alarms:Alarms._add", source.lines_of(fn["_add"]), paths, [], tmo, terms))
    obs.append(compare.ensures(eng, f"{PID}.Alarms._add.frame", "alarms:Alarms._add", source.lines_of(fn["_add"]), paths,
                               lambda pa: no_writes(pa, a_self), tmo))
    # ---- _alarm_time (local time zone unset): an AlarmTime carrying the alarm, the trigger and the component-level state
    st, a_self, al, S, En = alarms_state(eng, n_start=1)
    trg = z3.Const("trigger_arg", E.Ref)
    st.assume(L.isinstance_z(trg, ["date"]), E.truthy(trg), z3.Implies(z3.Not(L.isinstance_z(trg, ["datetime"])), z3.Not(dt.aware(trg))))
    paths = eng.run(fn["_alarm_time"], {"self": E.VObj(a_self), "alarm": al["start"][0].v, "trigger": E.VRef(trg)}, st)

    def c_at(pa, al=al, trg=trg):
        x = pa.value
        if not isinstance(x, E.VObj):
            return z3.BoolVal(False)
        f = pa.state.heap[x.addr].fields
        ok = isinstance(f.get("_alarm"), E.VMap) and f["_alarm"].addr == al["start"][0].addr
        return z3.And(z3.BoolVal(ok), eng.box(f["_trigger"], pa.state) == trg)
    obs.append(compare.ensures(eng, f"{PID}.Alarms._alarm_time.wraps_alarm_and_trigger", "alarms:Alarms._alarm_time",
                               source.lines_of(fn["_alarm_time"]), paths, c_at, tmo))
    obs.append(compare.raises_only(eng, f"{PID}.Alarms._alarm_time.raises_nothing", "alarms:Alarms._alarm_time",
                                   source.lines_of(fn["_alarm_time"]), paths, [], tmo))
    # ---- _repeat  (its callee _add is now seen through the contract proved above)
    install_callee_contracts(eng, ["_add"])
    st, a_self, al, S, En = alarms_state(eng, n_start=1)
    a = al["start"][0]
    first = z3.Const("first", E.Ref)
    st.assume(L.isinstance_z(first, ["date"]), E.truthy(first), z3.Implies(z3.Not(L.isinstance_z(first, ["datetime"])), z3.Not(dt.aware(first))))
    paths = eng.run(fn["_repeat"], {"self": E.VObj(a_self), "first": E.VRef(first), "alarm": a.v}, st)
    # a generator function: executed as the sequence it yields
    paths = generator_paths(paths)

    def c_repeat(pa):
        segs = pa.state.ghost.get("yields", [])
        iv = E.fresh("j", E.I)
        both, short, long_ = repeat_spec(eng, first, a, iv)
        eq = lambda x, y: eng.box(x, pa.state) == (y if z3.is_expr(y) else eng.box(y, pa.state))  # noqa: E731
        return z3.If(both, seqs.segs_equal(eng, segs, long_, pa.state, eq), seqs.segs_equal(eng, segs, short, pa.state, eq))
    tr = {"REPEAT": a.R, "DURATION_us": a.D, "DURATION present": a.has_dur}
    obs.append(compare.ensures(eng, f"{PID}.Alarms._repeat.first_then_REPEAT_times_DURATION", "alarms:Alarms._repeat",
                               source.lines_of(fn["_repeat"]), paths, c_repeat, tmo, tr))
    obs.append(compare.raises_only(eng, f"{PID}.Alarms._repeat.raises_nothing", "alarms:Alarms._repeat", source.lines_of(fn["_repeat"]),
                                   paths, [], tmo, tr))
    obs.append(compare.ensures(eng, f"{PID}.Alarms._repeat.frame", "alarms:Alarms._repeat", source.lines_of(fn["_repeat"]), paths,
                               lambda pa: no_writes(pa, a_self), tmo))
    # ---- add_alarm
    # every list already holds an arbitrary earlier alarm (any content - it may be EQUAL to the new one): the new alarm is appended all the same
    st = E.State()
    a = SymAlarm(eng, st, "X")
    prior = {k: SymAlarm(eng, st, "P" + k[1].upper()) for k in ("_absolute_alarms", "_start_alarms", "_end_alarms")}
    lists = {k: st.alloc(E.ListObj([prior[k].v])) for k in ("_absolute_alarms", "_start_alarms", "_end_alarms")}
    fields = {k: E.VList(v) for k, v in lists.items()}
    a_self = st.alloc(E.HeapObj("Alarms", fields))
    paths = eng.run(fn["add_alarm"], {"self": E.VObj(a_self), "alarm": a.v}, st)

    def c_classify(pa):
        got = {k: pa.state.heap[v].items for k, v in lists.items()}
        if any(not v or not (isinstance(v[0], E.VMap) and v[0].addr == prior[k].addr) for k, v in got.items()):
            return z3.BoolVal(False)                  # the earlier alarms stay, in place
        got = {k: v[1:] for k, v in got.items()}
        lens = {k: len(v) for k, v in got.items()}
        ok_elems = all(isinstance(x, E.VMap) and x.addr == a.addr for v in got.values() for x in v)
        if not ok_elems or sum(lens.values()) > 1:
            return z3.BoolVal(False)
        rel_start = a.related_is_start(eng, pa.state)
        want_abs = z3.And(a.has_trig, a.is_absolute(eng))
        want_start = z3.And(a.has_trig, z3.Not(a.is_absolute(eng)), rel_start)
        want_end = z3.And(a.has_trig, z3.Not(a.is_absolute(eng)), z3.Not(rel_start))
        return z3.And(z3.BoolVal(lens["_absolute_alarms"] == 1) == want_abs, z3.BoolVal(lens["_start_alarms"] == 1) == want_start,
                      z3.BoolVal(lens["_end_alarms"] == 1) == want_end)
    obs.append(compare.ensures(eng, f"{PID}.Alarms.add_alarm.classification", "alarms:Alarms.add_alarm", source.lines_of(fn["add_alarm"]),
                               paths, c_classify, tmo))
    obs.append(compare.raises_only(eng, f"{PID}.Alarms.add_alarm.raises_nothing", "alarms:Alarms.add_alarm", source.lines_of(fn["add_alarm"]),
                                   paths, [], tmo))
    # ---- the three list builders and `times`  (callees through their contracts)
    install_callee_contracts(eng, ["_add", "_repeat", "_alarm_time"])
    for kind, fname, exc in (("start", "_get_start_alarm_times", "ComponentStartMissing"), ("end", "_get_end_alarm_times", "ComponentEndMissing"),
                             ("abs", "_get_absolute_alarm_times", None)):
        for n in (0, 1, 2):
            for anchor_present in ((True, False) if kind != "abs" else (True,)):
                cnt = {"start": 0, "end": 0, "abs": 0}
                cnt[kind] = n
                st, a_self, al, S, En = alarms_state(eng, cnt["start"], cnt["end"], cnt["abs"],
                                                     start_present=anchor_present or kind != "start",
                                                     end_present=anchor_present or kind != "end")
                paths = eng.run(fn[fname], {"self": E.VObj(a_self)}, st)
                tag = f"[{n} alarms, anchor {'present' if anchor_present else 'missing'}]"
                oid = f"{PID}.Alarms.{fname}"
                lines = source.lines_of(fn[fname])
                anchor = {"start": S, "end": En, "abs": None}[kind]

                def c_list(pa, al=al, kind=kind, anchor=anchor):
                    return times_clause(eng, pa, [(kind, a, anchor) for a in al[kind]])
                if anchor_present:
                    obs.append(compare.ensures(eng, f"{oid}.concat_of_repeats{tag}", f"alarms:Alarms.{fname}", lines, paths, c_list, tmo))
                    obs.append(compare.raises_only(eng, f"{oid}.raises_nothing{tag}", f"alarms:Alarms.{fname}", lines, paths, [], tmo))
                else:
                    # anchor missing: error exactly when such an alarm exists
                    obs.append(compare.raises_only(eng, f"{oid}.raises_only_{exc}{tag}", f"alarms:Alarms.{fname}", lines, paths, [exc], tmo))
                    if n == 0:
                        obs.append(compare.ensures(eng, f"{oid}.empty_without_error{tag}", f"alarms:Alarms.{fname}", lines, paths,
                                                   lambda pa: z3.BoolVal(isinstance(pa.value, seqs.VSegList) and not pa.value.segs), tmo))
                        obs.append(compare.raises_only(eng, f"{oid}.no_error_without_alarms{tag}", f"alarms:Alarms.{fname}", lines, paths, [], tmo))
                    else:
                        obs.append(compare.ensures(eng, f"{oid}.must_raise{tag}", f"alarms:Alarms.{fname}", lines, paths,
                                                   lambda pa: z3.BoolVal(False), tmo))
                obs.append(compare.ensures(eng, f"{oid}.frame{tag}", f"alarms:Alarms.{fname}", lines, paths, lambda pa: no_writes(pa, a_self), tmo))
    st, a_self, al, S, En = alarms_state(eng, 1, 1, 1)
    node = fn["times"]
    paths = eng.run(node, {"self": E.VObj(a_self)}, st)
    obs.append(compare.ensures(eng, f"{PID}.Alarms.times.end_then_start_then_absolute", "alarms:Alarms.times", source.lines_of(node), paths,
                               lambda pa: times_clause(eng, pa, [("end", al["end"][0], En), ("start", al["start"][0], S), ("abs", al["abs"][0], None)]),
                               tmo))
    return obs


def generator_paths(paths):
    return paths


def times_clause(eng, pa, plan):
    """result == concatenation over plan [(kind, alarm, anchor)] of repeat_spec(first, alarm), each element an AlarmTime
    with that alarm and that trigger"""
    v = pa.value
    if not isinstance(v, seqs.VSegList):
        return z3.BoolVal(False)
    segs = list(v.segs)
    conj = []
    pos = 0
    for kind, a, anchor in plan:
        first = a.trig if kind == "abs" else add_spec(eng, anchor, E.td_us(a.trig))
        iv = E.fresh("j", E.I)
        both, short, long_ = repeat_spec(eng, first, a, iv)

        def eq(x, y, a=a):
            if not isinstance(x, E.VObj):
                return z3.BoolVal(False)
            f = pa.state.heap[x.addr].fields
            al = f.get("_alarm")
            if not (isinstance(al, E.VMap) and al.addr == a.addr):
                return z3.BoolVal(False)
            return eng.box(f["_trigger"], pa.state) == y
        # the implementation emits the long form structurally (one + range); an empty range equals the short form
        mine = segs[pos:pos + 2]
        if len(mine) == 2 and mine[1][0] == "range":
            pos += 2
            conj.append(z3.If(both, seqs.segs_equal(eng, mine, long_, pa.state, eq),
                              z3.And(seqs.segs_equal(eng, mine[:1], short, pa.state, eq), mine[1][2] <= mine[1][1])))
        else:
            mine = segs[pos:pos + 1]
            pos += 1
            conj.append(z3.And(z3.Not(both), seqs.segs_equal(eng, mine, short, pa.state, eq)))
    if pos != len(segs):
        return z3.BoolVal(False)
    return z3.And(*conj) if conj else z3.BoolVal(True)


def run(rep: common.Report):
    eng, classes = make_engine()
    rep.trust(
        "assumed: date/datetime + timedelta facts (contracts/dt.py, cross-checked natively each run)",
        "assumed: tools.to_datetime maps a date to local midnight (same wall value, naive); tools.normalize_pytz keeps instant, class "
        "and awareness (pytz normalisation is an uninterpreted map)",
        "proved elsewhere: Alarm.TRIGGER / DURATION descriptor contracts (C16), CaselessDict contracts (C17)",
        "loop rule: uniform body over a symbolic range (vc/pyvc/seqs.py); generators executed as the sequence they yield",
        "comprehension rule: list builders checked with 0, 1 and 2 symbolic alarms + frame (no writes to self) => every length",
        "local time zone not set in the deductive part (_alarm_time's localisation is exercised by the bounded stand-in)",
        "engine: vc/pyvc + z3 5.1.0")
    rep.assume("a VALARM's TRIGGER is a vDDDTypes holding a timedelta or an aware datetime, REPEAT an int, DURATION a timedelta value "
               "(states produced by add / parse / setters)")
    try:
        obs = obligations(eng, classes, rep.tier)
    except Exception as e:  # noqa
        import traceback
        traceback.print_exc()
        obs = [Obligation(f"{PID}.engine", "alarms", "z3", ERROR, detail=repr(e))]
    from props import C14_bnd
    for ob in obs:
        if ob.status == REFUTED:
            w = C14_bnd.search_for(ob.oid)
            if w:
                ob.witness, ob.replay = w[0], {"confirmed": True, "native": w[1]}
            elif getattr(ob, "shape_only", False):
                ob.status = UNDECIDED
                ob.detail += " -- not confirmed natively"
            else:
                ob.replay = {"confirmed": False, "native": "no failing input found in the bounded domain"}
        rep.add(ob)
    cc = dt.crosscheck(rep.seed)
    rep.crosschecks.append(cc)
    if not cc["ok"]:
        rep.error(f"assumed-contract cross-check failed: {cc['name']}")
    b = Bounded("C14.bnd.alarm_grid", "alarms:Alarms / cal:Alarm on real Event/Todo objects", C14_bnd.BOUND[rep.tier])
    t0 = time.time()
    try:
        C14_bnd.run(b, rep.tier, rep.seed)
    except Exception as e:  # noqa
        import traceback
        traceback.print_exc()
        b.error = repr(e)
    b.seconds = time.time() - t0
    rep.bounded.append(b)
    rep.extra["solver_seconds_path_pruning"] = round(eng.solver_time, 3)
    from vc.static import state as _state
    rep.add(_state.obligation(PID, ('alarms',), Obligation, PROVED, UNDECIDED))
    rep.explanation = __doc__


def replay(payload: dict) -> int:
    from props import C14_bnd
    w = payload.get("witness")
    if not w:
        print("replay: no concrete input recorded; verifier output:", payload.get("verifier_output"))
        return 1
    msg = C14_bnd.replay_witness(w)
    print("replay:", msg or "no violation on the current tree")
    return 1 if msg else 0
