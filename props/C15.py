"""C15 -- an alarm is active iff it is not acknowledged at/after its (snoozed) trigger.

Functions under contract (real bodies from /repo/src/icalendar/alarms.py, every run):
  AlarmTime.acknowledged, AlarmTime.trigger, AlarmTime.is_active, Alarms.active, Alarms.add_component (wiring of the
  component-level acknowledgement / snooze), Alarms.acknowledge_until, Alarms.snooze_until, set_parent/set_start/set_end.

Instants are integers (inst(r)); each optional instant is analysed in both cases (absent / present), so all orderings
including equalities of trigger, alarm ACKNOWLEDGED, component acknowledgement and snooze are covered at once.
Statement-level postconditions:
  acknowledged   = None if nothing is acknowledged, else the later of the present ones
  trigger        = snooze if a snooze later than the raw trigger exists, else the raw trigger
  is_active      returns  (nothing acknowledged) or (snoozed until after the acknowledgement) or (raw trigger later than
                 the acknowledgement);  raises only LocalTimezoneMissing and only for a floating trigger (naive or date)
  monotonic      lemma over the is_active contract: moving the acknowledgement later never activates an alarm
  active         a filter of `times` by is_active (comprehension rule) hence a sub-list
  add_component  Thunderbird components use X-MOZ-LASTACK / X-MOZ-SNOOZE-TIME, all others DTSTAMP
"""
from __future__ import annotations

import ast
import time

import z3

from contracts import comp, dt
from vc import common
from vc.common import Obligation, Bounded, PROVED, REFUTED, UNDECIDED, ERROR
from vc.pyvc import compare, source
from vc.pyvc import engine as E
from vc.pyvc.discharge import TIMEOUT_MS, check_vc

LEVEL = "proof"
PID = "C15"
TRIG = z3.Const("raw_trigger", E.Ref)
ACK_A = z3.Const("alarm_ACKNOWLEDGED", E.Ref)
ACK_C = z3.Const("component_ack", E.Ref)
SNZ = z3.Const("snooze", E.Ref)
TERMS = {"inst(trigger)": dt.inst(TRIG), "inst(alarm ack)": dt.inst(ACK_A), "inst(component ack)": dt.inst(ACK_C),
         "inst(snooze)": dt.inst(SNZ), "trigger aware": dt.aware(TRIG)}


def utc_instant_facts(eng, r):
    """an aware UTC datetime as produced by the UTC property descriptors / localize_utc"""
    return [eng.lat.isinstance_z(r, ["datetime"]), dt.aware(r), E.truthy(r), r != E.NONE]


def make_engine():
    lat = E.Lattice()
    for m in ("caselessdict", "parser", "prop", "cal", "alarms"):
        lat.load_module(m)
    lat.add("TZP", ["object"])
    eng = E.Engine(lat, {})
    classes = comp.Classes("cal")
    dt.register(eng.contracts)
    eng.attr_classes["tzinfo"] = {"datetime", "time"}
    eng.noattr_classes |= {"date", "timedelta"}
    eng.noattr_classes -= {"datetime"}

    def attr_tzinfo(engine, st, v):
        v = engine.unbox_known(v, st)
        if not isinstance(v, E.VRef):
            return None
        out = []
        for s, isdt in engine.split(st, engine.lat.isinstance_z(v.z, ["datetime"])):
            if isdt:
                t = engine.attr_z(v.z, "tzinfo")
                s.assume((t == E.NONE) == z3.Not(dt.aware(v.z)))
                out.append((s, E.VRef(t)))
            else:
                out += engine.ref_attr(v, "tzinfo", s)
        return out
    eng.contracts["attr:tzinfo"] = attr_tzinfo
    comp.install(eng, classes)
    tools = source.module("tools")
    for fn in ("is_date", "to_datetime", "normalize_pytz", "is_pytz_dt", "is_pytz", "is_datetime"):
        eng.globals[fn] = E.VFunc(tools.functions[fn], eng.globals, None, fn)
    eng.globals["tzp"] = E.VClass("TZP")

    def localize_utc(engine, st, args, kw):
        v = engine.unbox_known(args[1], st)
        r = z3.Function("localize_utc", E.Ref, E.Ref)(v.z)
        st.assume(*utc_instant_facts(engine, r), z3.Implies(dt.aware(v.z), dt.inst(r) == dt.inst(v.z)))
        return [(st, E.VRef(r))]
    eng.contracts["TZP.localize_utc"] = comp.exact_arity(localize_utc, 2, "tzp.localize_utc(dt)")
    return eng, classes


def alarm_time_state(eng, has_last_ack, has_snooze):
    st = E.State()
    alarm = E.MapObj.fresh("alarm", cls="Alarm")
    a_alarm = st.alloc(alarm)
    fields = {"_alarm": E.VMap(a_alarm), "_parent": E.VNone(), "_trigger": E.VRef(TRIG),
              "_last_ack": E.VRef(ACK_C) if has_last_ack else E.VNone(),
              "_snooze_until": E.VRef(SNZ) if has_snooze else E.VNone()}
    a_self = st.alloc(E.HeapObj("AlarmTime", fields))
    L = eng.lat
    st.assume(L.isinstance_z(TRIG, ["date"]), E.truthy(TRIG), TRIG != E.NONE,
              z3.Implies(z3.Not(L.isinstance_z(TRIG, ["datetime"])), z3.Not(dt.aware(TRIG))))
    if has_last_ack:
        st.assume(*utc_instant_facts(eng, ACK_C))
    if has_snooze:
        st.assume(*utc_instant_facts(eng, SNZ))
    return st, a_self


ACK_A_PRESENT = z3.Bool("alarm_ack_present")


def ack_contract(eng):
    """Alarm.ACKNOWLEDGED (UTC property): None or an aware UTC datetime (assumed; the descriptor is C11's)."""
    def c(engine, st, args, kw):
        out = []
        for s, has in engine.split(st, ACK_A_PRESENT):
            if has:
                s.assume(*utc_instant_facts(engine, ACK_A))
                out.append((s, E.VRef(ACK_A)))
            else:
                out.append((s, E.VNone()))
        return out
    return c


def ack_until(has_c):
    """(present, instant) of the acknowledged-until instant as the statement defines it"""
    a_p, a_i = ACK_A_PRESENT, dt.inst(ACK_A)
    if has_c:
        c_i = dt.inst(ACK_C)
        return z3.BoolVal(True), z3.If(a_p, z3.If(a_i >= c_i, a_i, c_i), c_i)
    return a_p, a_i


def floating(eng):
    return z3.Not(dt.aware(TRIG))


def member_fn(classes, eng, cls, name):
    d = classes.member(eng.lat, cls, name)
    if d is None:
        return None
    if d.kind == "property_def":
        return d.fget
    if d.kind == "method":
        return d.node
    return None


def alarm_time_obligations(eng, classes, tier):
    tmo = TIMEOUT_MS[tier]
    obs = []
    eng.contracts["Alarm.ACKNOWLEDGED.fget"] = ack_contract(eng)
    nodes = {n: member_fn(classes, eng, "AlarmTime", n) for n in ("acknowledged", "trigger", "is_active")}
    for n, node in nodes.items():
        if node is None:
            obs.append(Obligation(f"{PID}.AlarmTime.{n}", f"alarms:AlarmTime.{n}", "z3", UNDECIDED, detail="function not found"))
    if any(v is None for v in nodes.values()):
        return obs
    for has_c in (False, True):
        for has_s in (False, True):
            tag = f"[component_ack={'present' if has_c else 'absent'},snooze={'present' if has_s else 'absent'}]"
            # ---- acknowledged
            st, a_self = alarm_time_state(eng, has_c, has_s)
            paths = eng.run(nodes["acknowledged"], {"self": E.VObj(a_self)}, st)
            ap, ai = ack_until(has_c)

            def c_ack(pa):
                v = eng.unbox_known(pa.value, pa.state)
                if isinstance(v, E.VNone):
                    return z3.Not(ap)
                r = eng.box(v, pa.state)
                return z3.And(ap, dt.inst(r) == ai, z3.Or(r == ACK_A, r == ACK_C) if has_c else r == ACK_A)
            if not has_s:
                obs.append(compare.ensures(eng, f"{PID}.AlarmTime.acknowledged.later_of_both{tag}", "alarms:AlarmTime.acknowledged",
                                           source.lines_of(nodes["acknowledged"]), paths, c_ack, tmo, TERMS))
                obs.append(compare.raises_only(eng, f"{PID}.AlarmTime.acknowledged.raises_nothing{tag}", "alarms:AlarmTime.acknowledged",
                                               source.lines_of(nodes["acknowledged"]), paths, [], tmo, TERMS))
            # ---- trigger
            st, a_self = alarm_time_state(eng, has_c, has_s)
            paths = eng.run(nodes["trigger"], {"self": E.VObj(a_self)}, st)

            def c_trig(pa):
                r = eng.box(pa.value, pa.state)
                if has_s:
                    return r == z3.If(dt.inst(SNZ) > dt.inst(TRIG), SNZ, TRIG)
                return r == TRIG
            if not has_c:
                obs.append(compare.ensures(eng, f"{PID}.AlarmTime.trigger.snoozed_trigger{tag}", "alarms:AlarmTime.trigger",
                                           source.lines_of(nodes["trigger"]), paths, c_trig, tmo, TERMS))
                obs.append(compare.raises_only(eng, f"{PID}.AlarmTime.trigger.raises_only_LocalTimezoneMissing{tag}", "alarms:AlarmTime.trigger",
                                               source.lines_of(nodes["trigger"]), paths, ["LocalTimezoneMissing"], tmo, TERMS))
                obs.append(compare.ensures(eng, f"{PID}.AlarmTime.trigger.error_only_when_floating{tag}", "alarms:AlarmTime.trigger",
                                           source.lines_of(nodes["trigger"]), paths, lambda pa: floating(eng), tmo, TERMS, kinds=("raise",)))
            # ---- is_active
            st, a_self = alarm_time_state(eng, has_c, has_s)
            paths = eng.run(nodes["is_active"], {"self": E.VObj(a_self)}, st)

            def active_spec():
                nothing = z3.Not(ap)
                snoozed_after = z3.And(dt.inst(SNZ) > ai) if has_s else z3.BoolVal(False)
                return z3.Or(nothing, snoozed_after, z3.And(z3.Not(floating(eng)), dt.inst(TRIG) > ai))

            def c_active(pa):
                v = eng.unbox_known(pa.value, pa.state)
                if not isinstance(v, E.VBool):
                    return z3.BoolVal(False)
                return v.z == active_spec()
            fn = "alarms:AlarmTime.is_active"
            lines = source.lines_of(nodes["is_active"])
            obs.append(compare.ensures(eng, f"{PID}.AlarmTime.is_active.iff_statement{tag}", fn, lines, paths, c_active, tmo, TERMS))
            obs.append(compare.raises_only(eng, f"{PID}.AlarmTime.is_active.raises_only_LocalTimezoneMissing{tag}", fn, lines, paths,
                                           ["LocalTimezoneMissing"], tmo, TERMS))
            obs.append(compare.ensures(eng, f"{PID}.AlarmTime.is_active.error_only_when_floating{tag}", fn, lines, paths,
                                       lambda pa: floating(eng), tmo, TERMS, kinds=("raise",)))
    return obs


def monotonic_lemma(eng, tier):
    """Lemma over the is_active contract (no code): ack1 <= ack2 /\\ active(ack2) => active(ack1)."""
    a1, a2, t, s = z3.Ints("ack1 ack2 trig snz")
    sp, fl = z3.Bools("snooze_present floating")

    def act(a):
        return z3.Or(z3.And(sp, s > a), z3.And(z3.Not(fl), t > a))
    st, secs, info = check_vc([], [a1 <= a2, act(a2)], act(a1), TIMEOUT_MS[tier])
    ob = Obligation(f"{PID}.lemma.later_acknowledgement_never_activates", "alarms:AlarmTime.is_active (contract)", "z3",
                    PROVED if st == "proved" else (REFUTED if st == "refuted" else UNDECIDED), secs,
                    "lemma over the proved is_active postcondition; also: an acknowledgement appearing (absent -> present) can only deactivate")
    return [ob]


def active_comprehension(eng, classes):
    """`active` must be  [x for x in self.times if x.is_active()]  -- a filter, hence a sub-list of times in order."""
    node = member_fn(classes, eng, "Alarms", "active")
    ob = Obligation(f"{PID}.Alarms.active.is_filter_of_times", "alarms:Alarms.active", "fin", UNDECIDED, lines=source.lines_of(node))
    if node is None:
        ob.detail = "function not found"
        return [ob]
    body = source.strip_docstring(node.body)
    ok = (len(body) == 1 and isinstance(body[0], ast.Return) and isinstance(body[0].value, ast.ListComp))
    if ok:
        lc = body[0].value
        g = lc.generators
        ok = (len(g) == 1 and isinstance(g[0].target, ast.Name) and isinstance(lc.elt, ast.Name) and lc.elt.id == g[0].target.id
              and ast.unparse(g[0].iter) == "self.times" and len(g[0].ifs) == 1
              and ast.unparse(g[0].ifs[0]) == f"{g[0].target.id}.is_active()" and not g[0].is_async)
    if ok:
        ob.status, ob.detail = PROVED, "comprehension rule: [x for x in self.times if x.is_active()] is filter(is_active, times)"
    else:
        ob.detail = "body is not the filter comprehension; outside the comprehension rule (bounded stand-in decides)"
    return [ob]


def wiring_obligations(eng, classes, tier):
    """Alarms.add_component: which instants become the component acknowledgement and the snooze."""
    tmo = TIMEOUT_MS[tier]
    node = member_fn(classes, eng, "Alarms", "add_component")
    fn = "alarms:Alarms.add_component"
    if node is None:
        return [Obligation(f"{PID}.Alarms.add_component.wiring", fn, "z3", UNDECIDED, detail="function not found")]
    TB = z3.Bool("is_thunderbird")
    vals = {n: z3.Const("prop_" + n.replace("-", "_"), E.Ref) for n in ("DTSTAMP", "X-MOZ-LASTACK", "X-MOZ-SNOOZE-TIME")}
    pres = {n: z3.Bool("present_" + n.replace("-", "_")) for n in vals}

    def utc_hook(d, slot):
        def c(engine, st, args, kw):
            out = []
            for s, has in engine.split(st, pres[d.prop]):
                if has:
                    s.assume(*utc_instant_facts(engine, vals[d.prop]))
                    out.append((s, E.VRef(vals[d.prop])))
                else:
                    out.append((s, E.VNone()))
            return out
        return c
    eng.contracts["utc_property"] = utc_hook
    obs = []
    for cls in ("Event", "Todo"):
        for k in list(eng.contracts):
            if k.startswith(f"{cls}.") or k.startswith("Component."):
                if k.endswith(".fget") or k.endswith(".fset"):
                    del eng.contracts[k]
        eng.contracts[f"{cls}.start.fget"] = lambda e, s, a, k: [(s, E.VRef(z3.Const("comp_start", E.Ref)))]
        eng.contracts[f"{cls}.end.fget"] = lambda e, s, a, k: [(s, E.VRef(z3.Const("comp_end", E.Ref)))]
        eng.contracts["Component.is_thunderbird"] = lambda e, s, a, k: [(s, E.VBool(TB))]
        eng.contracts["Component.walk"] = lambda e, s, a, k: [(s, E.VList(s.alloc(E.ListObj([]))))]
        st = E.State()
        comp_m = E.MapObj.fresh("component", cls=cls)
        a_comp = st.alloc(comp_m)
        fields = {"_absolute_alarms": E.VNone(), "_start_alarms": E.VNone(), "_end_alarms": E.VNone(), "_start": E.VNone(),
                  "_end": E.VNone(), "_parent": E.VNone(), "_last_ack": E.VNone(), "_snooze_until": E.VNone(), "_local_tzinfo": E.VNone()}
        a_self = st.alloc(E.HeapObj("Alarms", fields))
        paths = eng.run(node, {"self": E.VObj(a_self), "component": E.VMap(a_comp)}, st)
        lu = z3.Function("localize_utc", E.Ref, E.Ref)

        def c_wiring(pa):
            f = pa.state.heap[a_self].fields
            la = eng.box(f["_last_ack"], pa.state)
            sn = eng.box(f["_snooze_until"], pa.state)
            exp_ack = z3.If(TB, z3.If(pres["X-MOZ-LASTACK"], lu(vals["X-MOZ-LASTACK"]), E.NONE),
                            z3.If(pres["DTSTAMP"], lu(vals["DTSTAMP"]), E.NONE))
            exp_snz = z3.If(z3.And(TB, pres["X-MOZ-SNOOZE-TIME"]), lu(vals["X-MOZ-SNOOZE-TIME"]), E.NONE)
            return z3.And(la == exp_ack, sn == exp_snz)
        obs.append(compare.ensures(eng, f"{PID}.Alarms.add_component.ack_and_snooze_wiring[{cls}]", fn, source.lines_of(node), paths,
                                   c_wiring, tmo))
        obs.append(compare.raises_only(eng, f"{PID}.Alarms.add_component.raises_nothing[{cls}]", fn, source.lines_of(node), paths, [], tmo))
    return obs


def run(rep: common.Report):
    eng, classes = make_engine()
    rep.trust(
        "assumed: comparison of aware datetimes compares instants; naive vs aware ordering raises TypeError (contracts/dt.py, cross-checked)",
        "assumed: the UTC property descriptors (ACKNOWLEDGED, DTSTAMP, X-MOZ-*) return None or an aware UTC datetime; tzp.localize_utc "
        "returns an aware datetime at the same instant (C11 checks them)",
        "assumed: `tzinfo is None` coincides with a naive (floating) datetime",
        "Alarms.active: syntactic comprehension rule (filter => sub-list)",
        "engine: vc/pyvc + z3 5.1.0")
    rep.assume("instants are mathematical integers; every ordering incl. equalities of the four optional instants is covered symbolically")
    groups = [lambda: alarm_time_obligations(eng, classes, rep.tier), lambda: monotonic_lemma(eng, rep.tier),
              lambda: active_comprehension(eng, classes), lambda: wiring_obligations(eng, classes, rep.tier)]
    from props import C15_bnd
    for g in groups:
        try:
            obs = g()
        except Exception as e:  # noqa
            import traceback
            traceback.print_exc()
            obs = [Obligation(f"{PID}.engine", "alarms", "z3", ERROR, detail=repr(e))]
        for ob in obs:
            if ob.status == REFUTED:
                w = C15_bnd.search_for(ob.oid, getattr(ob, "witness_model", None))
                if w:
                    ob.witness, ob.replay = w[0], {"confirmed": True, "native": w[1]}
                elif getattr(ob, "shape_only", False):
                    ob.status = UNDECIDED
                    ob.detail += " -- not confirmed natively"
                else:
                    ob.replay = {"confirmed": False, "native": "no failing input found in the bounded domain"}
            rep.add(ob)
    cc = dt.crosscheck(rep.seed)
    rep.crosschecks.append(cc)
    if not cc["ok"]:
        rep.error(f"assumed-contract cross-check failed: {cc['name']}")
    b = Bounded("C15.bnd.decision_table", "alarms:AlarmTime / Alarms (real objects)", C15_bnd.BOUND[rep.tier])
    t0 = time.time()
    try:
        C15_bnd.run(b, rep.tier, rep.seed)
    except Exception as e:  # noqa
        import traceback
        traceback.print_exc()
        b.error = repr(e)
    b.seconds = time.time() - t0
    rep.bounded.append(b)
    rep.explanation = __doc__


def replay(payload: dict) -> int:
    from props import C15_bnd
    w = payload.get("witness")
    if not w:
        print("replay: no concrete input recorded; verifier output:", payload.get("verifier_output"))
        return 1
    msg = C15_bnd.replay_witness(w)
    print("replay:", msg or "no violation on the current tree")
    return 1 if msg else 0
