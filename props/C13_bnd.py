"""Bounded stand-in and oracle for C13 (labelled bounded; exhaustive in zones in the thorough tier, sampled in windows).

For a zone and a window: Timezone.from_tzid(...) must be well formed (TZID, >= 1 observance, each with DTSTART, TZOFFSETFROM, TZOFFSETTO,
TZNAME, onsets inside the window) and, read by the RFC 5545 onset rule (own interpretation of the component: onset = local - TZOFFSETFROM)
and converted back with to_tz under the provider, give the offset and abbreviation of the source zone at every probed instant of the
window: each transition -1 s / 0 / +1 s, interval midpoints, a 6-hour grid (sampled).  Generating again from the converted zone gives
the same component.
"""
import random
from datetime import date, datetime, timedelta, timezone

BOUND = {
    "quick": "43 zones (23 fixed incl. Cairo, Casablanca, Lord_Howe, Monrovia, Istanbul, London, Dublin, Apia, Gaza, Anchorage, Volgograd + 20 seeded) x default window "
             "1970-2038 and 1 seeded sub-window x every transition of the window (-1 s, 0, +1 s), midpoints, 200 grid points; zoneinfo provider; "
             "round trip to_tz and regeneration for the fixed zones; "
             "ALL zone keys at 20 coarse instants and at the midpoint of every period between two changes of the source zone (RFC reading vs source)",
    "thorough": "all zone keys x default window and 2 seeded sub-windows, both providers",
}
FIXED = ["Europe/Berlin", "America/New_York", "Africa/Cairo", "Africa/Casablanca", "Australia/Lord_Howe", "Africa/Monrovia", "Europe/Istanbul",
         "Europe/London", "Europe/Dublin", "Pacific/Apia", "Asia/Kathmandu", "Asia/Tokyo", "UTC", "Etc/GMT-9", "America/Sao_Paulo", "Asia/Tehran",
         "Pacific/Chatham", "America/Caracas", "Europe/Moscow", "Antarctica/Troll",
         # renamed with unchanged offsets (IST/IDT -> EET/EEST, YST -> AKST, +04 -> MSK)
         "Asia/Gaza", "America/Anchorage", "Europe/Volgograd"]


def source_zone(provider, key):
    if provider == "pytz":
        import pytz
        return pytz.timezone(key)
    import zoneinfo
    return zoneinfo.ZoneInfo(key)


def observances_of(comp):
    """[(kind, [local onsets], off_from, off_to, name)] read from a VTIMEZONE component with plain accessors"""
    out = []
    for sub in comp.subcomponents:
        starts = [sub["DTSTART"].dt]
        rd = sub.get("RDATE")
        if rd is not None:
            for lst in (rd if isinstance(rd, list) else [rd]):
                starts += [d.dt for d in lst.dts]
        name = sub.get("TZNAME")
        out.append((sub.name, sorted(starts), sub["TZOFFSETFROM"].td, sub["TZOFFSETTO"].td, None if name is None else str(name if not isinstance(name, list) else name[0])))
    return out


def rfc_at(obs, inst_utc):
    best = None
    for kind, starts, ofrom, oto, name in obs:
        for t in starts:
            onset = t - ofrom
            if onset <= inst_utc and (best is None or onset >= best[0]):
                best = (onset, kind, oto, name)
    return best


def transitions_in(tz, lo, hi):
    """naive-UTC instants in [lo, hi) where utcoffset / tzname / dst of the source zone change"""
    out = []
    t = lo
    step = timedelta(days=2)          # the shortest offset period in the tz database is 6 days (Brazil 2000)

    def sig(x):
        a = x.replace(tzinfo=timezone.utc).astimezone(tz)
        return (a.utcoffset(), a.tzname(), a.dst())
    prev = sig(t)
    while t < hi:
        nxt = min(t + step, hi)
        if sig(nxt) != prev:
            a, b = t, nxt
            while b - a > timedelta(seconds=1):
                mid = (a + (b - a) / 2).replace(microsecond=0)
                if sig(mid) == prev:
                    a = mid
                else:
                    b = mid
            out.append(b)
            prev = sig(b)
            t = b
            continue
        t = nxt
    return out


def well_formed(comp, first, last):
    if "TZID" not in comp:
        return "no TZID"
    if not comp.subcomponents:
        return "no observance"
    for sub in comp.subcomponents:
        if sub.name not in ("STANDARD", "DAYLIGHT"):
            return f"subcomponent {sub.name}"
        for k in ("DTSTART", "TZOFFSETFROM", "TZOFFSETTO", "TZNAME"):
            if k not in sub:
                return f"{sub.name} without {k}"
    return None


def check(provider, key, first, last, rnd, findings, grid=200):
    """-> list of (message, class-or-None)"""
    import icalendar
    from icalendar import Timezone
    tzp = icalendar.timezone.tzp
    src = source_zone(provider, key)
    comp = Timezone.from_tzid(key, tzp, first, last)
    out = []
    wf = well_formed(comp, first, last)
    if wf:
        return [(f"generated VTIMEZONE for {key} {first}..{last} is not well formed: {wf}", None)]
    obs = observances_of(comp)
    lo = datetime(first.year, first.month, first.day) + timedelta(days=1)       # local midnight of first_date is within a day of it in UTC
    hi = datetime(last.year, last.month, last.day) - timedelta(days=1)
    for kind, starts, ofrom, oto, name in obs:
        for t in starts:
            if not (datetime(first.year, first.month, first.day) <= t <= datetime(last.year, last.month, last.day) + timedelta(days=1)):
                out.append((f"onset {t} of {kind} lies outside the window {first}..{last}", None))
    trans = transitions_in(src, lo, hi)
    # the listed classes speak about the changes of the SOURCE zone around an instant: a short period that begins on the first day of the
    # window (before `lo`) or ends after `hi` is still that short period - classification looks 70 days beyond the probed range
    try:
        trans_cls = transitions_in(src, max(lo - timedelta(days=70), datetime(1901, 1, 1)), min(hi + timedelta(days=70), datetime(2100, 1, 1)))
    except OverflowError:
        trans_cls = trans
    probes = []
    for i, t in enumerate(trans):
        probes += [t - timedelta(seconds=1), t, t + timedelta(seconds=1)]
        nxt = trans[i + 1] if i + 1 < len(trans) else hi
        probes.append((t + (nxt - t) / 2).replace(microsecond=0))
    span = int((hi - lo).total_seconds())
    for _ in range(grid):
        probes.append(lo + timedelta(seconds=rnd.randrange(0, max(span, 1), 21600)))
    back = comp.to_tz(tzp, lookup_tzid=False)
    seen = set()
    for inst in probes:
        if not (lo <= inst < hi):
            continue
        a = inst.replace(tzinfo=timezone.utc).astimezone(src)
        want = (a.utcoffset(), a.tzname())
        got = rfc_at(obs, inst)
        cls = classify(src, trans_cls, inst, want)
        if got is None:
            m = f"{key}: no observance of the generated VTIMEZONE is in effect at {inst}Z (window {first}..{last})"
        elif got[2] != want[0]:
            m = f"{key}: at {inst}Z the generated VTIMEZONE (RFC onset rule) gives offset {got[2]}, the source zone {want[0]} ({want[1]})"
        elif got[3] != want[1]:
            m = f"{key}: at {inst}Z the generated VTIMEZONE gives TZNAME {got[3]!r}, the source zone {want[1]!r}"
        else:
            m = None
        if m is None:
            try:
                b = inst.replace(tzinfo=timezone.utc).astimezone(back)
                if b.utcoffset() != want[0]:
                    m = f"{key}: at {inst}Z the zone converted back with to_tz [{provider}] gives offset {b.utcoffset()}, the source zone {want[0]}"
            except Exception as e:  # noqa
                m = f"{key}: at {inst}Z the zone converted back with to_tz [{provider}] raises {type(e).__name__}: {e}"
            if m:
                near = any(abs((inst - t).total_seconds()) <= 86400 for t in trans)
                cls = cls or (("to_tz_near_an_onset_" + provider) if near or "raises" in m else None)
        if m and (cls, m[:40]) not in seen:
            seen.add((cls, m[:40]))
            out.append((m, cls))
    return out


def classify(src, trans, inst, want):
    """listed classes of known deviations"""
    # an offset period shorter than the coarsest probe step (64 days) of the forward search, and the rest of the period around it
    for a, b in zip(trans, trans[1:]):
        if (b - a) < timedelta(days=64) and a - timedelta(days=64) <= inst < b + timedelta(days=64):
            return "period_shorter_than_the_probe_step"
    for t in trans:
        d = (inst - t).total_seconds()
        if 0 <= d < 86400:
            before = (t - timedelta(seconds=1)).replace(tzinfo=timezone.utc).astimezone(src)
            after = t.replace(tzinfo=timezone.utc).astimezone(src)
            if before.utcoffset() == after.utcoffset():
                return "change_of_name_or_dst_without_offset_change"
            pass
    for t in trans:
        d = (inst - t).total_seconds()
        before = (t - timedelta(seconds=1)).replace(tzinfo=timezone.utc).astimezone(src)
        after = t.replace(tzinfo=timezone.utc).astimezone(src)
        jump = abs((after.utcoffset() - before.utcoffset()).total_seconds())
        # the generated onset is off by the size of the jump: too late when the clock goes forward, too early when it goes back
        if jump and -jump - 1 <= d < jump + 1:
            return "onset_written_in_the_new_offset"
    return None


COARSE = [datetime(y, m, 15, 12) for y in (1972, 1979, 1986, 1993, 2000, 2007, 2014, 2021, 2028, 2035) for m in (1, 7)]


def coarse_all_zones(provider, findings, known_seen, fails):
    """every zone key, default window: the generated component read by the RFC onset rule against the source zone at 20 instants
    (mid-January / mid-July noon UTC of ten years), skipping instants with an offset / name change within three days"""
    import icalendar
    from icalendar import Timezone
    tzp = icalendar.timezone.tzp
    first, last = date(1970, 1, 1), date(2038, 1, 1)
    n = 0
    for key in all_keys(provider):
        try:
            src = source_zone(provider, key)
            comp = Timezone.from_tzid(key, tzp, first, last)
        except Exception as e:  # noqa
            fails.append({"witness": {"zone": key, "coarse": True, "provider": provider}, "detail": f"[{provider}] {key}: from_tzid raises {type(e).__name__}: {e}"})
            continue
        wf = well_formed(comp, first, last)
        if wf:
            fails.append({"witness": {"zone": key, "coarse": True, "provider": provider}, "detail": f"[{provider}] {key}: not well formed: {wf}"})
            continue
        obs = observances_of(comp)

        def sig(x):
            a = x.replace(tzinfo=timezone.utc).astimezone(src)
            return (a.utcoffset(), a.tzname())
        # ... and at the midpoint of every period between two changes of the source zone inside the window (periods of >= 8 days)
        trans = transitions_in(src, datetime(first.year, first.month, first.day), datetime(last.year, last.month, last.day))
        edges = [datetime(first.year, first.month, first.day) + timedelta(days=2)] + list(trans) + [datetime(last.year, last.month, last.day) - timedelta(days=2)]
        mids = [a + (b2 - a) / 2 for a, b2 in zip(edges, edges[1:]) if b2 - a >= timedelta(days=8)]
        mids = [m.replace(microsecond=0) for m in mids]
        for inst in COARSE + mids:
            n += 1
            want = sig(inst)
            if sig(inst - timedelta(days=3)) != want or sig(inst + timedelta(days=3)) != want:
                continue
            got = rfc_at(obs, inst)
            if got is not None and got[2] == want[0] and got[3] == want[1]:
                continue
            m = (f"{key}: at {inst}Z the generated VTIMEZONE (RFC onset rule) gives {None if got is None else (got[2], got[3])}, "
                 f"the source zone {want}")
            # classification needs the changes around the instant only
            cls = classify(src, trans, inst, want)
            f = {"witness": {"zone": key, "coarse": True, "instant": inst.isoformat(), "provider": provider}, "detail": f"[{provider}] " + (f"<{cls}> " if cls else "") + m}
            fid = match(f, findings, cls)
            if fid:
                known_seen.append(f"{fid['id']} {fid['what']} (witness {key} at {inst}Z [{provider}])")
            elif len(fails) < 30:
                fails.append(f)
            break
    return n


def regenerate(provider, key, first, last):
    import icalendar
    from icalendar import Timezone
    tzp = icalendar.timezone.tzp
    comp = Timezone.from_tzid(key, tzp, first, last)
    back = comp.to_tz(tzp, lookup_tzid=False)
    again = Timezone.from_tzinfo(back, key, first, last)
    if again != comp:
        a, b = comp.to_ical().decode().split("\r\n"), again.to_ical().decode().split("\r\n")
        diff = [x for x in a if x not in b][:2] + [x for x in b if x not in a][:2]
        return f"{key} {first}..{last} [{provider}]: generating again from the converted zone differs: {diff}"
    return None


def all_keys(provider):
    from props import C11_bnd
    return C11_bnd.all_keys(provider)


def run(b, tier, seed, findings, known_seen):
    import icalendar
    rnd = random.Random(seed)
    fails = []
    cases = 0
    provs = ["zoneinfo"] if tier == "quick" else ["zoneinfo", "pytz"]
    zi = set(all_keys("zoneinfo"))
    for prov in provs:
        icalendar.timezone.tzp.use(prov)
        try:
            keys = [k for k in all_keys(prov) if k in zi]
            if tier == "quick":
                rest = [k for k in keys if k not in FIXED]
                rnd.shuffle(rest)
                keys = [k for k in FIXED if k in keys] + rest[:20]
            for k in keys:
                windows = [(date(1970, 1, 1), date(2038, 1, 1))]
                for _ in range(1 if tier == "quick" else 2):
                    y = rnd.randint(1971, 2030)
                    windows.append((date(y, rnd.randint(1, 12), rnd.randint(1, 28)), date(y + rnd.randint(0, 6), rnd.randint(1, 12), rnd.randint(1, 28))))
                for first, last in windows:
                    if last <= first + timedelta(days=3):
                        continue
                    cases += 1
                    try:
                        res = check(prov, k, first, last, rnd, findings)
                    except AssertionError as e:
                        # pytz conversion of a component without any STANDARD observance (a window inside summer time)
                        from icalendar import Timezone
                        comp = Timezone.from_tzid(k, icalendar.timezone.tzp, first, last)
                        only_dst = all(sub.name == "DAYLIGHT" for sub in comp.subcomponents)
                        res = [(f"{k} {first}..{last}: to_tz raises AssertionError (no STANDARD observance in the generated component: {only_dst})",
                                "no_standard_observance_pytz" if only_dst and prov == "pytz" else None)]
                    except Exception as e:  # noqa
                        res = [(f"{k} {first}..{last}: {type(e).__name__}: {e}", None)]
                    for m, cls in res:
                        f = {"witness": {"zone": k, "first": first.isoformat(), "last": last.isoformat(), "provider": prov}, "detail": f"[{prov}] " + (f"<{cls}> " if cls else "") + m}
                        fid = match(f, findings, cls)
                        if fid:
                            known_seen.append(f"{fid['id']} {fid['what']} (witness {k} {first}..{last} [{prov}]: {m[:120]})")
                        elif len(fails) < 30:
                            fails.append(f)
                if k in FIXED:
                    cases += 1
                    try:
                        m = regenerate(prov, k, date(1970, 1, 1), date(2038, 1, 1))
                    except Exception as e:  # noqa
                        m = f"{k}: regeneration raises {type(e).__name__}: {e}"
                    if m:
                        rc = ("to_tz_near_an_onset_" + prov) if "raises" in m else "regeneration"
                        f = {"witness": {"zone": k, "regenerate": True, "provider": prov}, "detail": f"[{prov}] <{rc}> {m}"}
                        fid = match(f, findings, rc)
                        if fid:
                            known_seen.append(f"{fid['id']} {fid['what']} (witness {k} [{prov}])")
                        elif len(fails) < 30:
                            fails.append(f)
        finally:
            icalendar.timezone.tzp.use_default()
    # every zone key, coarse probes (cheap: no transition search)
    icalendar.timezone.tzp.use("zoneinfo")
    try:
        cases += coarse_all_zones("zoneinfo", findings, known_seen, fails)
    finally:
        icalendar.timezone.tzp.use_default()
    # windows that once failed (kept in every tier, pytz): a name shared by both kinds, a window inside summer time
    icalendar.timezone.tzp.use("pytz")
    try:
        for k, first, last in (("Asia/Novokuznetsk", date(2007, 5, 3), date(2010, 6, 4)), ("Asia/Yakutsk", date(1989, 10, 4), date(1991, 7, 24)),
                               ("America/Halifax", date(2000, 6, 1), date(2000, 6, 12))):
            cases += 1
            try:
                res = check("pytz", k, first, last, rnd, findings, grid=40)
            except AssertionError:
                from icalendar import Timezone
                comp = Timezone.from_tzid(k, icalendar.timezone.tzp, first, last)
                only_dst = all(sub.name == "DAYLIGHT" for sub in comp.subcomponents)
                res = [(f"{k} {first}..{last}: to_tz raises AssertionError (no STANDARD observance in the generated component: {only_dst})",
                        "no_standard_observance_pytz" if only_dst else None)]
            except Exception as e:  # noqa
                res = [(f"{k} {first}..{last}: {type(e).__name__}: {e}", None)]
            for m, cls in res:
                f = {"witness": {"zone": k, "first": first.isoformat(), "last": last.isoformat(), "provider": "pytz"}, "detail": "[pytz] " + (f"<{cls}> " if cls else "") + m}
                fid = match(f, findings, cls)
                if fid:
                    known_seen.append(f"{fid['id']} {fid['what']} (witness {k} {first}..{last} [pytz]: {m[:120]})")
                elif len(fails) < 30:
                    fails.append(f)
    finally:
        icalendar.timezone.tzp.use_default()
    # windows whose FIRST or LAST day is the day of a change of the source zone (the edges of the window meet an onset), both providers
    for prov in ("zoneinfo", "pytz"):
        icalendar.timezone.tzp.use(prov)
        try:
            for k, day in (("Europe/Berlin", date(2024, 3, 31)), ("Europe/Berlin", date(2023, 10, 29)), ("America/New_York", date(2024, 11, 3)),
                           ("America/New_York", date(2024, 3, 10)), ("Australia/Lord_Howe", date(2024, 4, 7)), ("Asia/Tehran", date(2020, 3, 21))):
                for first, last in ((day, date(day.year + 2, day.month, 1)), (date(day.year - 2, day.month, 1), day),
                                    (day - timedelta(days=1), date(day.year + 1, 1, 1)), (date(day.year - 1, 1, 1), day + timedelta(days=1))):
                    cases += 1
                    try:
                        res = check(prov, k, first, last, rnd, findings, grid=24)
                    except Exception as e:  # noqa
                        res = [(f"{k} {first}..{last}: {type(e).__name__}: {e}", None)]
                    for m, cls in res:
                        f = {"witness": {"zone": k, "first": first.isoformat(), "last": last.isoformat(), "provider": prov}, "detail": f"[{prov}] " + (f"<{cls}> " if cls else "") + m}
                        fid = match(f, findings, cls)
                        if fid:
                            known_seen.append(f"{fid['id']} {fid['what']} (witness {k} {first}..{last} [{prov}]: {m[:120]})")
                        elif len(fails) < 30:
                            fails.append(f)
        finally:
            icalendar.timezone.tzp.use_default()
    b.cases = cases
    b.nontrivial = cases
    b.failures = fails
    b.samples = ["Africa/Cairo 1970-2038 (short DST excursions 2010)", "Africa/Casablanca (Ramadan suspensions)", "Africa/Monrovia (offset -0:44:30)"]
    return b


def match(f, findings, cls):
    for x in findings:
        c = x.get("class", {})
        if c.get("stand_in") != "generated":
            continue
        if c.get("name") != cls:
            continue
        if c.get("provider") and c["provider"] != f["witness"].get("provider"):
            continue
        if c.get("zones") and f["witness"].get("zone") not in c["zones"]:
            continue
        return x
    return None


def replay_witness(w):
    import icalendar
    prov = w.get("provider", "zoneinfo")
    icalendar.timezone.tzp.use(prov)
    try:
        if w.get("regenerate"):
            return regenerate(prov, w["zone"], date(1970, 1, 1), date(2038, 1, 1))
        res = check(prov, w["zone"], date.fromisoformat(w["first"]), date.fromisoformat(w["last"]), random.Random(0), [])
        return res[0][0] if res else None
    finally:
        icalendar.timezone.tzp.use_default()
