"""Bounded stand-in for C01 (labelled bounded): the real pipeline on every .ics fixture of the repository and on generated calendars.

pass 1: tree1 = from_ical(x);  bytes1 = to_ical(tree1);  pass 2: tree2 = from_ical(bytes1);  bytes2 = to_ical(tree2);
required: tree2 == tree1 (components, property names, parameters, typed values) and bytes2 == bytes1; for generated well-formed
texts additionally tree1 == the tree the text was generated from.
"""
import glob
import os
import random

BOUND = {
    "quick": "every .ics file under src/icalendar/tests (calendars, events, alarms, timezones: about 130) single and multiple=True + 300 generated "
             "calendars (nesting <= 3, known / unknown components and properties, all value types, parameters with quoting, values over the "
             "delimiter alphabet outside the listed finding classes, folding at random places); both providers",
    "thorough": "the same with 3000 generated calendars",
}
DELIMS = list(" ,;:\"'=\\-_%nN/^") + ["ä", "€", "x", "y", "1", "\t"]


def fixtures():
    import icalendar
    base = os.path.join(os.path.dirname(icalendar.__file__), "tests")
    out = []
    for p in sorted(glob.glob(os.path.join(base, "**", "*.ics"), recursive=True)):
        out.append((os.path.relpath(p, base), open(p, "rb").read()))
    return out


def tree(c):
    def val(v):
        try:
            text = v.to_ical() if hasattr(v, "to_ical") else repr(v)
        except Exception as e:  # noqa
            text = f"<{type(e).__name__}>"
        dt = getattr(v, "dt", None)
        off = None
        if hasattr(dt, "utcoffset"):
            try:
                off = dt.utcoffset()
            except Exception:  # noqa
                off = "?"
        return (type(v).__name__, text, str(off), sorted((k, repr(p)) for k, p in getattr(v, "params", {}).items()))
    props = []
    for k in c.keys():
        vs = c[k] if isinstance(c[k], list) else [c[k]]
        props.append((k, [val(v) for v in vs]))
    return (c.name, sorted(props), [tree(s) for s in c.subcomponents])


def pipeline(data, multiple):
    """-> message or None; inputs that from_ical rejects are outside the property (None)"""
    import icalendar
    try:
        c1 = icalendar.Calendar.from_ical(data, multiple=multiple)
    except ValueError:
        return None
    cs1 = c1 if multiple else [c1]
    t1 = [tree(c) for c in cs1]
    b1 = [c.to_ical() for c in cs1]
    t2, b2 = [], []
    for b in b1:
        try:
            c2 = icalendar.Calendar.from_ical(b)
        except Exception as e:  # noqa
            return f"the serialisation of an accepted input is rejected: {type(e).__name__}: {e}; bytes {b[:200]!r}"
        t2.append(tree(c2))
        b2.append(c2.to_ical())
    if t2 != t1:
        return f"tree after pass 2 differs from pass 1: {diff(t1, t2)}"
    if b2 != b1:
        return f"bytes after pass 2 differ from pass 1: {bdiff(b1, b2)}"
    return None


def diff(a, b):
    if type(a) != type(b):
        return f"{a!r} != {b!r}"[:300]
    if isinstance(a, (list, tuple)):
        if len(a) != len(b):
            return f"length {len(a)} != {len(b)}: {a!r} vs {b!r}"[:300]
        for x, y in zip(a, b):
            if x != y:
                return diff(x, y)
    return f"{a!r} != {b!r}"[:300]


def bdiff(b1, b2):
    for x, y in zip(b1, b2):
        if x != y:
            xs, ys = x.split(b"\r\n"), y.split(b"\r\n")
            for l1, l2 in zip(xs, ys):
                if l1 != l2:
                    return f"{l1!r} != {l2!r}"
            return f"{len(xs)} lines vs {len(ys)}"
    return "?"


def in_known_class(s):
    """values inside the listed C07 / C05 finding classes (backslash sequences, %XX placeholders): the first parse is not exact there"""
    return "\\" in s or "%" in s


def gen_text(rnd, n=None):
    """values over the delimiter alphabet, outside the listed finding classes C01-F1 / C07-F2 (their escaped text would contain two
    consecutive backslashes or a %XX placeholder); those classes are replayed from the findings file instead"""
    n = rnd.randint(0, 12) if n is None else n
    s = "".join(rnd.choice(DELIMS) for _ in range(n)).strip() or "v"
    return s.replace("\\", "/").replace("%", "pc")


def gen_component(rnd, depth=0):
    """-> (lines, expected tree-ish description)"""
    # the wire text is produced by OWN encoders (RFC 5545 3.3.11 / 3.2), not by the library's escape_char / dquote

    def escape_char(v):
        return v.replace("\\", "\\\\").replace(";", "\\;").replace(",", "\\,").replace("\r\n", "\\n").replace("\n", "\\n")

    def dquote(v):
        return '"' + v + '"' if any(c in v for c in ",;:") or rnd.random() < 0.3 else v          # (quoting is always allowed)
    name = rnd.choice(["VEVENT", "VTODO", "VJOURNAL", "X-BOX", "VALARM", "X-" + rnd.choice(["A", "B"])])
    lines = [rnd.choice(["BEGIN", "begin", "Begin"]) + ":" + (name if rnd.random() < 0.7 else name.lower())]
    exp_props = []
    for _ in range(rnd.choice([0, 1, 1, 2, 3, 4, 5]) if depth > 0 else rnd.randint(1, 5)):          # (a nested component may be EMPTY)
        kind = rnd.choice(["text", "text", "int", "dt", "dtz", "date", "dur", "uri", "xtext", "binary"])
        params = []
        if rnd.random() < 0.4:
            pv = gen_text(rnd, rnd.randint(1, 6)).replace('"', "'").replace("\\", "/").replace("\t", " ")
            if rnd.random() < 0.3:
                # white space at the edges of a parameter value is part of the value (quoted or not)
                edge = rnd.choice([" ", "\t", "\u00a0", "\u3000", "  "])
                pv = (edge + pv) if rnd.random() < 0.5 else (pv + edge)
            params.append(("X-P" + rnd.choice("12"), pv))
        if kind in ("text", "xtext") and rnd.random() < 0.3:
            # RFC 5545 3.3.11 escapes written directly in the text (including the upper-case newline escape)
            pname = rnd.choice(["SUMMARY", "DESCRIPTION", "COMMENT"]) if kind == "text" else "X-" + rnd.choice(["FOO", "BAR"])
            toks = [rnd.choice(["a", "b ", "ä", "\\n", "\\N", "\\,", "\\;", "'", "1"]) for _ in range(rnd.randint(1, 8))]
            text = "".join(toks).strip() or "v"
            v = text.replace("\\n", "\n").replace("\\N", "\n").replace("\\,", ",").replace("\\;", ";")
        elif kind in ("text", "xtext"):
            pname = rnd.choice(["SUMMARY", "DESCRIPTION", "COMMENT"]) if kind == "text" else "X-" + rnd.choice(["FOO", "BAR"])
            v = gen_text(rnd)
            text = escape_char(v)
        elif kind == "int":
            pname, v = rnd.choice(["PRIORITY", "SEQUENCE"]), rnd.randint(0, 9)
            text = str(v)
        elif kind == "dt":
            pname, v = rnd.choice(["DTSTART", "DTEND", "DTSTAMP"]), None
            year = rnd.choice([f"20{rnd.randint(10, 37)}", f"20{rnd.randint(10, 37)}", "0001", "0999", "1000", "9999"])      # (boundary years too)
            text = f"{year}{rnd.randint(1, 12):02}{rnd.randint(1, 28):02}T{rnd.randint(0, 23):02}{rnd.randint(0, 59):02}00" + rnd.choice(["", "Z"])
        elif kind == "dtz":
            pname, v = rnd.choice(["DTSTART", "DUE", "RECURRENCE-ID"]), None
            params.append(("TZID", rnd.choice(["Europe/Berlin", "America/New_York"])))
            text = f"20{rnd.randint(10, 37)}{rnd.randint(1, 12):02}{rnd.randint(1, 28):02}T{rnd.randint(0, 23):02}{rnd.randint(0, 59):02}00"
        elif kind == "date":
            pname, v = "DTSTART", None
            params.append(("VALUE", "DATE"))
            text = rnd.choice([f"20{rnd.randint(10, 37)}", "0001", "0050", "0999"]) + f"{rnd.randint(1, 12):02}{rnd.randint(1, 28):02}"
        elif kind == "dur":
            pname, v = "DURATION", None
            text = rnd.choice(["PT1H", "P1D", "-PT15M", "P1W", "P1DT2H3M4S"])
        elif kind == "binary":
            # an inline attachment (RFC 5545 3.8.1.1): the value text denotes OCTETS - not necessarily UTF-8, possibly starting with a BOM
            import base64
            pname, v = "ATTACH", None
            payload = rnd.choice([b"\x89PNG\r\n\x1a\n\x00\xff", b"\xef\xbb\xbftext with a BOM", b"\xef\xbb\xbf\xef\xbb\xbftwo", b"plain text", b"\x00\x01\x02",
                                  bytes(rnd.randrange(256) for _ in range(rnd.randint(1, 40)))])
            params += [("ENCODING", "BASE64"), ("VALUE", "BINARY")]
            text = base64.b64encode(payload).decode("ascii")
        else:
            pname, v = "URL", None
            text = "https://example.com/" + rnd.choice(["a", "b?c=d", "x;y"])
        spelled = pname if rnd.random() < 0.7 else rnd.choice([pname.lower(), pname.title()])       # names are case-insensitive
        head = spelled + "".join(f";{k if rnd.random() < 0.8 else k.lower()}={dquote(val)}" for k, val in params)
        lines.append(f"{head}:{text}")
        exp_props.append((pname, v if kind in ("text", "xtext") else None, params))
    subs = []
    if depth < 2:
        for _ in range(rnd.randint(0, 2)):
            ls, ex = gen_component(rnd, depth + 1)
            lines += ls
            subs.append(ex)
    lines.append(rnd.choice(["END", "end"]) + ":" + (name if rnd.random() < 0.7 else name.lower()))
    return lines, (name, exp_props, subs)


def fold(rnd, line):
    if len(line) < 8 or rnd.random() < 0.5:
        return line
    data = line
    out = []
    while len(data) > 6 and rnd.random() < 0.7:
        k = rnd.randint(1, min(40, len(data) - 1))
        out.append(data[:k])
        data = data[k:]
    out.append(data)
    return ("\r\n" + rnd.choice(" \t")).join(out)


def binary_payloads(data):
    """the octets denoted by the ATTACH;VALUE=BINARY lines of a serialisation, in order"""
    import base64
    text = data.decode("utf-8") if isinstance(data, bytes) else data
    text = text.replace("\r\n ", "").replace("\r\n\t", "")
    out = []
    for line in text.split("\r\n"):
        inq, cut = False, None
        for i, ch in enumerate(line):          # the first colon outside a quoted parameter value ends the head
            if ch == '"':
                inq = not inq
            elif ch == ":" and not inq:
                cut = i
                break
        if cut is None:
            continue
        head, val = line[:cut], line[cut + 1:]
        if head.upper().startswith("ATTACH") and "VALUE=BINARY" in head.upper().replace('"', ""):
            try:
                out.append(base64.b64decode(val, validate=True))
            except Exception:  # noqa
                out.append(("not base64", val))
    return sorted(out, key=repr)          # as a multiset: the serialisation may order properties differently


def gen_calendar(rnd):
    lines = ["BEGIN:VCALENDAR", "VERSION:2.0", "PRODID:-//verif//C01//"]
    exps = []
    for _ in range(rnd.randint(1, 3)):
        ls, ex = gen_component(rnd)
        lines += ls
        exps.append(ex)
    lines.append("END:VCALENDAR")
    return "\r\n".join(fold(rnd, l) for l in lines) + "\r\n", exps


def exact(cal, exps):
    """the first parse recovers the names, parameters and TEXT values the text was generated from"""
    if len(cal.subcomponents) != len(exps):
        return f"{len(cal.subcomponents)} subcomponents, generated {len(exps)}"

    def walk(c, ex):
        name, props, subs = ex
        if c.name != name:
            return f"component name {c.name!r} != {name!r}"
        seen = {}
        for pname, v, params in props:
            vals = c.get(pname)
            vals = vals if isinstance(vals, list) else [vals]
            k = seen.get(pname, 0)
            seen[pname] = k + 1
            if k >= len(vals) or vals[k] is None:
                return f"{pname} #{k} missing in {c.name}"
            got = vals[k]
            if v is not None and not in_known_class(v) and str(got) != v:
                return f"{pname}: parsed {str(got)!r}, the text denotes {v!r}"
            for pk, pv in params:
                if getattr(got, "params", {}).get(pk) != pv:
                    return f"{pname};{pk}: parsed {getattr(got, 'params', {}).get(pk)!r}, the text denotes {pv!r}"
        if len(c.subcomponents) != len(subs):
            return f"{c.name}: {len(c.subcomponents)} subcomponents, generated {len(subs)}"
        for s, e in zip(c.subcomponents, subs):
            m = walk(s, e)
            if m:
                return m
        return None
    for s, e in zip(cal.subcomponents, exps):
        m = walk(s, e)
        if m:
            return m
    return None


def run(b, tier, seed, findings, known_seen):
    import icalendar
    rnd = random.Random(seed)
    fails = []
    cases = 0
    provs = ["zoneinfo", "pytz"]
    for prov in provs:
        icalendar.timezone.tzp.use(prov)
        try:
            for name, data in fixtures():
                for multiple in (False, True):
                    cases += 1
                    try:
                        msg = pipeline(data, multiple)
                    except Exception as e:  # noqa
                        msg = f"{type(e).__name__}: {e}"
                    if msg and len(fails) < 25:
                        f = {"witness": {"fixture": name, "multiple": multiple, "provider": prov}, "detail": f"[{prov}] {name} (multiple={multiple}): {msg}"}
                        fid = match(f, findings)
                        if fid:
                            known_seen.append(f"{fid['id']} {fid['what']} (witness {name})")
                        else:
                            fails.append(f)
            for i in range(300 if tier == "quick" else 3000):
                cases += 1
                r2 = random.Random(seed * 100003 + i)
                text, exps = gen_calendar(r2)
                try:
                    msg = pipeline(text.encode("utf-8"), False)
                    if msg is None:
                        cal = icalendar.Calendar.from_ical(text)
                        msg = exact(cal, exps)
                        if msg:
                            msg = "well-formed text, first parse not exact: " + msg
                        elif binary_payloads(cal.to_ical()) != binary_payloads(text):
                            msg = (f"well-formed text, first parse not exact: the inline attachments denote {binary_payloads(text)!r}, "
                                   f"after parse + serialise {binary_payloads(cal.to_ical())!r}")
                except Exception as e:  # noqa
                    msg = f"{type(e).__name__}: {e}"
                if msg and len(fails) < 25:
                    fails.append({"witness": {"generated": i, "seed": seed, "provider": prov, "text": text}, "detail": f"[{prov}] generated #{i}: {msg}"})
        finally:
            icalendar.timezone.tzp.use_default()
    # the listed findings on value texts: replay their witnesses through the whole pipeline
    for f in findings:
        if "contains_any" in f.get("class", {}) and isinstance(f.get("witness"), str):
            name = "CATEGORIES" if "CATEGORIES" in f.get("obligation", "") else "SUMMARY"
            text = f"BEGIN:VCALENDAR\r\nBEGIN:VEVENT\r\n{name}:{f['witness']}\r\nEND:VEVENT\r\nEND:VCALENDAR\r\n"
            try:
                msg = pipeline(text.encode("utf-8"), False)
            except Exception as e:  # noqa
                msg = f"{type(e).__name__}: {e}"
            if msg:
                known_seen.append(f"{f['id']} {f['what']} (witness {name}:{f['witness']} -> {msg[:160]})")
    b.cases = cases
    b.nontrivial = cases
    b.failures = fails
    b.samples = ["tests/calendars/*.ics single and multiple=True", "generated: X-BOX > VTODO > VALARM with folded DESCRIPTION over the delimiter alphabet"]
    return b


def match(f, findings):
    for x in findings:
        c = x.get("class", {})
        if c.get("stand_in") == "pipeline" and c.get("fixture") == f["witness"].get("fixture"):
            return x
    return None


def search_for(oid):
    from vc.common import Bounded, findings_for
    b = Bounded("s", "", "")
    run(b, "quick", 0, findings_for("C01"), [])
    for f in b.failures:
        return f["witness"], f["detail"]
    return None


def replay_witness(w):
    import icalendar
    icalendar.timezone.tzp.use(w.get("provider", "zoneinfo"))
    try:
        if "fixture" in w:
            for name, data in fixtures():
                if name == w["fixture"]:
                    return pipeline(data, w.get("multiple", False))
        if "text" in w:
            return pipeline(w["text"].encode("utf-8"), False)
        return None
    finally:
        icalendar.timezone.tzp.use_default()
