"""C06 -- folding: physical lines <= 75 octets, no split characters, exact unfolding.

Functions under contract (re-read from /repo/src/icalendar/parser.py on every run):
  foldline (both paths), the unfold regex uFOLD and NEWLINE, Contentline.to_ical/from_ical, Contentlines.to_ical/from_ical.

foldline is turned into a finite transducer over width classes of characters (1, 2, 3, 4 octets; space, tab, CR kept
apart) by a *semantic loop quotient*: the real loop body (compiled from the AST) is executed on every reachable value of
its only state variable `byte_count` and every character class; the ASCII fast path is recognised as
`SEP.join(line[i:i+W] for i in range(0, len(line), STEP))` with W, STEP evaluated from the real expressions.
Contract of foldline (for every line without LF, every length, every mix of widths and every alignment):
  P1  every physical line of the result (split at CRLF) has at most 75 octets
  P2  every continuation line starts with one space (the added one)
  P3  the result is the input with separators inserted between whole characters (never inside one): by construction
      of the transducer over characters + P4
  P4  uFOLD.sub('', foldline(line)) == line          (unfolding restores the line exactly)
  P5  Contentlines.from_ical(Contentlines(lines).to_ical()) == lines + ['']   for non-empty LF-free lines that do not
      start with space or tab
All decided by vc/fstc for ALL strings; shortest counterexamples are replayed on the real functions.
"""
from __future__ import annotations

import ast
import itertools
import random
import time

from vc import common
from vc.common import Obligation, Bounded, PROVED, REFUTED, UNDECIDED, ERROR
from vc.pyvc import source
from vc.fstc import extract, oblig
from vc.fstc import fst as F
from vc.fstc import regex as R
from vc.fstc import decide as D

LEVEL = "proof"
PID = "C06"
# representatives: ASCII other, space, tab, CR, 2-, 3-, 4-octet characters (LF is excluded by foldline's precondition)
A0 = ["a", " ", "\t", "\r", "é", "€", "\U0001F600"]
LF = "\n"
AOUT = A0 + [LF]
M = "\x1f"


def width(c):
    return len(c.encode("utf-8"))


class Fold:
    """the pieces of foldline read from the AST"""

    def __init__(self):
        self.mod, self.node = source.find("parser:foldline")
        if self.node is None:
            raise extract.Outside("foldline not found")
        a = self.node.args
        names = [x.arg for x in a.args]
        defaults = dict(zip(names[len(names) - len(a.defaults):], a.defaults))
        def lit(e):
            # a literal, or a module-level name bound once to a literal (e.g. limit=FOLD_LIMIT)
            if isinstance(e, ast.Name):
                vals = [n.value for n in source.module("parser").tree.body
                        if isinstance(n, ast.Assign) and any(isinstance(t, ast.Name) and t.id == e.id for t in n.targets)]
                if len(vals) == 1:
                    return ast.literal_eval(vals[0])
            return ast.literal_eval(e)
        try:
            self.limit = lit(defaults["limit"])
            self.fold_sep = lit(defaults["fold_sep"])
        except Exception:
            raise extract.Outside("foldline defaults are not literals")
        body = source.strip_docstring(self.node.body)
        self.loop = None
        self.try_node = None
        for st in body:
            if isinstance(st, ast.For):
                self.loop = st
            if isinstance(st, ast.Try):
                self.try_node = st
        if self.loop is None or self.try_node is None:
            raise extract.Outside("foldline no longer has the try/else fast path followed by a character loop")
        # fast path condition must be `line.encode('ascii')` guarded by UnicodeEncodeError
        t = self.try_node
        cond_ok = (len(t.body) == 1 and isinstance(t.body[0], ast.Expr) and ast.unparse(t.body[0].value) == "line.encode('ascii')"
                   and t.orelse and isinstance(t.orelse[0], ast.Return))
        if not cond_ok:
            raise extract.Outside("fast-path test is not `line.encode('ascii')`")
        self.fast_ret = t.orelse[0].value
        # after the loop: return ''.join(ret_chars)
        last = body[-1]
        v = last.value if isinstance(last, ast.Return) else None
        if not (isinstance(v, ast.Call) and isinstance(v.func, ast.Attribute) and v.func.attr == "join" and isinstance(v.func.value, ast.Constant)
                and v.func.value.value == "" and len(v.args) == 1 and isinstance(v.args[0], ast.Name)):
            raise extract.Outside("general path does not end with ''.join(<list of pieces>)")
        self.acc = v.args[0].id            # the list the loop appends to (whatever it is called)
        if not (isinstance(self.loop.target, ast.Name) and ast.unparse(self.loop.iter) == "line"):
            raise extract.Outside("loop is not `for <char> in line`")

    def general(self, alphabet):
        """sequential transducer of the character loop: state = the loop's integer/bool state variables"""
        loop = self.loop
        var = loop.target.id
        code = compile(ast.Module(body=loop.body, type_ignores=[]), str(self.mod.path), "exec")
        assigned = sorted({t.id for n in ast.walk(loop) for t in (n.targets if isinstance(n, ast.Assign) else [n.target] if isinstance(n, ast.AugAssign) else [])
                           if isinstance(t, ast.Name)})
        # initial values: the simple assignments before the loop
        init = {}
        for st in source.strip_docstring(self.node.body):
            if st is loop:
                break
            if isinstance(st, ast.Assign) and len(st.targets) == 1 and isinstance(st.targets[0], ast.Name):
                try:
                    init[st.targets[0].id] = ast.literal_eval(st.value)
                except Exception:
                    pass
        state_vars = [v for v in assigned if v in init and isinstance(init[v], (int, bool))]
        glb = {"DEFAULT_ENCODING": "utf-8", "len": len}

        def step(q, ch):
            if ch == LF:
                return []                    # precondition of foldline: no LF in the line (AssertionError otherwise)
            ns = dict(zip(state_vars, q))
            ns.update({self.acc: [], "limit": self.limit, "fold_sep": self.fold_sep, var: ch})
            exec(code, glb, ns)
            out = "".join(ns[self.acc])
            q2 = tuple(ns[v] for v in state_vars)
            if any(abs(x) > 10 * self.limit for x in q2 if isinstance(x, int)):
                raise extract.Outside("loop state is not bounded")
            return q2, out
        q0 = tuple(init[v] for v in state_vars)
        self.state_vars = state_vars
        return F.FST.from_function(alphabet, q0, step, lambda q: "")

    def ascii(self, alphabet):
        """fast path: SEP.join(line[i:i+W] for i in range(0, len(line), STEP)) => chunks of W == STEP characters"""
        e = self.fast_ret
        ok = (isinstance(e, ast.Call) and isinstance(e.func, ast.Attribute) and e.func.attr == "join" and ast.unparse(e.func.value) == "fold_sep"
              and len(e.args) == 1 and isinstance(e.args[0], ast.GeneratorExp))
        if ok:
            g = e.args[0]
            gen = g.generators
            ok = (len(gen) == 1 and not gen[0].ifs and isinstance(gen[0].target, ast.Name) and isinstance(gen[0].iter, ast.Call)
                  and isinstance(gen[0].iter.func, ast.Name) and gen[0].iter.func.id == "range" and len(gen[0].iter.args) == 3
                  and ast.unparse(gen[0].iter.args[0]) == "0" and ast.unparse(gen[0].iter.args[1]) == "len(line)")
        if ok:
            i = gen[0].target.id
            sl = g.elt
            ok = (isinstance(sl, ast.Subscript) and ast.unparse(sl.value) == "line" and isinstance(sl.slice, ast.Slice)
                  and ast.unparse(sl.slice.lower) == i and sl.slice.step is None and sl.slice.upper is not None
                  and {n.id for n in ast.walk(sl.slice.upper) if isinstance(n, ast.Name)} <= {i, "limit"})
        if not ok:
            raise extract.Outside("fast path is not fold_sep.join(line[i:i+W] for i in range(0, len(line), STEP))")
        env = {"limit": self.limit}
        up = compile(ast.Expression(sl.slice.upper), "<upper>", "eval")
        W = eval(up, {}, {**env, i: 0})
        if any(eval(up, {}, {**env, i: k}) != W + k for k in (1, 7, 74, 1000)):
            raise extract.Outside("slice upper bound is not i + constant")
        STEP = eval(compile(ast.Expression(gen[0].iter.args[2]), "<STEP>", "eval"), {}, env)
        if not (isinstance(W, int) and isinstance(STEP, int) and W == STEP and W > 0):
            raise extract.Outside(f"fast path slices are not a partition (W={W}, STEP={STEP})")
        self.chunk = W

        def step(q, ch):
            if ch == LF:
                return []
            if q == W:
                return 1, self.fold_sep + ch
            return q + 1, ch
        return F.FST.from_function(alphabet, 0, step, lambda q: "")

    def transducer(self, alphabet):
        all_ascii = R.DFA.from_function(alphabet, True, lambda q, a: q and ord(a) < 128, lambda q: q)
        return F.union(F.restrict(self.ascii(alphabet), all_ascii), F.restrict(self.general(alphabet), all_ascii.complement()))


def regex_of(name):
    ex = extract.Extractor("parser", AOUT)
    return ex.regex_source(name)


def line_length_dfa(alphabet, limit):
    """outputs whose physical lines (split at CRLF) all have at most `limit` octets"""
    cap = limit + 8

    def step(q, a):
        if q == "bad":
            return "bad"
        count, last_cr = q
        if a == "\n" and last_cr:
            return "bad" if count - 1 > limit else (0, False)
        count += width(a)
        if count - (1 if a == "\r" else 0) > limit or count > cap:
            return "bad"
        return (count, a == "\r")
    return R.DFA.from_function(alphabet, (0, False), step, lambda q: q != "bad" and q[0] <= limit)


def continuation_dfa(alphabet):
    """after every CRLF comes a space"""
    def step(q, a):
        if q == "bad":
            return "bad"
        if q == "after_lf":
            return "line" if a == " " else "bad"
        if q == "cr":
            return "after_lf" if a == "\n" else ("cr" if a == "\r" else "line")
        if a == "\n":
            return "bad"                    # a bare LF never appears
        return "cr" if a == "\r" else "line"
    return R.DFA.from_function(alphabet, "line", step, lambda q: q in ("line", "cr"))


def from_ical_shape(from_node):
    """Contentlines.from_ical must be exactly: to_unicode; unfold by uFOLD; split on NEWLINE dropping empty lines; append ''"""
    body = source.strip_docstring(from_node.body)
    want_try = ["unfolded = uFOLD.sub('', st)", "lines = cls((Contentline(line) for line in NEWLINE.split(unfolded) if line))",
                "lines.append('')", "return lines"]
    ok = len(body) == 2 and ast.unparse(body[0]) == "st = to_unicode(st)" and isinstance(body[1], ast.Try) \
        and [ast.unparse(x) for x in body[1].body] == want_try and not body[1].orelse and not body[1].finalbody
    if not ok:
        raise extract.Outside("Contentlines.from_ical is not: to_unicode; uFOLD.sub; NEWLINE.split dropping empty lines; append ''")


def lines_transducers(fold_out):
    """Contentlines.to_ical / from_ical on marker-encoded lists of lines (alphabet AOUT + marker)"""
    mod = source.module("parser")
    A2 = AOUT + [M]
    to_node = mod.lookup("Contentlines.to_ical")
    from_node = mod.lookup("Contentlines.from_ical")
    if to_node is None or from_node is None:
        raise extract.Outside("Contentlines.to_ical/from_ical not found")
    body = source.strip_docstring(to_node.body)
    want = "b'\\r\\n'.join((line.to_ical() for line in self if line)) + b'\\r\\n'"
    if not (len(body) == 1 and isinstance(body[0], ast.Return) and ast.unparse(body[0].value) == want):
        raise extract.Outside("Contentlines.to_ical is not CRLF.join(line.to_ical() for line in self if line) + CRLF")
    ct = mod.lookup("Contentline.to_ical")
    if ct is None or ast.unparse(source.strip_docstring(ct.body)[0]) != "return foldline(self).encode(DEFAULT_ENCODING)":
        raise extract.Outside("Contentline.to_ical is not foldline(self).encode(...)")
    # per line: fold; join with CRLF; trailing CRLF  (empty lines are skipped by `if line`: domain has none)
    to = F.concat_const("", F.compose(F.segmentwise(fold_out, M, A2), F.relabel({M: "\r\n"}, A2)), "\r\n")
    from_ical_shape(from_node)
    unfold = F.regex_sub_fst(regex_of("uFOLD"), "", A2)
    split = F.regex_split_fst(regex_of("NEWLINE"), M, A2)
    # drop empty segments, then append the empty string: on the marker encoding "x|y|" (every kept line followed by a marker)

    def step(q, a):
        # q: True when the current segment is still empty
        if a == M:
            return (True, "") if q else (True, M)
        return False, a
    drop_append = F.FST.from_function(A2, True, step, lambda q: "" if q else M)
    frm = F.compose_all([unfold, split, drop_append])
    spec = F.FST.from_function(A2, 0, lambda q, a: (0, a), lambda q: M)      # lines + [''] : encoding gets one more marker
    return to, frm, spec, A2


def native_fold():
    from icalendar.parser import foldline, uFOLD, Contentlines, Contentline
    return foldline, uFOLD, Contentlines, Contentline


def run(rep: common.Report):
    findings = common.findings_for(PID)
    rep.trust("engine: vc/fstc", "semantic loop quotient: the real loop body is executed on every reachable loop state and character class",
              "character abstraction: the body depends on a character only through len(char.encode('utf-8')) and appends it unchanged "
              "(checked by AST scan: the loop variable occurs only in `.encode(...)` under len() and in ret_chars.append)",
              "UTF-8 width of a code point is 1..4 (CPython)")
    foldline, uFOLD, Contentlines, Contentline = native_fold()
    fn = "parser:foldline"
    obs = []
    try:
        fold = Fold()
        T = fold.transducer(AOUT)
        rep.functions.add(fn)
        # the loop variable may only be used as len(<char>.encode(..)) and appended
        uses = [ast.unparse(n) for n in ast.walk(fold.loop) if isinstance(n, ast.Name) and n.id == fold.loop.target.id and isinstance(n.ctx, ast.Load)]
        src = ast.unparse(fold.loop)
        if src.count(fold.loop.target.id + ".encode(") + src.count(fold.acc + ".append(" + fold.loop.target.id + ")") != len(uses):
            raise extract.Outside("the loop inspects the character beyond its encoded length")
        states = T.explore(200000)
    except (extract.Outside, NotImplementedError) as e:
        for k in ("P1.physical_lines_at_most_75_octets", "P2.continuation_starts_with_space", "P4.unfold_restores_line", "P5.contentlines_round_trip"):
            rep.add(Obligation(f"{PID}.{k}", fn, "fstc", UNDECIDED, detail=f"outside the fstc fragment: {e}"))
        T = None
    if T is not None:
        rep.extra["foldline_transducer_states"] = states
        rep.extra["foldline_parameters"] = {"limit": fold.limit, "fold_sep": fold.fold_sep, "fast_path_chunk": fold.chunk,
                                            "loop_state_variables": fold.state_vars}
        # translation validation: transducer vs the real foldline on all strings <= 4 and on long seeded strings
        t = time.time()
        n, bad = extract.crosscheck(T, lambda x: None if LF in x else foldline(x), AOUT, 4)
        rnd = random.Random(rep.seed)
        for _ in range(400 if rep.tier == "quick" else 4000):
            s = "".join(rnd.choice(A0) for _ in range(rnd.randint(60, 400)))
            n += 1
            if bad is None and T.apply1(s) != foldline(s):
                bad = (s, T.apply1(s), foldline(s))
        rep.crosschecks.append({"name": "foldline transducer vs the real foldline", "strings": n, "ok": bad is None,
                                "first_disagreement": repr(bad)[:300], "seconds": round(time.time() - t, 2)})
        if bad is not None:
            rep.error(f"foldline extraction disagrees with the real function: {bad!r}"[:400])
        Tout = T
        ok_len = line_length_dfa(AOUT, 75)
        rep.add(oblig.decide_image(f"{PID}.P1.physical_lines_at_most_75_octets", fn, Tout, ok_len, AOUT,
                                   lambda s: (foldline(s), all(len(p.encode()) <= 75 for p in foldline(s).split("\r\n")))))
        rep.add(oblig.decide_image(f"{PID}.P2.continuation_starts_with_space", fn, Tout, continuation_dfa(AOUT), AOUT,
                                   lambda s: (foldline(s), all(p.startswith(" ") for p in foldline(s).split("\r\n")[1:]))))
        try:
            unfold = F.regex_sub_fst(regex_of("uFOLD"), "", AOUT)
            n2, dis, first = F.crosscheck_regex_sub(regex_of("uFOLD"), "", ["\r", "\n", " ", "\t", "a"], 6 if rep.tier == "quick" else 7)
            rep.crosschecks.append({"name": "uFOLD.sub transducer vs re.sub", "strings": n2, "ok": dis == 0, "first": repr(first)})
            if dis:
                rep.error("regex transducer of uFOLD disagrees with re.sub")
            ident = F.FST.from_function(AOUT, 0, lambda q, a: ((0, a) if a != LF else []), lambda q: "")
            rep.add(oblig.decide_equiv(f"{PID}.P4.unfold_restores_line", "parser:foldline + uFOLD (Contentline.from_ical)",
                                       F.compose(Tout, unfold), ident, AOUT, findings,
                                       lambda s: (uFOLD.sub("", foldline(s)), s), rep.known_seen))
            to, frm, spec, A2 = lines_transducers(Tout)
            # domain: marker-separated, non-empty, LF-free lines that do not start with space or tab
            dom = R.dfa_from_regex("[^ \\t\\n\\x1f][^\\n\\x1f]*(\\x1f[^ \\t\\n\\x1f][^\\n\\x1f]*)*", A2, "fullmatch")

            def native_lines(enc):
                ls = enc.split(M)
                back = Contentlines.from_ical(Contentlines([Contentline(x) for x in ls]).to_ical())
                return M.join(str(x) for x in back), M.join(ls + [""])
            rep.add(oblig.decide_equiv(f"{PID}.P5.contentlines_round_trip", "parser:Contentlines.to_ical/from_ical", F.compose(to, frm), spec,
                                       A2, findings, native_lines, rep.known_seen, domain=dom, show=lambda s: repr(s).replace("\\x1f", "|")))
        except (extract.Outside, NotImplementedError) as e:
            for k in ("P4.unfold_restores_line", "P5.contentlines_round_trip"):
                if not any(o.oid.endswith(k) for o in rep.obligations):
                    rep.add(Obligation(f"{PID}.{k}", fn, "fstc", UNDECIDED, detail=f"outside the fstc fragment: {e}"))
    # the link between foldline and what is written: Contentline.to_ical hands EVERY line to foldline (statement shape)
    mod_p = source.module("parser")
    node_t = mod_p.lookup("Contentline.to_ical")
    body_t = [ast.unparse(x) for x in source.strip_docstring(node_t.body)] if node_t is not None else None
    ok_t = body_t == ["return foldline(self).encode(DEFAULT_ENCODING)"]
    rep.add(Obligation(f"{PID}.P0.every_content_line_is_written_through_foldline", "parser:Contentline.to_ical", "fin", PROVED if ok_t else UNDECIDED,
                       detail="body is exactly `return foldline(self).encode(DEFAULT_ENCODING)` (default limit and separator)" if ok_t
                       else f"body is {body_t!r}: outside the statement shape (the stand-in decides)",
                       lines=source.lines_of(node_t) if node_t is not None else None))
    if ok_t:
        rep.functions.add("parser:Contentline.to_ical")
    # bounded stand-in on the real function: every alignment of every width with the boundary
    b = Bounded("C06.bnd.alignments", "parser:foldline / Contentline / Component.to_ical (real)",
                "lines of length 60..160 built from a prefix of 1-octet characters and every sequence of <= 3 characters of widths 1-4, CR, "
                "space, tab at every alignment with the 75-octet boundary; seeded long mixed lines; lines assembled by Contentline.from_parts with wide characters in the parameters only / the value only / both; a serialised Event with long properties")
    t0 = time.time()
    try:
        bounded(b, rep.tier, rep.seed)
    except Exception as e:  # noqa
        import traceback
        traceback.print_exc()
        b.error = repr(e)
    b.seconds = time.time() - t0
    rep.bounded.append(b)
    rep.explanation = __doc__


def check_line(line):
    foldline, uFOLD, Contentlines, Contentline = native_fold()
    out = foldline(line)
    msgs = []
    phys = out.split("\r\n")
    if any(len(p.encode("utf-8")) > 75 for p in phys):
        msgs.append(f"physical line of {max(len(p.encode('utf-8')) for p in phys)} octets")
    if any(not p.startswith(" ") for p in phys[1:]):
        msgs.append("continuation line does not start with a space")
    try:
        emitted = Contentline(line).to_ical().split(b"\r\n")
        for p in emitted:
            p.decode("utf-8")
        if any(len(p) > 75 for p in emitted):
            msgs.append(f"Contentline.to_ical emits a physical line of {max(len(p) for p in emitted)} octets")
    except UnicodeDecodeError:
        msgs.append("a physical line is not valid UTF-8 on its own")
    if uFOLD.sub("", out) != line:
        msgs.append("unfolding does not restore the line")
    if str(Contentline.from_ical(Contentline(line).to_ical())) != line:
        msgs.append("Contentline.from_ical(to_ical()) differs")
    # the same line inside a list of lines (Contentlines.to_ical / from_ical: what Component.to_ical and from_ical use)
    if line and not line.startswith((" ", "\t")):
        try:
            data = Contentlines([Contentline("BEGIN:X"), Contentline(line), Contentline("END:X")]).to_ical()
            back = [str(x) for x in Contentlines.from_ical(data)]
            if back != ["BEGIN:X", line, "END:X", ""]:
                msgs.append(f"Contentlines.from_ical(Contentlines([.., line, ..]).to_ical()) gives {back!r}")
            if data != Contentline("BEGIN:X").to_ical() + b"\r\n" + Contentline(line).to_ical() + b"\r\n" + Contentline("END:X").to_ical() + b"\r\n":
                msgs.append("Contentlines.to_ical is not the CRLF-joined lines")
        except Exception as e:  # noqa
            msgs.append(f"Contentlines round trip raises {type(e).__name__}: {e}")
    return msgs


def bounded(b, tier, seed):
    rnd = random.Random(seed)
    specials = ["a", "é", "€", "\U0001F600", "\r", " ", "\t", " ", "ÿ", "\U000FFFFF", "\U00010000", "￿"]
    fails = {}
    n = 0
    k = 2 if tier == "quick" else 3
    for pre in range(66, 80):
        for mid in itertools.product(specials, repeat=k):
            for tail in (0, 80):
                line = "N" * pre + "".join(mid) + "z" * tail
                n += 1
                for m in check_line(line):
                    fails.setdefault(m.split(" of ")[0], {"witness": {"line": line}, "detail": f"{line!r}: {m}"})
    for _ in range(300 if tier == "quick" else 5000):
        line = "".join(rnd.choice(specials) for _ in range(rnd.randint(1, 300)))
        n += 1
        for m in check_line(line):
            fails.setdefault(m.split(" of ")[0], {"witness": {"line": line}, "detail": f"{line!r}: {m}"})
    # all-ASCII lines (the fast path): white space at every position around the first, second and third fold point, and random ASCII lines
    for pos in list(range(66, 82)) + list(range(140, 158)) + list(range(214, 232)):
        for ws in (" ", "\t", "  ", " \t ", "\r"):
            line = "N" * pos + ws + "z" * 90
            n += 1
            for m in check_line(line):
                fails.setdefault("ascii" + m.split(" of ")[0], {"witness": {"line": line}, "detail": f"{line!r}: {m}"})
    for _ in range(200 if tier == "quick" else 3000):
        line = "".join(rnd.choice("ab  \t:;=,") for _ in range(rnd.randint(70, 400)))
        n += 1
        for m in check_line(line):
            fails.setdefault("ascii" + m.split(" of ")[0], {"witness": {"line": line}, "detail": f"{line!r}: {m}"})
    # few characters, many octets (a length test in characters is not a length test in octets)
    for nch in range(15, 80):
        for ch in ("\u00e9", "\u20ac", "\u4f1a", "\U0001F600"):
            for head in ("S:", "SUMMARY;LANGUAGE=zh:"):
                line = head + ch * nch
                n += 1
                for m in check_line(line):
                    fails.setdefault(m.split(" of ")[0], {"witness": {"line": line}, "detail": f"{line!r}: {m}"})
    from icalendar import Event
    for summary in ("\u4f1a" * 32, "\U0001F600" * 20, "\u00e9" * 60):
        e = Event()
        e.add("summary", summary)
        for p in e.to_ical().split(b"\r\n"):
            n += 1
            if len(p) > 75:
                fails.setdefault("component", {"witness": {"component": "event", "summary": summary}, "detail": f"an Event with SUMMARY {summary!r} is serialised with a {len(p)}-octet line"})
    # lines assembled from parts (Contentline.from_parts: what Component.content_line hands to Contentlines): wide characters in the
    # parameters only, in the value only, in both - the width of a line is the width of all of its parts
    from icalendar.parser import Parameters
    from icalendar.prop import vText, vCalAddress
    _, _, _, Contentline = native_fold()
    for pv in ("plain", "\u5c71\u7530\u592a\u90ce" * 8, "\u00e9" * 70, "\U0001F600" * 20, "a" * 60 + "\u20ac" * 9):
        for val in ("mailto:someone@example.com", "x" * 120, "\u4f1a" * 40, "y" * 70 + "\u00e9"):
            for typed in (vText(val), vCalAddress(val)):
                line = Contentline.from_parts("ATTENDEE", Parameters({"CN": pv}), typed)
                n += 1
                try:
                    emitted = line.to_ical().split(b"\r\n")
                    for p_ in emitted:
                        p_.decode("utf-8")
                    bad = max(len(p_) for p_ in emitted) > 75
                    back = str(Contentline.from_ical(line.to_ical())) != str(line)
                except UnicodeDecodeError:
                    bad, back = True, False
                if bad or back:
                    fails.setdefault("from_parts", {"witness": {"from_parts": ["ATTENDEE", {"CN": pv}, val]},
                                                    "detail": f"Contentline.from_parts('ATTENDEE', CN={pv!r}, {val!r}).to_ical(): "
                                                              + ("a physical line over 75 octets or split inside a character" if bad else "does not unfold to the line")})
    e = Event()
    e.add("attendee", "mailto:someone@example.com", parameters={"CN": "\u5c71\u7530\u592a\u90ce" * 8})
    for p in e.to_ical().split(b"\r\n"):
        n += 1
        if len(p) > 75:
            fails.setdefault("component", {"witness": {"component": "event", "attendee_cn": "\u5c71\u7530\u592a\u90ce" * 8}, "detail": f"an Event with a wide CN parameter is serialised with a {len(p)}-octet line"})
    e = Event()
    e.add("summary", "ä" * 100 + "\U0001F600" * 40)
    e.add("description", "x" * 200 + "\r" + "y" * 100)
    for p in e.to_ical().split(b"\r\n"):
        n += 1
        if len(p) > 75:
            fails.setdefault("component", {"witness": {"component": "event"}, "detail": f"serialised component has a {len(p)}-octet line"})
    b.cases, b.nontrivial = n, n
    b.failures = list(fails.values())
    b.samples = ["'N'*74 + 'é€' + 'z'*80"]


def replay(payload: dict) -> int:
    w = payload.get("witness") or {}
    line = w.get("line") or w.get("input")
    if w.get("from_parts"):
        from icalendar.parser import Parameters
        from icalendar.prop import vText
        _, _, _, Contentline = native_fold()
        nm, ps, val = w["from_parts"]
        cl = Contentline.from_parts(nm, Parameters(ps), vText(val))
        emitted = cl.to_ical().split(b"\r\n")
        widest = max(len(x) for x in emitted)
        ok = widest <= 75 and str(Contentline.from_ical(cl.to_ical())) == str(cl)
        print("replay: from_parts line, widest physical line", widest, "octets;", "no violation on the current tree" if ok else "violation")
        return 0 if ok else 1
    if line is None:
        print("replay: no concrete input recorded;", payload.get("verifier_output"))
        return 1
    if M in line:
        foldline, uFOLD, Contentlines, Contentline = native_fold()
        ls = line.split(M)
        back = [str(x) for x in Contentlines.from_ical(Contentlines([Contentline(x) for x in ls]).to_ical())]
        print("replay:", back, "expected", ls + [""])
        return 0 if back == ls + [""] else 1
    msgs = check_line(line.replace(LF, ""))
    print("replay:", msgs or "no violation on the current tree")
    return 1 if msgs else 0
