"""fin (complete over the installed tz database) and bounded stand-in for C11 (labelled).

fin:  for every zone key of both providers: the key needs no cleaning, the provider finds it, tzid_from_tzinfo gives the key back.
bnd:  zones x wall times (every offset transition found between 1900 and 2100 -1 s / 0 / +1 s / +1 h, gaps and folds, plus seeded
      times) through Event: single value (DTSTART), date list (RDATE), period (FREEBUSY / RDATE;VALUE=PERIOD), UTC properties;
      zoneinfo, pytz and dateutil tzinfo objects (dateutil: wall time only).
"""
import random
from datetime import datetime, timedelta, timezone

BOUND = {
    "quick": "all zone keys of both providers for the lookups (complete); round trips: 60 seeded zones (always including UTC aliases, "
             "links, Etc/*, Lord_Howe, Kathmandu, Chatham, Apia, Casablanca) x every transition 1900-2100 (-1 s, 0, +1 s, +-1 h) + 6 seeded "
             "times each under zoneinfo, the 20 fixed zones also under pytz; single value, list, period with duration, period with explicit "
             "end a day later, UTC properties incl. the ACKNOWLEDGED setter; dateutil objects for 10 zones",
    "thorough": "all zone keys x every transition 1900-2100 (-1 s, 0, +1 s, +1 h) + 6 seeded times, both providers; dateutil objects for 40 zones",
}
ALWAYS = ["UTC", "Etc/UTC", "Zulu", "GMT", "Etc/GMT+5", "Etc/GMT-14", "Europe/Berlin", "America/New_York", "Australia/Lord_Howe", "Asia/Kathmandu",
          "Pacific/Chatham", "Pacific/Apia", "Africa/Casablanca", "America/St_Johns", "Asia/Kolkata", "US/Eastern", "Europe/Dublin",
          "America/Argentina/ComodRivadavia", "Antarctica/Troll", "Asia/Tehran"]


def all_keys(provider):
    if provider == "pytz":
        import pytz
        return sorted(pytz.all_timezones)
    import zoneinfo
    return sorted(zoneinfo.available_timezones())


def localise(provider, naive, key):
    """the value the provider assigns to that wall time (fold 0: iCalendar text has no way to say 'the second occurrence')"""
    naive = naive.replace(fold=0)
    if provider == "pytz":
        import pytz
        return pytz.timezone(key).localize(naive)
    import zoneinfo
    return naive.replace(tzinfo=zoneinfo.ZoneInfo(key))


def fin_lookups(provider):
    """-> (cases, failures)"""
    import icalendar
    from icalendar.timezone.tzid import tzid_from_tzinfo, tzid_from_dt
    from icalendar.timezone import tzp
    fails = []
    n = 0
    for k in all_keys(provider):
        n += 1
        if tzp.clean_timezone_id(k) != k:
            fails.append({"witness": {"zone": k, "provider": provider}, "detail": f"clean_timezone_id({k!r}) = {tzp.clean_timezone_id(k)!r}"})
            continue
        tz = tzp.timezone(k)
        if tz is None:
            fails.append({"witness": {"zone": k, "provider": provider}, "detail": f"tzp.timezone({k!r}) is None"})
            continue
        got = tzid_from_tzinfo(tz)
        if got != k:
            fails.append({"witness": {"zone": k, "provider": provider}, "detail": f"tzid_from_tzinfo(tzp.timezone({k!r})) = {got!r}"})
            continue
        d = localise(provider, datetime(2024, 6, 1, 12, 0), k)
        if tzid_from_dt(d) != k:
            fails.append({"witness": {"zone": k, "provider": provider}, "detail": f"tzid_from_dt(noon in {k!r}) = {tzid_from_dt(d)!r}"})
    return n, fails


def transitions(key, lo=1900, hi=2100):
    """UTC instants at which the offset of the zone changes (zoneinfo data, used for both providers)"""
    import zoneinfo
    tz = zoneinfo.ZoneInfo(key)
    out = []
    t = datetime(lo, 1, 1, tzinfo=timezone.utc)
    end = datetime(hi, 1, 1, tzinfo=timezone.utc)
    step = timedelta(days=20)
    prev = t.astimezone(tz).utcoffset()
    while t < end:
        nxt = t + step
        off = nxt.astimezone(tz).utcoffset()
        if off != prev:
            a, b = t, nxt
            while b - a > timedelta(seconds=1):
                mid = a + (b - a) / 2
                mid = mid.replace(microsecond=0)
                if mid.astimezone(tz).utcoffset() == prev:
                    a = mid
                else:
                    b = mid
            out.append(b)
            prev = b.astimezone(tz).utcoffset()
            t = b
            continue
        t = nxt
    return out


def wall_times(key, rnd):
    import zoneinfo
    tz = zoneinfo.ZoneInfo(key)
    walls = set()
    for inst in transitions(key):
        for delta in (-1, 0, 1, 3600, -3600, 1800):
            w = (inst + timedelta(seconds=delta)).astimezone(tz).replace(tzinfo=None, fold=0)
            walls.add(w)
            # the wall time just before the jump, seen from the old offset (gaps)
            w2 = (inst + timedelta(seconds=delta)).replace(tzinfo=None) + (inst - timedelta(seconds=1)).astimezone(tz).utcoffset()
            if 1900 <= w2.year <= 2100:
                walls.add(w2)
    for _ in range(6):
        walls.add(datetime(rnd.randint(1900, 2100), rnd.randint(1, 12), rnd.randint(1, 28), rnd.randint(0, 23), rnd.randint(0, 59), rnd.randint(0, 59)))
    return sorted(walls)


def check_value(provider, key, naive):
    """-> message or None: single value, list, period through Event"""
    import icalendar
    from icalendar import Event
    d = localise(provider, naive, key)
    e = Event()
    e.add("dtstart", d)
    e.add("rdate", [d])
    e.add("freebusy", (d, timedelta(hours=1)))
    text = e.to_ical().decode()
    fields = naive.strftime("%Y%m%dT%H%M%S")
    is_utc = key == "UTC"
    want_head = "DTSTART:" + fields + "Z" if is_utc else f"DTSTART;TZID={key}:{fields}"
    lines = text.replace("\r\n ", "").split("\r\n")
    if want_head not in lines:
        return f"DTSTART of {naive} in {key} is written as {[l for l in lines if l.startswith('DTSTART')]} (expected {want_head!r})"
    want_rd = "RDATE:" + fields + "Z" if is_utc else f"RDATE;TZID={key}:{fields}"
    if want_rd not in lines:
        return f"RDATE of {naive} in {key} is written as {[l for l in lines if l.startswith('RDATE')]} (expected {want_rd!r})"
    want_fb = f"FREEBUSY;VALUE=PERIOD:{fields}Z/PT1H" if is_utc else f"FREEBUSY;TZID={key};VALUE=PERIOD:{fields}/PT1H"
    if want_fb not in lines:
        return f"FREEBUSY from {naive} in {key} is written as {[l for l in lines if l.startswith('FREEBUSY')]} (expected {want_fb!r})"
    back = Event.from_ical(text)
    for label, got in (("DTSTART", back["dtstart"].dt), ("RDATE", back["rdate"].dts[0].dt), ("FREEBUSY start", back["freebusy"].dt[0])):
        if got.replace(tzinfo=None) != naive:
            return f"{label}: wall time {got.replace(tzinfo=None)} != {naive} ({key})"
        from icalendar.timezone.tzid import tzid_from_dt
        if tzid_from_dt(got) != key:
            return f"{label}: zone {tzid_from_dt(got)!r} != {key!r}"
        if got.utcoffset() != d.utcoffset():
            return f"{label}: offset {got.utcoffset()} != {d.utcoffset()} the provider assigns to {naive} in {key}"
    # a period with an explicit end on the other side of the next day (often across a transition)
    try:
        d_end = localise(provider, naive + timedelta(days=1, hours=1), key)
    except OverflowError:
        d_end = None
    if d_end is not None and d_end > d:
        e3 = Event()
        e3.add("freebusy", (d, d_end))
        back3 = Event.from_ical(e3.to_ical())["freebusy"].dt
        if back3[1].replace(tzinfo=None) != d_end.replace(tzinfo=None) or back3[1].utcoffset() != d_end.utcoffset():
            return (f"FREEBUSY end: {back3[1]!r} (offset {back3[1].utcoffset()}) != {d_end!r} (offset {d_end.utcoffset()}) the provider assigns "
                    f"to that wall time in {key}")
    # UTC properties keep the instant
    from icalendar import Alarm
    al = Alarm()
    al.ACKNOWLEDGED = d
    e2 = Event()
    for nm in ("dtstamp", "created", "last-modified"):
        e2.add(nm, d)
    e2.LAST_MODIFIED = d
    try:
        inst = d.astimezone(timezone.utc).strftime("%Y%m%dT%H%M%SZ")
    except OverflowError:
        return None
    for ln in e2.to_ical().decode().split("\r\n") + al.to_ical().decode().split("\r\n"):
        if ln.startswith(("DTSTAMP", "CREATED", "LAST-MODIFIED", "ACKNOWLEDGED")) and not ln.endswith(":" + inst):
            return f"{ln!r} is not the instant {inst} of {naive} in {key}"
    return None


def check_dateutil(key, naive):
    from dateutil import tz as dtz
    from icalendar import Event
    z = dtz.gettz(key)
    if z is None:
        return None
    d = naive.replace(tzinfo=z)
    e = Event()
    e.add("dtstart", d)
    try:
        back = Event.from_ical(e.to_ical())
    except Exception as ex:  # noqa
        return f"dateutil {key} {naive}: {type(ex).__name__}: {ex}"
    got = back["dtstart"].dt
    if got.replace(tzinfo=None) != naive:
        return f"dateutil {key}: wall time {got.replace(tzinfo=None)} != {naive}"
    return None


def process_tz_cases():
    """UTC values must not depend on the time zone of the PROCESS (TZ environment variable): the same checks on UTC text, naive input to
    the UTC properties and zoned values, run under TZ=America/New_York and TZ=Asia/Kolkata (restored afterwards)"""
    import os
    import time as _time
    import icalendar
    from icalendar import Event, Alarm
    out = []
    saved = os.environ.get("TZ")
    try:
        for tzname in ("America/New_York", "Asia/Kolkata"):
            os.environ["TZ"] = tzname
            _time.tzset()
            for prov in ("zoneinfo", "pytz"):
                icalendar.timezone.tzp.use(prov)
                try:
                    ev = Event.from_ical("BEGIN:VEVENT\r\nDTSTART:20240615T120000Z\r\nRDATE:20240616T120000Z,20240617T120000Z\r\n"
                                         "DTSTAMP:20240101T000000Z\r\nFREEBUSY:20240615T120000Z/PT1H\r\nEND:VEVENT\r\n")
                    want = datetime(2024, 6, 15, 12, 0, tzinfo=timezone.utc)
                    got = ev["DTSTART"].dt
                    if got != want or got.utcoffset() != timedelta(0) or got.replace(tzinfo=None) != want.replace(tzinfo=None):
                        out.append(f"[{prov}, TZ={tzname}] DTSTART:20240615T120000Z parses to {got!r}")
                    got = ev["RDATE"].dts[0].dt
                    if got.replace(tzinfo=None) != datetime(2024, 6, 16, 12, 0) or got.utcoffset() != timedelta(0):
                        out.append(f"[{prov}, TZ={tzname}] RDATE:20240616T120000Z parses to {got!r}")
                    got = ev["FREEBUSY"].dt[0]
                    if got.replace(tzinfo=None) != datetime(2024, 6, 15, 12, 0) or got.utcoffset() != timedelta(0):
                        out.append(f"[{prov}, TZ={tzname}] FREEBUSY:20240615T120000Z/PT1H starts at {got!r}")
                    if ev.DTSTAMP != datetime(2024, 1, 1, tzinfo=timezone.utc) or ev.DTSTAMP.utcoffset() != timedelta(0):
                        out.append(f"[{prov}, TZ={tzname}] DTSTAMP:20240101T000000Z reads as {ev.DTSTAMP!r}")
                    # naive input to a UTC property is taken as UTC, zoned input keeps its instant
                    e2 = Event()
                    e2.add("dtstamp", datetime(2024, 6, 15, 14, 0))
                    if b"DTSTAMP:20240615T140000Z" not in e2.to_ical():
                        out.append(f"[{prov}, TZ={tzname}] add('dtstamp', naive 14:00) is written as {[l for l in e2.to_ical().split(bytes([13, 10])) if l.startswith(b'DTSTAMP')]}")
                    al = Alarm()
                    al.ACKNOWLEDGED = localise(prov, datetime(2024, 6, 15, 14, 0), "Europe/Berlin")
                    if al.ACKNOWLEDGED != datetime(2024, 6, 15, 12, 0, tzinfo=timezone.utc) or b"ACKNOWLEDGED:20240615T120000Z" not in al.to_ical():
                        out.append(f"[{prov}, TZ={tzname}] ACKNOWLEDGED set to Berlin 14:00 reads as {al.ACKNOWLEDGED!r}")
                    msg = check_value(prov, "Europe/Berlin", datetime(2024, 6, 15, 14, 0))
                    if msg:
                        out.append(f"[{prov}, TZ={tzname}] {msg}")
                finally:
                    icalendar.timezone.tzp.use_default()
    finally:
        if saved is None:
            os.environ.pop("TZ", None)
        else:
            os.environ["TZ"] = saved
        _time.tzset()
    return out


def run(b, tier, seed, findings, known_seen):
    import icalendar
    rnd = random.Random(seed)
    fails = []
    cases = 0
    for m in process_tz_cases():
        fails.append({"witness": {"process_tz": True}, "detail": m})
    cases += 28
    provs = ["zoneinfo", "pytz"]
    keys_zi = all_keys("zoneinfo")
    for prov in provs:
        icalendar.timezone.tzp.use(prov)
        try:
            keys = [k for k in all_keys(prov) if k in set(keys_zi)]
            if tier == "quick":
                pick = [k for k in ALWAYS if k in keys]
                rest = [k for k in keys if k not in pick]
                rnd.shuffle(rest)
                keys = pick + (rest[:60 - len(pick)] if prov == "zoneinfo" else [])
            for k in keys:
                for w in wall_times(k, rnd):
                    cases += 1
                    try:
                        msg = check_value(prov, k, w)
                    except Exception as ex:  # noqa
                        msg = f"{k} {w}: {type(ex).__name__}: {ex}"
                    if msg:
                        f = {"witness": {"zone": k, "wall": w.isoformat(), "provider": prov}, "detail": f"[{prov}] {msg}"}
                        fid = match(f, findings)
                        if fid:
                            known_seen.append(f"{fid['id']} {fid['what']} (witness {k} {w.isoformat()} [{prov}])")
                        elif len(fails) < 30:
                            fails.append(f)
                        break
            nd = 10 if tier == "quick" else 40
            for k in [k for k in ALWAYS if k in keys_zi][:nd]:
                for w in wall_times(k, rnd)[:40]:
                    cases += 1
                    msg = check_dateutil(k, w)
                    if msg:
                        fails.append({"witness": {"zone": k, "wall": w.isoformat(), "provider": prov, "dateutil": True}, "detail": msg})
                        break
        finally:
            icalendar.timezone.tzp.use_default()
    b.cases = cases
    b.nontrivial = cases
    b.failures = fails
    b.samples = ["Australia/Lord_Howe 1981-03-01T01:59:59 (half-hour DST)", "Pacific/Apia 2011-12-30 (skipped day)", "Etc/UTC noon"]
    return b


def match(f, findings):
    for x in findings:
        c = x.get("class", {})
        if c.get("stand_in") != "zones":
            continue
        if c.get("zones") and f["witness"].get("zone") not in c["zones"]:
            continue
        if c.get("detail_contains") and c["detail_contains"] not in f["detail"]:
            continue
        return x
    return None


def replay_witness(w):
    import icalendar
    if w.get("process_tz"):
        r = process_tz_cases()
        return r[0] if r else None
    prov = w.get("provider", "zoneinfo")
    icalendar.timezone.tzp.use(prov)
    try:
        if "wall" in w:
            naive = datetime.fromisoformat(w["wall"])
            return check_dateutil(w["zone"], naive) if w.get("dateutil") else check_value(prov, w["zone"], naive)
        if "zone" in w:
            n, fails = fin_lookups(prov)
            for f in fails:
                if f["witness"]["zone"] == w["zone"]:
                    return f["detail"]
        return None
    finally:
        icalendar.timezone.tzp.use_default()


def search_for(oid):
    """native confirmation of a shape refutation: a quick sweep of the ALWAYS zones"""
    import icalendar
    rnd = random.Random(0)
    ptz = process_tz_cases()
    if ptz:
        return {"process_tz": True}, ptz[0]
    for prov in ("zoneinfo", "pytz"):
        icalendar.timezone.tzp.use(prov)
        try:
            keys = set(all_keys(prov))
            for k in ALWAYS:
                if k not in keys:
                    continue
                for w in wall_times(k, rnd)[:30]:
                    try:
                        msg = check_value(prov, k, w)
                    except Exception as ex:  # noqa
                        msg = f"{type(ex).__name__}: {ex}"
                    if msg:
                        return {"zone": k, "wall": w.isoformat(), "provider": prov}, f"[{prov}] {msg}"
        finally:
            icalendar.timezone.tzp.use_default()
    return None
