"""Bounded stand-in and native concretisers for C02 (labelled bounded).

grid:    every RFC 5545 property name x every Python value kind the RFC permits for it x parameter shapes x nesting
         (VCALENDAR > VEVENT/VTODO/VJOURNAL/VFREEBUSY/VTIMEZONE > VALARM/STANDARD/X-), built with add / item assignment /
         property setters / add_component, serialised, parsed, compared: nesting, names, order of repeated values, parameters,
         decoded values; VALUE present exactly when the kind is not the default type; TZID of every zoned value.
native spec checkers (used to confirm or dismiss shape refutations of the deductive obligations): the contracts V1, V2, V3, E, A
         evaluated on the real objects over a catalogue of values.
"""
import itertools
import json
import os
import random
from datetime import date, datetime, time, timedelta, timezone

BOUND = {
    "quick": "48 RFC property names x permitted value kinds (catalogue of 40 values) x 4 parameter shapes (incl. falsy values) in 3 component nestings; "
             "all catalogue values / homogeneous lists of <= 3 / periods through the constructor contracts; 300 seeded add sequences "
             "of <= 4 calls; both providers",
    "thorough": "same with 2000 seeded add sequences",
}
HERE = os.path.dirname(os.path.abspath(__file__))


def zones(provider):
    if provider == "pytz":
        import pytz
        return [pytz.timezone("Europe/Berlin"), pytz.timezone("America/New_York")], pytz.utc
    from zoneinfo import ZoneInfo
    return [ZoneInfo("Europe/Berlin"), ZoneInfo("America/New_York")], ZoneInfo("UTC")


def utc_alias(provider):
    """a zone that is a link to UTC under another name: a zoned value like any other (TZID = its key)"""
    if provider == "pytz":
        import pytz
        return pytz.timezone("Etc/UTC")
    from zoneinfo import ZoneInfo
    return ZoneInfo("Etc/UTC")


def mk(tz, *a):
    if hasattr(tz, "localize"):
        return tz.localize(datetime(*a))
    return datetime(*a, tzinfo=tz)


def catalogue(provider):
    (berlin, ny), utc = zones(provider)
    C = {}
    C["DATE-TIME"] = [datetime(2024, 1, 2, 10, 30), datetime(1999, 12, 31, 23, 59, 59), mk(utc, 2024, 1, 2, 10, 30),
                      datetime(2024, 1, 2, 10, 30, tzinfo=timezone.utc), mk(berlin, 2024, 3, 31, 3, 30), mk(ny, 2024, 11, 3, 1, 30),
                      mk(berlin, 2024, 7, 1, 12, 0), mk(utc_alias(provider), 2024, 3, 4, 9, 0)]
    C["DATE"] = [date(2024, 1, 2), date(1970, 1, 1), date(2037, 12, 31), date(999, 12, 31), date(1, 1, 1), date(1000, 1, 1), date(9999, 12, 31)]
    C["DATE-TIME"] += [datetime(476, 9, 4, 12, 0), datetime(999, 12, 31, 23, 59, 59), datetime(1, 1, 1, 0, 0), datetime(9999, 12, 31, 23, 59, 59),
                       datetime(33, 4, 3, 15, 0, tzinfo=timezone.utc)]
    C["TIME"] = [time(10, 30), time(0, 0, 0), time(23, 59, 59)]
    C["DURATION"] = [timedelta(hours=1), timedelta(days=2, seconds=5), -timedelta(minutes=15), timedelta(weeks=2), timedelta(0)]
    C["PERIOD"] = [(datetime(2024, 1, 2, 10), datetime(2024, 1, 2, 11)), (mk(utc, 2024, 1, 2, 10), timedelta(hours=1)),
                   (mk(berlin, 2024, 1, 2, 10), mk(berlin, 2024, 1, 2, 12)), (mk(ny, 2024, 1, 2, 10), timedelta(minutes=30)),
                   (mk(berlin, 2024, 1, 2, 10), mk(ny, 2024, 1, 2, 11)), (mk(utc, 2024, 1, 2, 8), mk(berlin, 2024, 1, 2, 12))]
    C["TEXT"] = ["plain", "Grüße, Welt; und: \"so\"", "line1\nline2", "a" * 90, "x,y", ""]
    C["INTEGER"] = [0, 5, -3, 100]
    C["FLOAT;FLOAT"] = [(37.386013, -122.082932), (0.0, 0.0), (-90.0, 180.0),
                        # every float is a value: more decimals than a hand-written example has, sums that are not "round"
                        (37.4220936, -122.0840897), (48.85837009999999, 2.2944813000000003), (0.1 + 0.2, 1 / 3), (-33.8567844, 151.213108)]
    C["INTEGER"] += [2 ** 31 - 1, -2 ** 31, 2 ** 63, 10 ** 20]
    C["UTC-OFFSET"] = [timedelta(hours=1), -timedelta(hours=5), timedelta(hours=5, minutes=45), timedelta(0)]
    C["URI"] = ["https://example.com/a?b=c", "mailto:x@example.com"]
    C["CAL-ADDRESS"] = ["mailto:jane@example.com"]
    C["RECUR"] = [{"FREQ": "DAILY", "COUNT": 3}, {"FREQ": "WEEKLY", "BYDAY": ["MO", "WE"], "INTERVAL": 2}]
    return C


def spec_table():
    return json.load(open(os.path.join(HERE, "..", "spec", "rfc5545_properties.json")))


# ---------------------------------------------------------------------------------------------------
# native specification of the tagging contracts

def own_tzid(tz):
    """the zone id of a tzinfo of the catalogue, read off the object itself (zoneinfo: .key, pytz: .zone) - not through the library"""
    if tz is None:
        return None
    if tz is timezone.utc:
        return "UTC"
    return getattr(tz, "key", None) or getattr(tz, "zone", None)


def tzid_expected(dt):
    if isinstance(dt, tuple) and dt:
        dt = dt[0]               # a period lies in the zone of its start
    if not isinstance(dt, (datetime, time)):
        return None
    t = own_tzid(dt.tzinfo)
    return None if t is None or t == "UTC" else t


def expected_params_vddd(v):
    exp = {}
    if isinstance(v, datetime) or isinstance(v, timedelta):
        pass
    elif isinstance(v, date):
        exp["VALUE"] = "DATE"
    elif isinstance(v, time):
        exp["VALUE"] = "TIME"
    elif isinstance(v, tuple):
        exp["VALUE"] = "PERIOD"
    t = tzid_expected(v)
    if t:
        exp["TZID"] = t
    return exp


def check_vddd(provider):
    from icalendar.prop import vDDDTypes
    fails = []
    C = catalogue(provider)
    for kind in ("DATE-TIME", "DATE", "TIME", "DURATION", "PERIOD"):
        for v in C[kind]:
            got = dict(vDDDTypes(v).params)
            if got != expected_params_vddd(v):
                fails.append({"witness": {"call": "vDDDTypes", "value": repr(v), "provider": provider},
                              "detail": f"vDDDTypes({v!r}).params = {got}, contract: {expected_params_vddd(v)}"})
    for bad in ("text", 5, None, [1]):
        try:
            vDDDTypes(bad)
            fails.append({"witness": {"call": "vDDDTypes", "value": repr(bad)}, "detail": f"vDDDTypes({bad!r}) does not raise"})
        except ValueError:
            pass
        except Exception as e:  # noqa
            fails.append({"witness": {"call": "vDDDTypes", "value": repr(bad)}, "detail": f"vDDDTypes({bad!r}) raises {type(e).__name__}"})
    return fails


def check_lists(provider, findings, known_seen):
    from icalendar.prop import vDDDLists
    fails = []
    C = catalogue(provider)
    n = 0
    for kind in ("DATE-TIME", "DATE", "PERIOD"):
        vals = C[kind]
        for k in (0, 1, 2, 3):
            for combo in itertools.product(vals, repeat=k):
                n += 1
                zs = {tzid_expected(x) for x in combo} - {None}
                try:
                    lst = vDDDLists(list(combo))
                except Exception as e:  # noqa
                    fails.append({"witness": {"call": "vDDDLists", "values": repr(combo), "provider": provider},
                                  "detail": f"vDDDLists({combo!r}) raises {type(e).__name__}: {e}"})
                    continue
                got = dict(getattr(lst, "params", {}))
                exp = {}
                if combo and kind != "DATE-TIME":
                    exp["VALUE"] = kind
                if len(zs) == 1:
                    exp["TZID"] = next(iter(zs))
                if len(zs) > 1:
                    # the element-wise clause: every zoned element carries its own TZID
                    f = [x for x in findings if x["id"] == "C02-F1"]
                    bad = [x for x in combo if tzid_expected(x) and got.get("TZID") != tzid_expected(x)]
                    if bad:
                        if f:
                            known_seen.append(f"C02-F1 {f[0]['what']} (witness {combo!r} -> params {got})")
                        else:
                            fails.append({"witness": {"call": "vDDDLists", "values": repr(combo), "provider": provider},
                                          "detail": f"vDDDLists({combo!r}).params = {got}: {bad[0]!r} does not carry its own TZID"})
                    continue
                if got != exp:
                    fails.append({"witness": {"call": "vDDDLists", "values": repr(combo), "provider": provider},
                                  "detail": f"vDDDLists({combo!r}).params = {got}, contract: {exp}"})
                if [d.dt for d in lst.dts] != list(combo):
                    fails.append({"witness": {"call": "vDDDLists", "values": repr(combo)}, "detail": "dts are not the elements in order"})
    return fails, n


def check_period(provider):
    from icalendar.prop import vPeriod
    fails = []
    C = catalogue(provider)
    starts = C["DATE-TIME"] + C["DATE"] + ["x", None]
    ends = C["DATE-TIME"] + C["DATE"] + C["DURATION"] + ["x"]
    n = 0
    for a in starts:
        for b in ends:
            n += 1
            try:
                p = vPeriod((a, b))
            except ValueError:
                continue
            except Exception as e:  # noqa
                fails.append({"witness": {"call": "vPeriod", "value": repr((a, b)), "provider": provider},
                              "detail": f"vPeriod({(a, b)!r}) raises {type(e).__name__}: {e}"})
                continue
            exp = {"VALUE": "PERIOD"}
            if tzid_expected(a):
                exp["TZID"] = tzid_expected(a)
            if dict(p.params) != exp:
                fails.append({"witness": {"call": "vPeriod", "value": repr((a, b)), "provider": provider},
                              "detail": f"vPeriod({(a, b)!r}).params = {dict(p.params)}, contract: {exp}"})
            if not p.by_duration and p.end.tzinfo is not None:
                tzid_from_dt = lambda x: own_tzid(x.tzinfo)  # noqa: E731
                utc = lambda x: x.astimezone(timezone.utc)         # (== between zones is never true inside a fold: PEP 495)
                if tzid_from_dt(p.end) != tzid_from_dt(p.start) or utc(p.end) != utc(b):
                    fails.append({"witness": {"call": "vPeriod", "value": repr((a, b)), "provider": provider},
                                  "detail": f"vPeriod({(a, b)!r}).end = {p.end!r}: not the same instant in the zone of the start"})
    return fails, n


def check_encode(provider):
    from icalendar import Component
    from icalendar.prop import vDDDTypes, vText
    from icalendar.cal import types_factory
    fails = []
    C = catalogue(provider)
    n = 0
    for name in ("trigger", "TRIGGER", "dtstart", "summary", "x-thing"):
        for v in C["DATE-TIME"][:4] + C["DURATION"][:2] + C["TEXT"][:2] + [vDDDTypes(C["DATE-TIME"][2]), vText("t")]:
            for params in (None, {}, {"x-p": "1"}, {"VALUE": None}, {"value": "X", "Other": None}):
                n += 1
                typed = isinstance(v, types_factory.all_types)
                if typed:
                    v = type(v)(v.dt) if hasattr(v, "dt") else type(v)(v)
                try:
                    obj = Component._encode(name, v, params)
                except Exception as e:  # noqa
                    kl = types_factory.for_property(name)
                    try:
                        kl(v)
                        fails.append({"witness": {"call": "_encode", "args": repr((name, v, params))}, "detail": f"raises {type(e).__name__}: {e}"})
                    except Exception:
                        pass
                    continue
                if typed and obj is not v:
                    fails.append({"witness": {"call": "_encode", "args": repr((name, v, params))}, "detail": "a typed value was re-encoded"})
                if not typed and type(obj) is not types_factory.for_property(name):
                    fails.append({"witness": {"call": "_encode", "args": repr((name, v, params))}, "detail": f"class {type(obj).__name__}"})
                exp = dict(type(obj)(getattr(obj, "dt", obj)).params) if not isinstance(obj, str) else {}
                if name.upper() == "TRIGGER" and isinstance(getattr(obj, "dt", None), datetime):
                    exp["VALUE"] = "DATE-TIME"
                for k, val in (params or {}).items():
                    if val is None:
                        exp.pop(k.upper(), None)
                    else:
                        exp[k.upper()] = val
                got = dict(getattr(obj, "params", {}))
                if got != exp:
                    fails.append({"witness": {"call": "_encode", "args": repr((name, v, params)), "provider": provider},
                                  "detail": f"_encode{(name, v, params)!r}.params = {got}, contract: {exp}"})
    return fails, n


def check_add(provider, rnd, count):
    """sequences of add calls: the stored values of a name are all added values in order (flat)"""
    from icalendar import Event
    fails = []
    n = 0
    pool = {"attendee": ["mailto:a@x", "mailto:b@x", "mailto:c@x", "mailto:d@x"], "comment": ["one", "two", "three", "four"],
            "x-multi": ["p", "q", "r", "s"]}
    for _ in range(count):
        e = Event()
        name = rnd.choice(sorted(pool))
        exp = []
        calls = []
        for _ in range(rnd.randint(1, 4)):
            if rnd.random() < 0.4:
                vals = rnd.sample(pool[name], rnd.randint(0, 3))
                e.add(name, list(vals))
                calls.append(list(vals))
                exp += vals
            else:
                v = rnd.choice(pool[name])
                e.add(name, v)
                calls.append(v)
                exp.append(v)
        n += 1
        got = e.get(name)
        got = [] if got is None else (got if isinstance(got, list) else [got])
        flat = [str(x) for x in got]
        if flat != exp or any(isinstance(x, list) for x in got):
            fails.append({"witness": {"call": "add", "name": name, "calls": calls, "provider": provider},
                          "detail": f"after add calls {calls!r} on {name!r} the stored values are {got!r}, expected {exp!r} in order"})
            continue
        back = Event.from_ical(e.to_ical()).get(name)
        back = [] if back is None else (back if isinstance(back, list) else [back])
        if [str(x) for x in back] != exp:
            fails.append({"witness": {"call": "add", "name": name, "calls": calls, "provider": provider},
                          "detail": f"after add calls {calls!r} the round trip gives {back!r}, expected {exp!r}"})
    # first-insertion position: adding to a name that is already there moves nothing
    for names in (["attendee", "summary", "attendee"], ["comment", "dtstart", "comment", "uid", "comment"], ["x-a", "x-b", "X-A", "x-c", "x-b"]):
        n += 1
        e = Event()
        first = []
        for i, nm in enumerate(names):
            e.add(nm, datetime(2024, 1, 1 + i, 10, 0) if nm == "dtstart" else f"v{i}")
            if nm.upper() not in first:
                first.append(nm.upper())
        if list(e.keys()) != first:
            fails.append({"witness": {"call": "add", "name": names[0], "calls": names, "provider": provider},
                          "detail": f"after add calls for {names!r} the names are kept in the order {list(e.keys())!r}, first insertion gives {first!r}"})
    # UTC forcing
    (berlin, ny), utc = zones(provider)
    for nm in ("dtstamp", "CREATED", "Last-Modified"):
        for v in (mk(berlin, 2024, 7, 1, 12, 0), datetime(2024, 7, 1, 12, 0), mk(utc, 2024, 7, 1, 12)):
            n += 1
            e = Event()
            e.add(nm, v)
            got = e[nm].dt
            if got.utcoffset() != timedelta(0) or (v.tzinfo is not None and got != v) or not e.to_ical().decode().split(nm.upper() + ":")[1].startswith(got.strftime("%Y%m%dT%H%M%SZ")):
                fails.append({"witness": {"call": "add", "name": nm, "value": repr(v), "provider": provider},
                              "detail": f"add({nm!r}, {v!r}) stores {got!r}: not the same instant in UTC"})
    # ... and nothing else is forced: the stored value of any other DATE-TIME property is the supplied one (the contract's `forced` clause)
    forced3 = {"DTSTAMP", "CREATED", "LAST-MODIFIED"}
    names = sorted(k for k, row in spec_table()["properties"].items() if row.get("default") == "DATE-TIME" and k not in forced3) + ["X-WHEN"]
    for nm in names:
        for v in (mk(berlin, 2024, 7, 1, 12, 0), datetime(2024, 7, 1, 12, 0), mk(ny, 2024, 11, 3, 1, 30)):
            n += 1
            e = Event()
            try:
                e.add(nm.lower(), v)
                got = e[nm]
                if hasattr(got, "dts") and len(got.dts) == 1:
                    got = got.dts[0]          # RDATE / EXDATE are list valued: one element here
                got = getattr(got, "dt", got)
            except Exception as ex:  # noqa
                got = ex
            if nm == "X-WHEN":
                continue  # unknown names are text: only the absence of an exception is checked here
            if not isinstance(got, datetime) or got != v or got.tzinfo is not v.tzinfo:
                fails.append({"witness": {"call": "add", "name": nm, "value": repr(v), "provider": provider},
                              "detail": f"add({nm.lower()!r}, {v!r}) stores {got!r}: not the supplied value (only DTSTAMP, CREATED, LAST-MODIFIED are converted to UTC)"})
    return fails, n


def check_setters(provider):
    """histories of two assignments through a property setter (or add followed by the setter): the result is the one of a
    fresh component that only received the second value"""
    from icalendar import Event, Todo, Alarm
    C = catalogue(provider)
    fails = []
    n = 0
    plans = [(Event, "DTSTART", C["DATE-TIME"] + C["DATE"]), (Event, "DTEND", C["DATE-TIME"] + C["DATE"]), (Todo, "DUE", C["DATE-TIME"] + C["DATE"]),
             (Alarm, "TRIGGER", C["DATE-TIME"][2:4] + C["DURATION"][:3])]
    for cls, attr, vals in plans:
        for first in vals:
            for second in vals:
                for via_add in (False, True):
                    n += 1
                    a, b = cls(), cls()
                    try:
                        if via_add:
                            a.add(attr, first)
                        else:
                            setattr(a, attr, first)
                        setattr(a, attr, second)
                        setattr(b, attr, second)
                    except Exception as e:  # noqa
                        fails.append({"witness": {"call": "setter", "cls": cls.__name__, "attr": attr, "values": repr((first, second)), "provider": provider},
                                      "detail": f"{cls.__name__}.{attr} = {first!r}; = {second!r} raises {type(e).__name__}: {e}"})
                        continue
                    if a.to_ical() != b.to_ical():
                        fails.append({"witness": {"call": "setter", "cls": cls.__name__, "attr": attr, "values": repr((first, second)), "via_add": via_add,
                                                  "provider": provider},
                                      "detail": f"{cls.__name__}.{attr} = {first!r} then = {second!r} gives {a.to_ical()!r}, a fresh component with the "
                                                f"second value gives {b.to_ical()!r}"})
    return fails, n


# ---------------------------------------------------------------------------------------------------
# the grid

UTC_NAMES = ("DTSTAMP", "CREATED", "LAST-MODIFIED")


def kinds_for(row):
    return [row["default"]] + list(row.get("alternatives", []))


def eq_value(kind, sent, got):
    """decoded value equal to the one supplied"""
    if kind in ("DATE-TIME",):
        return isinstance(got, datetime) and got == sent and (got.utcoffset() == sent.utcoffset()) and got.replace(tzinfo=None) == sent.replace(tzinfo=None)
    if kind == "PERIOD":
        a, b = sent
        if not (isinstance(got, tuple) and len(got) == 2):
            return False
        return got[0] == a and got[0].utcoffset() == a.utcoffset() and got[1] == b
    if kind == "TEXT":
        return str(got) == sent or (isinstance(got, bytes) and got.decode() == sent)
    if kind == "FLOAT;FLOAT":
        return tuple(got) == tuple(sent)
    if kind == "RECUR":
        return all(list(got.get(k)) == (v if isinstance(v, list) else [v]) for k, v in sent.items())
    if kind in ("URI", "CAL-ADDRESS"):
        return str(got) == sent
    return got == sent


def build_and_check(name, row, kind, value, params, nesting, provider, listed=False):
    """-> failure dict or None"""
    import icalendar
    from icalendar import Calendar, Event, Todo, Alarm, Component
    holder_cls = {"VEVENT": Event, "VTODO": Todo}.get(nesting[1], Event)
    cal = Calendar()
    cal.add("prodid", "-//verif//C02//")
    cal.add("version", "2.0")
    holder = holder_cls()
    inner = None
    if nesting[2] == "VALARM":
        inner = Alarm()
        target = inner
    elif nesting[2] == "X-BOX":
        inner = Component()
        inner.name = "X-BOX"
        target = inner
    else:
        target = holder
    sent = value
    if name in UTC_NAMES and isinstance(value, datetime):
        # add() converts these to UTC (naive values are taken as UTC): the same instant must come back, written with Z
        value = value.replace(tzinfo=timezone.utc) if value.tzinfo is None else value.astimezone(timezone.utc)
    w = {"name": name, "kind": kind, "value": repr(value), "params": params, "nesting": nesting, "provider": provider, "listed": listed}
    try:
        if name == "CATEGORIES":
            target.add(name, [sent, "second"], params or None)
            sent_list = [sent, "second"]
        elif listed:
            target.add(name, [sent, sent], params or None)
        elif name in ("RDATE", "EXDATE"):
            target.add(name, [sent], params or None)          # a bare tuple would be read as a list of two values
        else:
            target.add(name, sent, params or None)
    except Exception as e:  # noqa
        return {"witness": w, "detail": f"add({name!r}, {value!r}) raises {type(e).__name__}: {e}"}
    if inner is not None:
        holder.add_component(inner)
    cal.add_component(holder)
    try:
        text = cal.to_ical()
        back = Calendar.from_ical(text)
    except Exception as e:  # noqa
        return {"witness": w, "detail": f"to_ical / from_ical raises {type(e).__name__}: {e}"}
    # nesting
    path = [back] + ([back.subcomponents[0]] if back.subcomponents else [])
    if not back.subcomponents or back.subcomponents[0].name != holder.name:
        return {"witness": w, "detail": "nesting lost"}
    got_target = back.subcomponents[0]
    if inner is not None:
        if not got_target.subcomponents or got_target.subcomponents[0].name != inner.name:
            return {"witness": w, "detail": "inner component lost"}
        got_target = got_target.subcomponents[0]
    if name.upper() not in got_target:
        return {"witness": w, "detail": f"{name} missing after the round trip: {text!r}"}
    stored = got_target[name]
    lines = [ln for ln in text.decode().replace("\r\n ", "").split("\r\n") if ln.upper().startswith(name.upper() + (";" if True else ""))
             or ln.upper().startswith(name.upper() + ":")]
    lines = [ln for ln in lines if ln[len(name)] in ";:"]
    # VALUE / TZID tagging on the emitted line
    for ln in lines:
        head = ln.split(":", 1)[0].upper()
        if kind != row["default"] and kind in ("DATE", "DATE-TIME", "PERIOD", "TIME", "DURATION"):
            if f"VALUE={kind}" not in head:
                return {"witness": w, "detail": f"a {kind} value for {name} (default {row['default']}) is emitted without VALUE={kind}: {ln!r}"}
        if kind == row["default"] and "VALUE=" in head and f"VALUE={kind}" not in head and not (params and any(k.upper() == "VALUE" for k in params)):
            return {"witness": w, "detail": f"unexpected VALUE on {ln!r}"}
        dtv = value[0] if kind == "PERIOD" else value
        if kind in ("DATE-TIME", "PERIOD") and isinstance(dtv, datetime):
            t = tzid_expected(dtv)
            if t and f"TZID={t.upper()}" not in head:
                return {"witness": w, "detail": f"zoned value without its TZID: {ln!r}"}
            if not t and "TZID=" in head:
                return {"witness": w, "detail": f"TZID on a floating / UTC value: {ln!r}"}
    # parameters
    for k, v in (params or {}).items():
        vals = stored if isinstance(stored, list) else [stored]
        want_text = v.to_ical().decode() if hasattr(v, "to_ical") else v
        for s in vals:
            got_p = getattr(s, "params", {}).get(k)
            if got_p != v and got_p != want_text:
                return {"witness": w, "detail": f"parameter {k}={v!r} lost: {getattr(s, 'params', None)!r}"}
    # decoded values
    try:
        dec = got_target.decoded(name)
    except Exception as e:  # noqa
        return {"witness": w, "detail": f"decoded({name!r}) raises {type(e).__name__}: {e}"}
    if name == "CATEGORIES":
        got_list = list(stored.cats) if hasattr(stored, "cats") else stored
        if [str(x) for x in got_list] != sent_list:
            return {"witness": w, "detail": f"categories {got_list!r} != {sent_list!r}"}
        return None
    if name in ("RDATE", "EXDATE"):
        lst = stored if isinstance(stored, list) else [stored]
        got = [d.dt for v in lst for d in v.dts]
        want = [value, value] if listed else [value]
        if len(got) != len(want) or not all(eq_value(kind, s, g) for s, g in zip(want, got)):
            return {"witness": w, "detail": f"decoded {got!r} != supplied {want!r}"}
        return None
    want = [value, value] if listed else [value]
    got = dec if isinstance(dec, list) else [dec]
    if len(got) != len(want) or not all(eq_value(kind, s, g) for s, g in zip(want, got)):
        return {"witness": w, "detail": f"decoded {got!r} != supplied {want!r}"}
    return None


def grid(provider, tier, findings, known_seen):
    spec = spec_table()
    C = catalogue(provider)
    fails, n = [], 0
    nestings = [("VCALENDAR", "VEVENT", None), ("VCALENDAR", "VTODO", "VALARM"), ("VCALENDAR", "VEVENT", "X-BOX")]
    from icalendar.prop import vBoolean
    # (falsy parameter values are values too: an empty text, FALSE)
    pshapes = [{}, {"X-PARAM": "v1"}, {"LANGUAGE": "de", "X-A": "b c"}, {"X-EMPTY": "", "RSVP": vBoolean(False)}]
    for name, row in spec["properties"].items():
        for kind in kinds_for(row):
            if kind == "BINARY":
                continue
            for value in C[kind]:
                for pi, params in enumerate(pshapes):
                    nesting = nestings[(n + pi) % len(nestings)]
                    n += 1
                    f = build_and_check(name, row, kind, value, params, nesting, provider)
                    if f is None and (row.get("list") or name in ("ATTENDEE", "COMMENT")) and pi == 0 and name != "CATEGORIES":
                        n += 1
                        f = build_and_check(name, row, kind, value, params, nesting, provider, listed=True)
                    if f:
                        fid = match_finding(f, findings)
                        if fid:
                            known_seen.append(f"{fid['id']} {fid['what']} (witness {f['witness']['name']} = {f['witness']['value']})")
                            continue
                        if len(fails) < 40:
                            fails.append(f)
    return fails, n


def match_finding(f, findings):
    w = f["witness"]
    for x in findings:
        c = x.get("class", {})
        if c.get("stand_in") != "grid":
            continue
        if c.get("names") and w.get("name") not in c["names"]:
            continue
        if c.get("kinds") and w.get("kind") not in c["kinds"]:
            continue
        if c.get("detail_contains") and c["detail_contains"] not in f["detail"]:
            continue
        if c.get("value_contains") and not any(t in w.get("value", "") for t in c["value_contains"]):
            continue
        return x
    return None


def run(b, tier, seed, findings, known_seen):
    import icalendar
    rnd = random.Random(seed)
    total = 0
    fails = []
    for prov in ("zoneinfo", "pytz"):
        icalendar.timezone.tzp.use(prov)
        try:
            f1 = check_vddd(prov)
            f2, n2 = check_lists(prov, findings, known_seen)
            f3, n3 = check_period(prov)
            f4, n4 = check_encode(prov)
            f5, n5 = check_add(prov, rnd, 300 if tier == "quick" else 2000)
            f6, n6 = grid(prov, tier, findings, known_seen)
            f7, n7 = check_setters(prov)
            total += 40 + n2 + n3 + n4 + n5 + n6 + n7
            fails += f1 + f2 + f3 + f4 + f5 + f7 + f6
        finally:
            icalendar.timezone.tzp.use_default()
    b.cases = total
    b.nontrivial = total
    b.failures = fails[:30]
    b.samples = ["RDATE x PERIOD x {'X-PARAM': 'v1'} in VCALENDAR > VTODO > VALARM", "vDDDLists of 3 dates", "add('comment', 'one'); add('comment', ['two', 'three'])"]
    return b


def _findings():
    from vc.common import findings_for
    return findings_for("C02")


CONCRETISERS = {
    "V1": lambda prov: check_vddd(prov),
    "V2": lambda prov: check_lists(prov, _findings(), [])[0],
    "V3": lambda prov: check_period(prov)[0],
    "E": lambda prov: check_encode(prov)[0],
    "A": lambda prov: check_add(prov, random.Random(0), 400)[0],
    "D": lambda prov: check_vddd(prov) + check_period(prov)[0],
    "T": lambda prov: grid(prov, "quick", _findings(), [])[0],          # listed findings are not confirmations of anything else
    "S": lambda prov: check_setters(prov)[0],
}


def search_for(oid):
    """native confirmation of a shape refutation: evaluate the same contract on the real objects"""
    import icalendar
    fam = oid.split(".")[1]
    fn = CONCRETISERS.get(fam)
    if fn is None:
        return None
    for prov in ("zoneinfo", "pytz"):
        icalendar.timezone.tzp.use(prov)
        try:
            fails = fn(prov)
        finally:
            icalendar.timezone.tzp.use_default()
        if fails:
            return fails[0]["witness"], fails[0]["detail"]
    return None


def replay_witness(w):
    import icalendar
    prov = w.get("provider", "zoneinfo")
    call = w.get("call")
    fam = {"vDDDTypes": "V1", "vDDDLists": "V2", "vPeriod": "V3", "_encode": "E", "add": "A", "setter": "S"}.get(call, "T")
    icalendar.timezone.tzp.use(prov)
    try:
        fails = CONCRETISERS[fam](prov)
    finally:
        icalendar.timezone.tzp.use_default()
    for f in fails:
        if f["witness"] == w or all(f["witness"].get(k) == w.get(k) for k in ("name", "kind", "value", "call") if k in w):
            return f["detail"]
    return fails[0]["detail"] if fails and fam != "T" else None
