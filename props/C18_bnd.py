"""Bounded stand-in for C18 (labelled bounded) and native concretiser: real calendars with zoned values at any depth."""
import itertools
import random
from datetime import datetime, timedelta, date

BOUND = {
    "quick": "120 seeded calendars: zoned values in DTSTART/DTEND/DUE/RECURRENCE-ID/RDATE/EXDATE/FREEBUSY (single and multi-valued) at "
             "nesting depth <= 3 (incl. X- containers and VALARM triggers), every subset of {used, unused, unknown} VTIMEZONEs present, "
             "2 repeated add_missing_timezones calls, both providers",
    "thorough": "1500 seeded calendars, both providers, 3 repeated calls",
}
KNOWN = ["Europe/Berlin", "America/New_York", "Asia/Tokyo", "Europe/London"]
# other spellings the provider resolves to one of the zones above (used through the TZID parameter of a floating value)
ALIASES = ["/Europe/Berlin", "/America/New_York", "Eastern Standard Time", "W. Europe Standard Time", "Europe/Berlin/", "UTC", "Etc/UTC", "GMT", "Etc/GMT+5"]
UNKNOWN = ["Custom/Nowhere", "X-Local", "(UTC-03:00) Bras\u00edlia", "Mitteleurop\u00e4ische Zeit", "\u6771\u4eac"]      # (incl. non-ASCII ids, as Outlook writes them)


def zoned(tzid, rnd):
    from zoneinfo import ZoneInfo
    return datetime(2024, rnd.randint(1, 12), rnd.randint(1, 28), rnd.randint(0, 23), tzinfo=ZoneInfo(tzid))


def build(rnd):
    import icalendar
    cal = icalendar.Calendar()
    cal.add("version", "2.0")
    used = set()

    def add_zoned(c, name, tzid, multi=False):
        if tzid in KNOWN:
            vals = [zoned(tzid, rnd) for _ in range(2 if multi else 1)]
            if name in ("RDATE", "EXDATE"):
                c.add(name, vals)
            elif name == "FREEBUSY":
                c.add(name, (vals[0], timedelta(hours=1)))
            else:
                for v in vals[:1]:
                    c.add(name, v)
        else:
            # an id the provider does not know: attach it as a parameter of a floating value
            c.add(name, datetime(2024, 1, 1, 10), parameters={"TZID": tzid})
        used.add(tzid)

    def fill(c, depth):
        for _ in range(rnd.randint(0, 3)):
            name = rnd.choice(["DTSTART", "DTEND", "RECURRENCE-ID", "RDATE", "EXDATE", "RDATE"])
            if name in c and name not in ("RDATE", "EXDATE"):
                continue
            add_zoned(c, name, rnd.choice(KNOWN + UNKNOWN + ALIASES), multi=rnd.random() < 0.5)
        if depth > 0:
            for _ in range(rnd.randint(0, 2)):
                kind = rnd.choice(["VEVENT", "VTODO", "X-BOX", "VALARM", "VFREEBUSY"])
                sub = icalendar.cal.component_factory.get(kind, icalendar.Component)()
                if not getattr(sub, "name", None):
                    sub.name = kind
                if kind == "VFREEBUSY" and rnd.random() < 0.7:
                    add_zoned(sub, "FREEBUSY", rnd.choice(KNOWN))
                fill(sub, depth - 1)
                c.add_component(sub)
    fill(cal, 3)
    present = set()
    for tzid in rnd.sample(KNOWN + UNKNOWN + ["Unused/Zone"] + ALIASES[:2], rnd.randint(0, 4)):
        if tzid in KNOWN:
            tz = icalendar.Timezone.from_tzid(tzid, first_date=date(2023, 1, 1), last_date=date(2025, 1, 1))
        else:
            tz = icalendar.Timezone()
            tz.add("TZID", tzid)
        cal.add_component(tz)
        present.add(tzid)
    return cal, used, present


def reference_used(c):
    out = set()
    for k in c.keys():
        v = c[k]
        for x in (v if isinstance(v, list) else [v]):
            p = getattr(x, "params", None)
            if p is not None and p.get("TZID") is not None:
                out.add(p.get("TZID"))
    for s in c.subcomponents:
        out |= reference_used(s)
    return out


def check(cal, used, present, calls):
    import icalendar
    msgs = []
    ref = reference_used(cal)
    try:
        got = cal.get_used_tzids()
        if got != ref:
            msgs.append(f"get_used_tzids {sorted(got)} but the TZID parameters in the tree are {sorted(ref)}")
    except Exception as e:  # noqa
        msgs.append(f"get_used_tzids raises {type(e).__name__}: {e}")
    have = [str(t["TZID"]) for t in cal.walk("VTIMEZONE") if "TZID" in t]
    try:
        miss = cal.get_missing_tzids()
        if miss != ref - set(have):
            msgs.append(f"get_missing_tzids {sorted(miss)} expected {sorted(ref - set(have))}")
    except Exception as e:  # noqa
        msgs.append(f"get_missing_tzids raises {type(e).__name__}: {e}")
    n_before = None
    for k in range(calls):
        try:
            cal.add_missing_timezones(first_date=date(2023, 1, 1), last_date=date(2025, 1, 1))
        except Exception as e:  # noqa
            msgs.append(f"add_missing_timezones raises {type(e).__name__}: {e}")
            break
        tzs = [str(t["TZID"]) for t in cal.walk("VTIMEZONE") if "TZID" in t]
        if n_before is not None and len(tzs) != n_before:
            msgs.append("a repeated add_missing_timezones call added components")
        n_before = len(tzs)
        for tzid in ref:
            known = icalendar.timezone.tzp.timezone(tzid) is not None
            cnt = tzs.count(tzid)
            if known and cnt != 1 and tzid not in have:
                msgs.append(f"after add_missing_timezones the known id {tzid} has {cnt} VTIMEZONEs")
            if not known and tzid not in have and tzid not in cal.get_missing_tzids():
                msgs.append(f"the unknown id {tzid} is no longer reported missing")
        if set(x for x in ref if icalendar.timezone.tzp.timezone(x) is not None) - set(tzs):
            msgs.append("a known used id still has no VTIMEZONE")
    return msgs


def run(b, tier, seed):
    import icalendar
    rnd = random.Random(seed)
    n = 120 if tier == "quick" else 1500
    fails = {}
    cases = 0
    for prov in ("zoneinfo", "pytz"):
        icalendar.timezone.tzp.use(prov)
        try:
            for _ in range(n):
                s = rnd.randrange(10 ** 9)
                cal, used, present = build(random.Random(s))
                cases += 1
                for m in check(cal, used, present, 2 if tier == "quick" else 3):
                    fails.setdefault(m[:40], {"witness": {"seed": s, "provider": prov}, "detail": m})
        finally:
            icalendar.timezone.tzp.use_default()
    b.cases = cases
    b.nontrivial = cases
    b.failures = list(fails.values())[:12]
    b.samples = ["Calendar > X-BOX > VEVENT(RDATE;TZID=Europe/Berlin x2) + VTIMEZONE(Unused/Zone)"]
    return b


def search_for(oid):
    from vc.common import Bounded
    b = Bounded("s", "", "")
    run(b, "quick", 0)
    for f in b.failures:
        return f["witness"], f["detail"]
    return None


def replay_witness(w):
    import icalendar
    icalendar.timezone.tzp.use(w["provider"])
    try:
        cal, used, present = build(random.Random(w["seed"]))
        return "; ".join(check(cal, used, present, 2)) or None
    finally:
        icalendar.timezone.tzp.use_default()
