"""C10 -- serialisation is deterministic, pure and insertion-order independent.

Functions under contract (real source, every run): Component.property_items (order; proved in C18's recursive contract and
re-discharged here for both values of `sorted`), canonsort_keys / CaselessDict.sorted_keys, Parameters.to_ical(sorted),
Component.content_line / content_lines / to_ical, Contentline.from_parts, every `to_ical` of prop.py (frame), vRecur.to_ical.

Obligations
  order.*        with sorted=True the emitted names follow sorted_keys(), with sorted=False exactly keys(); values of one name
                 and subcomponents keep insertion order; BEGIN first, END last, same name (pyvc, from C18)
  canonsort.*    canonsort_keys returns a permutation of the keys that does not depend on the input order (list-algebra VCs on the real body, all inputs)
                 => with the assumed contract of `sorted` the result is a function of the key SET for distinct keys:
                 insertion-order independent; priority names first in declared order, the rest ascending
  params.sorted  Parameters.to_ical sorts the (name, value) items when sorted (shape) => by name for distinct names
  frame.*        static "modifies {}" analysis of every function reachable from Component.to_ical (all to_ical methods,
                 property_items, content_line(s), from_parts, Parameters.to_ical, param_value, q_join, dquote, foldline,
                 canonsort, tzid helpers): no store to, and no mutating call on, anything reachable from self
                 => serialising twice gives identical bytes and leaves the tree unchanged
  determinism.*  none of those functions calls hash/id/random/time or iterates / joins a set without sorted(...)
                 => the bytes do not depend on PYTHONHASHSEED (plus a cross-process bounded check)
Balanced BEGIN/END nesting follows from the recursive contract (BEGIN name ... END same name around properties and the
children's blocks) for property names other than BEGIN/END; checked natively by the stand-in.
"""
from __future__ import annotations

import ast
import os
import subprocess
import sys
import time

import z3

from vc import common
from vc.common import Obligation, Bounded, PROVED, REFUTED, UNDECIDED, ERROR
from vc.pyvc import source
from vc.static import frame

LEVEL = "proof"
PID = "C10"


def construction_functions():
    """constructors of every class of prop.py plus the name-based call closure of Component.add / _encode / add_component /
    CaselessDict.__setitem__ / update over cal.py, prop.py, parser.py, caselessdict.py, timezone/tzid.py"""
    mods = {m: source.module(m) for m in ("cal", "parser", "prop", "caselessdict", "parser_tools", "timezone/tzid")}
    table = {}
    for mn, m in mods.items():
        for fn, node in m.functions.items():
            table.setdefault(fn, []).append((f"{mn}:{fn}", node))
    seen = {}
    todo = []
    for cn in mods["prop"].classes:
        for key in ("__init__", "__new__"):
            nd = mods["prop"].class_members(cn).get(key)
            if isinstance(nd, ast.FunctionDef):
                todo.append((f"prop:{cn}.{key}", nd))
    for q in ("Component.add", "Component._encode", "Component.add_component", "Component.__init__"):
        todo.append((f"cal:{q}", mods["cal"].lookup(q)))
    for q in ("CaselessDict.__setitem__", "CaselessDict.update", "CaselessDict.__init__"):
        todo.append((f"caselessdict:{q}", mods["caselessdict"].lookup(q)))
    for q in ("Parameters.__init__", "Parameters.update"):
        todo.append((f"parser:{q}", mods["parser"].lookup(q)))
    while todo:
        label, node = todo.pop()
        if node is None or label in seen:
            continue
        seen[label] = node
        for c in frame.calls_of(node):
            if not c.startswith("."):
                for lab, nd in table.get(c, []):
                    todo.append((lab, nd))
    return seen


def canonsort_shape():
    """canonsort_keys returns a permutation of the keys whose order does not depend on the order of the input (distinct keys): the
    result is a function of the key SET.  Decided on the real body by the list-algebra VCs (vc/pyvc/listalg: perm, det, noraise) for
    all key lists and declared orders - no statement-shape rule.  (WHICH order it is belongs to C17.)"""
    from vc.pyvc import listalg as LA
    import z3
    fn = "caselessdict:canonsort_keys"
    mod, node = source.find(fn)
    ob = Obligation(f"{PID}.canonsort.result_depends_on_the_key_set_only", fn, "z3", UNDECIDED, lines=source.lines_of(node) if node is not None else None)
    if node is None:
        ob.detail = "function not found"
        return ob
    try:
        params = [a.arg for a in node.args.args]
        desc, ctx, goals = LA.vcs(node, params[0], params[1])
    except LA.Unsupported as e:
        ob.detail = f"outside the list algebra (filter / sorted / +): {e} (the stand-in decides)"
        return ob
    t0 = time.time()
    for key in ("perm", "det", "noraise"):
        sol = z3.Solver()
        sol.set(timeout=10000)
        sol.add(*ctx.hyps())
        sol.add(z3.Not(goals[key]))
        r = sol.check()
        if r == z3.sat:
            from props import C10_bnd
            w = C10_bnd.canon_order_dependence()
            if w:
                ob.status, ob.detail, ob.witness, ob.replay = REFUTED, f"{key} fails for the term {desc}: {sol.model()}", w[0], {"confirmed": True, "native": w[1]}
            else:
                ob.detail = f"{key}: z3 model for the term {desc} not reproduced on the real function: undecided"
            ob.seconds = time.time() - t0
            return ob
        if r != z3.unsat:
            ob.detail = f"{key}: z3 {r}"
            ob.seconds = time.time() - t0
            return ob
    ob.status, ob.seconds = PROVED, time.time() - t0
    ob.detail = f"permutation, independence of the input order and no exception proved for all inputs; result term: {desc}"
    return ob


def shape_obligation(oid, target, needles, what, exact=False):
    mod, node = source.find(target)
    ob = Obligation(oid, target, "fin", UNDECIDED, lines=source.lines_of(node))
    if node is None:
        ob.detail = "function not found"
        return ob
    # the needles are whole statements and, taken together, have to BE the body in this order (a body that only adds a statement, e.g. a
    # shuffle before the loop, is outside the rule as well); a needle may be a prefix of a compound statement's first line
    body = []
    for st in source.strip_docstring(node.body):
        body += ast.unparse(st).split("\n")
    body = [x.strip() for x in body]
    if exact:
        if body != [n.strip() for n in needles]:
            i = next((k for k in range(min(len(body), len(needles))) if body[k] != needles[k].strip()), min(len(body), len(needles)))
            ob.detail = f"statement {i + 1} is `{body[i] if i < len(body) else '<end>'}`, the rule expects `{needles[i].strip() if i < len(needles) else '<end>'}`: outside the shape rule"
        else:
            ob.status, ob.detail = PROVED, what
        return ob
    s = ast.unparse(node)
    missing = [n for n in needles if n not in s]
    if missing:
        ob.detail = f"no longer contains `{missing[0]}`: outside the shape rule"
    else:
        ob.status, ob.detail = PROVED, what
    return ob


def reachable_functions():
    """name-based call-graph closure from Component.to_ical over cal.py, parser.py, prop.py, caselessdict.py, timezone/tzid.py"""
    mods = {m: source.module(m) for m in ("cal", "parser", "prop", "caselessdict", "parser_tools", "timezone/tzid")}
    table = {}           # simple name -> list[(label, node)]
    for mn, m in mods.items():
        for fn, node in m.functions.items():
            table.setdefault(fn, []).append((f"{mn}:{fn}", node))
        for cn in m.classes:
            for key, node in m.class_members(cn).items():
                if isinstance(node, ast.FunctionDef):
                    table.setdefault("." + node.name, []).append((f"{mn}:{cn}.{key}", node))
    start = [("cal:Component.to_ical", mods["cal"].lookup("Component.to_ical"))]
    # methods that are part of serialisation by dynamic dispatch
    seen = {}
    todo = list(start)
    relevant_methods = {".to_ical", ".property_items", ".content_lines", ".content_line", ".from_parts", ".sorted_keys", ".sorted_items",
                        ".params", ".keys"}
    while todo:
        label, node = todo.pop()
        if node is None or label in seen:
            continue
        seen[label] = node
        for c in frame.calls_of(node):
            if c.startswith("."):
                if c not in relevant_methods:
                    continue
                for lab, nd in table.get(c, []):
                    if "Factory" in lab or ":Contentline.to_ical" in lab and False:
                        continue
                    todo.append((lab, nd))
            else:
                for lab, nd in table.get(c, []):
                    todo.append((lab, nd))
                # classes used as constructors: their __init__ / __new__ run during to_ical (vText(...), vDatetime(...))
                for mn, m in mods.items():
                    if c in m.classes:
                        for key in ("__init__", "__new__"):
                            nd = m.class_members(c).get(key)
                            if isinstance(nd, ast.FunctionDef):
                                todo.append((f"{mn}:{c}.{key}", nd))
    return seen


def run(rep: common.Report):
    findings = common.findings_for(PID)
    rep.trust("assumed: sorted() returns the ordered permutation (unique for distinct keys); dict / OrderedDict iteration is insertion order",
              "static frame analysis (vc/static/frame.py): conservative for direct writes and mutating calls through self or its aliases; "
              "constructors of value objects created during serialisation write to the NEW object only",
              "name-based call graph (dynamic dispatch of to_ical resolved to every to_ical in prop.py / cal.py / parser.py)",
              "engine for the order obligations: vc/pyvc (see C18)")
    # ---- order (pyvc, shared with C18)
    try:
        from props import C18
        eng, classes = C18.make_engine()
        from props import C10_bnd as _b
        for ob in C18.obligations(eng, classes, rep.tier):
            if ".property_items." in ob.oid:
                ob.oid = ob.oid.replace("C18.", f"{PID}.order.")
                if ob.status == REFUTED:
                    w = _b.search_for(ob.oid)
                    if w:
                        ob.witness, ob.replay = w[0], {"confirmed": True, "native": w[1]}
                    elif getattr(ob, "shape_only", False):
                        ob.status = UNDECIDED
                        ob.detail += " -- not confirmed natively"
                rep.add(ob)
    except Exception as e:  # noqa
        import traceback
        traceback.print_exc()
        rep.add(Obligation(f"{PID}.order.engine", "cal:Component.property_items", "z3", ERROR, detail=repr(e)))
    # ---- the insertion history is recorded faithfully: Component.add leaves every present name at its first-insertion position (C02's
    #      contract of add, re-discharged here: "with sorting off properties appear exactly in insertion order")
    try:
        from props import C02, C02_bnd

        class _R:
            functions = set()
        for ob in C02.add_obligations(_R, rep.tier):
            if ob.oid.endswith("names_keep_their_first_insertion_position"):
                ob.oid = f"{PID}.order.Component.add.names_keep_their_first_insertion_position"
                if ob.status == REFUTED:
                    w = _b.search_for(ob.oid)
                    hist = _b.insertion_history_check()
                    if hist:
                        ob.witness, ob.replay = {"case": "history"}, {"confirmed": True, "native": hist[0]}
                    else:
                        ob.status = UNDECIDED
                        ob.detail += " -- not confirmed natively"
                rep.add(ob)
                rep.functions.add("cal:Component.add")
    except Exception as e:  # noqa
        import traceback
        traceback.print_exc()
        rep.add(Obligation(f"{PID}.order.Component.add", "cal:Component.add", "z3", ERROR, detail=repr(e)))
    # ---- canonsort / sorted_keys / Parameters.to_ical shapes
    rep.add(canonsort_shape())
    rep.add(shape_obligation(f"{PID}.canonsort.sorted_keys_uses_canonical_order", "caselessdict:CaselessDict.sorted_keys",
                             ["return canonsort_keys(self.keys(), self.canonical_order)"], "sorted_keys = canonsort_keys(keys, class canonical_order)"))
    rep.add(shape_obligation(f"{PID}.params.sorted_by_name", "parser:Parameters.to_ical",
                             ["result = []", "items = list(self.items())", "if sorted:", "items.sort()", "for key, value in items:", "value = param_value(value)",
                              "if isinstance(value, str):", "value = value.encode(DEFAULT_ENCODING)", "key = key.upper().encode(DEFAULT_ENCODING)",
                              "result.append(key + b'=' + value)", "return b';'.join(result)"],
                             "parameters are emitted in the order of the sorted (name, value) items when sorted, else insertion order", exact=True))
    rep.add(shape_obligation(f"{PID}.order.content_lines_follow_property_items", "cal:Component.content_lines",
                             ["contentlines = Contentlines()", "for name, value in self.property_items(sorted=sorted):",
                              "cl = self.content_line(name, value, sorted=sorted)", "contentlines.append(cl)", "contentlines.append('')", "return contentlines"],
                             "one content line per property item, in that order, sorted flag handed down", exact=True))
    rep.add(shape_obligation(f"{PID}.order.property_items_hands_sorted_down", "cal:Component.property_items",
                             ["properties += subcomponent.property_items(sorted=sorted)"], "subcomponents are serialised with the same sorted flag"))
    # ---- frame + determinism over everything reachable from Component.to_ical
    try:
        fns = reachable_functions()
    except Exception as e:  # noqa
        fns = {}
        rep.add(Obligation(f"{PID}.frame.call_graph", "cal:Component.to_ical", "fin", ERROR, detail=repr(e)))
    rep.extra["functions_reachable_from_to_ical"] = sorted(fns)
    pure_ok = Obligation(f"{PID}.frame.serialisation_modifies_nothing", "every function reachable from cal:Component.to_ical", "fin", PROVED)
    det_ok = Obligation(f"{PID}.determinism.no_hash_time_random_or_set_order", "every function reachable from cal:Component.to_ical", "fin", PROVED)
    n_to_ical = 0
    for label, node in sorted(fns.items()):
        rep.functions.add(label)
        if label.endswith(".to_ical"):
            n_to_ical += 1
        is_ctor = label.endswith(".__init__") or label.endswith(".__new__")
        args = [a.arg for a in node.args.args]
        selfname = args[0] if args and args[0] in ("self",) else None
        if selfname and not is_ctor:
            v = frame.frame_violations(node, selfname)
            if v and pure_ok.status == PROVED:
                pure_ok.status = REFUTED
                pure_ok.detail = f"{label} line {v[0][0]}: {v[0][1]}"
                pure_ok.witness = {"function": label, "line": v[0][0], "what": v[0][1]}
        nd = frame.nondeterminism(node)
        if nd and det_ok.status == PROVED:
            det_ok.status = REFUTED
            det_ok.detail = f"{label} line {nd[0][0]}: {nd[0][1]}"
            det_ok.witness = {"function": label, "line": nd[0][0], "what": nd[0][1]}
    if n_to_ical < 15 and pure_ok.status == PROVED:
        pure_ok.status, pure_ok.detail = ERROR, f"only {n_to_ical} to_ical methods found (vacuity guard)"
    pure_ok.detail = pure_ok.detail or f"{len(fns)} functions analysed ({n_to_ical} to_ical methods)"
    det_ok.detail = det_ok.detail or f"{len(fns)} functions analysed"
    # construction side ("the same sequence of API calls produces the same bytes whatever the hash seed"): every value-class
    # constructor of prop.py and everything reachable from Component.add / add_component / item assignment
    con_ok = Obligation(f"{PID}.determinism.construction_does_not_depend_on_hash_order", "Component.add and every value constructor of prop.py", "fin", PROVED)
    try:
        cons = construction_functions()
    except Exception as e:  # noqa
        cons = {}
        con_ok.status, con_ok.detail = ERROR, repr(e)
    for label, node in sorted(cons.items()):
        nd = frame.nondeterminism(node)
        if nd and con_ok.status == PROVED:
            con_ok.status = REFUTED
            con_ok.detail = f"{label} line {nd[0][0]}: {nd[0][1]}"
            con_ok.witness = {"function": label, "line": nd[0][0], "what": nd[0][1]}
    if len(cons) < 25 and con_ok.status == PROVED:
        con_ok.status, con_ok.detail = ERROR, f"only {len(cons)} construction functions found (vacuity guard)"
    con_ok.detail = con_ok.detail or f"{len(cons)} functions analysed (constructors of prop.py, Component.add / _encode / add_component / __setitem__ and what they call)"
    rep.extra["functions_reachable_from_construction"] = sorted(cons)
    from props import C10_bnd
    for ob in (pure_ok, det_ok, con_ok):
        if ob.status == REFUTED:
            w = C10_bnd.search_for(ob.oid)
            if w:
                ob.witness = dict(ob.witness or {}, **w[0])
                ob.replay = {"confirmed": True, "native": w[1]}
            else:
                ob.replay = {"confirmed": False, "native": "the bounded stand-in found no input that shows the effect"}
        rep.add(ob)
    b = Bounded("C10.bnd.serialisation", "cal:Component.to_ical and friends (real objects, several processes)", C10_bnd.BOUND[rep.tier])
    t0 = time.time()
    try:
        C10_bnd.run(b, rep.tier, rep.seed)
    except Exception as e:  # noqa
        import traceback
        traceback.print_exc()
        b.error = repr(e)
    b.seconds = time.time() - t0
    rep.bounded.append(b)
    from vc.static import state as _state
    rep.add(_state.obligation(PID, ('cal', 'prop', 'parser', 'parser_tools', 'caselessdict', 'timezone/tzid'), Obligation, PROVED, UNDECIDED))
    rep.explanation = __doc__


def replay(payload: dict) -> int:
    from props import C10_bnd
    w = payload.get("witness") or {}
    if w.get("canon_perm"):
        from props import C10_bnd
        r = C10_bnd.canon_order_dependence()
        print("replay:", r[1] if r else "no violation on the current tree")
        return 1 if r else 0
    if "seed" in w or "case" in w:
        msg = C10_bnd.replay_witness(w)
        print("replay:", msg or "no violation on the current tree")
        return 1 if msg else 0
    print("replay: static obligation:", payload.get("verifier_output"))
    return 1
