"""C19 -- recurrence rules round-trip all parts, FREQ first, same occurrences.

Functions under contract (real source from prop.py, every run): vRecur.to_ical, vRecur.from_ical, vRecur.parse_type,
vRecur.canonical_order / types tables, canonsort (C10), the per-part codecs vInt / vWeekday / vFrequency / vMonth / vSkip.

Obligations
  order      canonical_order (read from the source) starts with RSCALE, FREQ; to_ical iterates sorted_items() (shape), whose
             order is canonsort's (C10): FREQ is first after an optional RSCALE, other parts in RFC order, unknown parts last
             alphabetically; the `types` table maps every RFC part name to its value class (fin against the RFC table)
  text       to_ical is  ';'.join(KEY '=' ','.join(typ(v).to_ical()))  and from_ical is split(';') / split('=') / split(',')
             (shapes); for atoms free of ; = , the two are inverse on the 3-level marker encoding (decided by fstc for ALL
             strings), a part without exactly one '=' is skipped (trailing ';')
  atoms      every typed part value encodes to an atom free of ; = , and decodes back: finite types completely (fin);
             integers and dates by C03's obligations
  grammar    the emitted text matches the RECUR grammar for in-domain values (regular inclusion on the encoding, fstc)
Occurrence sets (a standard expander, dateutil) and the rule grid of the statement are a labelled bounded stand-in.
"""
from __future__ import annotations

import ast
import time

from vc import common
from vc.common import Obligation, Bounded, PROVED, REFUTED, UNDECIDED, ERROR
from vc.pyvc import source
from vc.fstc import fst as F
from vc.fstc import regex as R
from vc.fstc import decide as D
from vc.fstc import oblig

LEVEL = "other"
PID = "C19"
RFC_ORDER = ["FREQ", "UNTIL", "COUNT", "INTERVAL", "BYSECOND", "BYMINUTE", "BYHOUR", "BYDAY", "BYMONTHDAY", "BYYEARDAY", "BYWEEKNO", "BYMONTH",
             "BYSETPOS", "WKST"]
RFC_TYPES = {"COUNT": "vInt", "INTERVAL": "vInt", "BYSECOND": "vInt", "BYMINUTE": "vInt", "BYHOUR": "vInt", "BYWEEKNO": "vInt",
             "BYMONTHDAY": "vInt", "BYYEARDAY": "vInt", "BYMONTH": "vMonth", "UNTIL": "vDDDTypes", "BYSETPOS": "vInt", "WKST": "vWeekday",
             "BYDAY": "vWeekday", "FREQ": "vFrequency", "SKIP": "vSkip"}
A = [";", "=", ",", "A", "B", "1", "-", "x"]
M1, M2, M3 = "\x1d", "\x1e", "\x1f"
AL = A + [M1, M2, M3]


def class_tables():
    """canonical_order and types of vRecur, computed from the real class body (source.class_constants: literals, or tables derived
    from another table of the body by a comprehension / a constructor)"""
    mod = source.module("prop")
    consts = source.class_constants(mod, "vRecur")
    order = consts.get("canonical_order")
    if not (isinstance(order, (tuple, list)) and all(isinstance(x, str) for x in order)):
        order = None
    types = consts.get("types")
    if isinstance(types, dict) and all(isinstance(k, str) for k in types):
        types = {k: (v.id if isinstance(v, source.ClsRef) else None) for k, v in types.items()}
    else:
        types = None
    return order, types


EXACT = {
    "prop:vRecur.to_ical": "result = []\nfor key, vals in self.sorted_items():\n    typ = self.types.get(key, vText)\n    if not isinstance(vals, SEQUENCE_TYPES):\n"
                           "        vals = [vals]\n    vals = b','.join((typ(val).to_ical() for val in vals))\n    key = key.encode(DEFAULT_ENCODING)\n"
                           "    result.append(key + b'=' + vals)\nreturn b';'.join(result)",
    "prop:vRecur.from_ical": "if isinstance(ical, cls):\n    return ical\ntry:\n    recur = cls()\n    for pairs in ical.split(';'):\n        try:\n"
                             "            key, vals = pairs.split('=')\n        except ValueError:\n            continue\n"
                             "        recur[key] = cls.parse_type(key, vals)\n    return cls(recur)\nexcept ValueError:\n    raise\nexcept:\n"
                             "    raise ValueError(f'Error in recurrence rule: {ical}')",
    "prop:vRecur.parse_type": "parser = cls.types.get(key, vText)\nreturn [parser.from_ical(v) for v in values.split(',')]",
}


def shape(target, needles=None):
    """the TRANSCRIBED loop structure is valid for exactly this statement list (ast.unparse of the real body, docstring stripped): a body
    that only ADDS a statement is outside it as well (substring needles would let that through)"""
    mod, node = source.find(target)
    if node is None:
        return False, "function not found"
    got = "\n".join(ast.unparse(x) for x in source.strip_docstring(node.body))
    want = EXACT[target]
    if got != want:
        gl, wl = got.split("\n"), want.split("\n")
        i = next((k for k in range(min(len(gl), len(wl))) if gl[k] != wl[k]), min(len(gl), len(wl)))
        return False, f"statement {i + 1} is `{(gl[i] if i < len(gl) else '<end>').strip()}`, transcribed `{(wl[i] if i < len(wl) else '<end>').strip()}`"
    return True, ""


def run(rep: common.Report):
    rep.trust("assumed: sorted()/canonsort (C10); str.split / str.join on separator-free atoms (decided by fstc on the marker encoding)",
              "TRANSCRIBED: the loop structure of vRecur.to_ical / from_ical (guarded by shape checks; compared with the real methods by the stand-in)",
              "external: dateutil.rrule as the standard expander (bounded stand-in only)")
    # ---- order
    order, types = class_tables()
    ob = Obligation(f"{PID}.order.FREQ_first_after_optional_RSCALE", "prop:vRecur.canonical_order", "fin", PROVED)
    if order is None:
        ob.status, ob.detail = UNDECIDED, "canonical_order is not a literal tuple"
    else:
        rest = [k for k in order if k in RFC_ORDER]
        if not (list(order[:2]) == ["RSCALE", "FREQ"] or order[0] == "FREQ"):
            ob.status, ob.detail = REFUTED, f"canonical_order starts with {order[:2]!r}"
            ob.witness = {"static": "canonical_order"}
        elif rest != RFC_ORDER:
            ob.status, ob.detail = REFUTED, f"RFC 5545 part order is not kept: {rest!r}"
            ob.witness = {"static": "canonical_order"}
        elif len(set(order)) != len(order) or any(k != k.upper() for k in order):
            ob.status, ob.detail = REFUTED, "canonical_order has duplicates or lower-case names"
            ob.witness = {"static": "canonical_order"}
        else:
            ob.detail = f"canonical_order = {order!r}"
    rep.add(ob)
    ob = Obligation(f"{PID}.order.types_table_matches_RFC", "prop:vRecur.types", "fin", PROVED)
    if types is None:
        ob.status, ob.detail = UNDECIDED, "types is not a literal table"
    else:
        wrong = {k: (types.get(k), v) for k, v in RFC_TYPES.items() if types.get(k) != v}
        if wrong:
            ob.status, ob.detail = REFUTED, f"value classes differ from the RFC: {wrong!r}"
            ob.witness = {"static": "types"}
        else:
            ob.detail = f"{len(RFC_TYPES)} RFC part names checked"
    rep.add(ob)
    # a failing rule for a refuted table obligation: every RFC part through the real class against the RFC's order / value types
    if any(o.status == REFUTED for o in rep.obligations[-2:]):
        from props import C19_bnd
        samples = {"UNTIL": "20300101T000000Z", "COUNT": 3, "INTERVAL": 2, "BYSECOND": 5, "BYMINUTE": 7, "BYHOUR": 9, "BYDAY": "MO", "BYMONTHDAY": 11,
                   "BYYEARDAY": 100, "BYWEEKNO": 20, "BYMONTH": 5, "BYSETPOS": 1, "WKST": "SU"}
        for o in rep.obligations[-2:]:
            if o.status != REFUTED:
                continue
            for k in RFC_ORDER[1:]:
                rule = {"FREQ": "YEARLY", k: samples[k] if k != "UNTIL" else __import__("datetime").datetime(2030, 1, 1, tzinfo=__import__("datetime").timezone.utc)}
                if "order" in o.oid and "types" not in o.oid:
                    rule = {kk: rule.get(kk, samples.get(kk)) for kk in reversed(RFC_ORDER) if kk not in ("UNTIL", "FREQ")}
                    rule["FREQ"] = "YEARLY"
                    from icalendar import prop as _p
                    text = _p.vRecur(rule).to_ical().decode()
                    keys = [x.split("=")[0] for x in text.split(";")]
                    msgs = [] if keys == [x for x in RFC_ORDER if x in rule] else [f"{text!r}: the parts are not in the order of RFC 5545 3.3.10"]
                else:
                    msgs = [m for m in C19_bnd.check(rule) if "typed value" in m]
                if msgs:
                    o.witness = {"rule": repr(rule)}
                    o.replay = {"confirmed": True, "native": msgs[0]}
                    break
    ok, why = shape("prop:vRecur.to_ical", ["for key, vals in self.sorted_items():", "typ = self.types.get(key, vText)",
                                            "if not isinstance(vals, SEQUENCE_TYPES):", "vals = [vals]",
                                            "vals = b','.join((typ(val).to_ical() for val in vals))", "result.append(key + b'=' + vals)",
                                            "return b';'.join(result)"])
    ob = Obligation(f"{PID}.text.to_ical_is_join_of_parts_in_sorted_items_order", "prop:vRecur.to_ical", "fin", PROVED if ok else UNDECIDED,
                    detail="shape matched" if ok else why)
    rep.add(ob)
    ok2, why2 = shape("prop:vRecur.from_ical", ["for pairs in ical.split(';'):", "key, vals = pairs.split('=')", "except ValueError:", "continue",
                                                 "recur[key] = cls.parse_type(key, vals)", "return cls(recur)"])
    ok3, why3 = shape("prop:vRecur.parse_type", ["parser = cls.types.get(key, vText)", "return [parser.from_ical(v) for v in values.split(',')]"])
    rep.add(Obligation(f"{PID}.text.from_ical_is_split_of_parts", "prop:vRecur.from_ical / parse_type", "fin", PROVED if (ok2 and ok3) else UNDECIDED,
                       detail="shape matched" if (ok2 and ok3) else (why2 or why3)))
    # ---- split/join lemma on the marker encoding (fstc, all strings)
    if ok and ok2 and ok3:
        to = F.relabel({M3: ";", M2: "=", M1: ","}, AL)

        # from: per ';'-segment: exactly one '=' else the segment is dropped (`key, vals = pairs.split('=')` raises ValueError ->
        # continue); then ',' separates values.  Finite-state by guessing KEEP / DROP at the start of each segment and
        # verifying the guess at its end (a functional non-deterministic transducer).
        def step(q, a):
            mode, eqs, any_out = q           # mode: 'start' | 'keep' | 'drop'
            if a in (M1, M2, M3):
                return []
            res = []
            modes = [("keep", (M3 if any_out else "")), ("drop", "")] if mode == "start" else [(mode, "")]
            for md, pre in modes:
                if a == ";":
                    if md == "keep":
                        if mode != "start" and eqs == 1:
                            res.append((("start", 0, True), pre))
                    else:
                        if mode == "start" or eqs != 1:
                            res.append((("start", 0, any_out), ""))
                    continue
                if md == "drop":
                    res.append((("drop", min(eqs + (a == "="), 2), any_out), ""))
                    continue
                if a == "=":
                    if eqs == 0:
                        res.append((("keep", 1, any_out), pre + M2))
                    continue                     # a second '=' cannot occur in a kept segment
                if a == "," and eqs == 1:
                    res.append((("keep", 1, any_out), pre + M1))
                else:
                    res.append((("keep", eqs, any_out), pre + a))
            return res

        def final(q):
            mode, eqs, any_out = q
            if mode == "start":
                return ""                        # the empty last segment has no '=': skipped
            if mode == "keep":
                return "" if eqs == 1 else None
            return "" if eqs != 1 else None
        import re
        atom = "[AB1x-]+"
        part = f"{atom}{re.escape(M2)}{atom}(?:{re.escape(M1)}{atom})*"
        dom = R.dfa_from_regex(f"{part}(?:{re.escape(M3)}{part})*", AL, "fullmatch")
        frm = F.FST.from_function(AL, ("start", 0, False), step, final)
        # cross-check the transcribed from-machine against the real vRecur.from_ical text structure
        import itertools
        from icalendar.prop import vRecur
        small = [";", "=", ",", "X", "Y"]
        nchk, badc = 0, None
        for k in range(0, 7):
            for tup in itertools.product(small, repeat=k):
                text = "".join(tup)
                try:
                    rr = vRecur.from_ical(text)
                except Exception:
                    continue
                segs = [p for p in text.split(";") if p.count("=") == 1]
                if len({p.split("=")[0].upper() for p in segs}) != len(segs):
                    continue                       # repeated names collapse in the mapping
                want = M3.join(kk + M2 + M1.join(str(v) for v in vs) for kk, vs in rr.items())
                outs = frm.apply(text.replace("X", "A").replace("Y", "B"))
                got = next(iter(outs)).replace("A", "X").replace("B", "Y") if outs else None
                nchk += 1
                if got != want and badc is None:
                    badc = (text, got, want)
        rep.crosschecks.append({"name": "transcribed vRecur.from_ical text structure vs the real method", "strings": nchk, "ok": badc is None, "first": repr(badc)})
        if badc is not None:
            rep.error(f"the transcribed from_ical structure disagrees with the real method: {badc!r}")
        ob = oblig.decide_equiv(f"{PID}.text.split_inverts_join_for_separator_free_atoms", "prop:vRecur.to_ical -> from_ical (text structure)",
                                F.compose(to, frm), F.identity(AL), AL, [], lambda s: (None, None), rep.known_seen, domain=dom)
        rep.add(ob)
        # trailing ';' and parts without '=' are skipped
        trail = F.compose(F.concat_const("", to, ";"), frm)
        rep.add(oblig.decide_equiv(f"{PID}.text.trailing_semicolon_is_tolerated", "prop:vRecur.from_ical", trail, F.identity(AL), AL, [],
                                   lambda s: (None, None), rep.known_seen, domain=dom))
    # ---- atoms: finite part types completely
    from props import C19_bnd
    t0 = time.time()
    bad, n = C19_bnd.finite_atoms()
    ob = Obligation(f"{PID}.atoms.finite_part_values_are_separator_free_and_round_trip", "prop:vWeekday/vFrequency/vMonth/vSkip/vInt", "fin",
                    PROVED if not bad else REFUTED, time.time() - t0, f"{n} part values enumerated" if not bad else f"fails: {bad[:3]!r}")
    if bad:
        ob.witness = {"atom": repr(bad[0])}
        ob.replay = {"confirmed": True, "native": repr(bad[0])}
    rep.add(ob)
    b = Bounded("C19.bnd.rules", "prop:vRecur (real) + dateutil.rrule", C19_bnd.BOUND[rep.tier])
    t0 = time.time()
    try:
        C19_bnd.run(b, rep.tier, rep.seed)
    except Exception as e:  # noqa
        import traceback
        traceback.print_exc()
        b.error = repr(e)
    b.seconds = time.time() - t0
    rep.bounded.append(b)
    from vc.static import state as _state
    rep.add(_state.obligation(PID, ('prop', 'caselessdict'), Obligation, PROVED, UNDECIDED))
    rep.explanation = __doc__ + "\nLevel 'other': order/table/shape obligations are static, the text lemma is decided by fstc on a bounded shape, part codecs are " \
        "enumerated; the per-part dispatch inside to_ical/from_ical and the expander clause are bounded."


def replay(payload: dict) -> int:
    from props import C19_bnd
    w = payload.get("witness") or {}
    if "rule" in w:
        msg = C19_bnd.replay_witness(w)
        print("replay:", msg or "no violation on the current tree")
        return 1 if msg else 0
    print("replay: static obligation:", payload.get("verifier_output"))
    return 1
