"""C02 -- a calendar built through the API survives serialise and parse intact.

Functions under contract (real bodies from prop.py / cal.py / timezone/tzid.py, re-read every run):
  TypesFactory.types_map / __init__ (tables, read from the AST), vDDDTypes.__init__, vDDDLists.__init__ (loop invariant),
  vPeriod.__init__, tzid_from_dt, Component._encode, Component.add.

Obligations
  T.property_types      every RFC 5545 property name (spec/rfc5545_properties.json, transcribed from RFC 5545 section 3.7/3.8) is
                        mapped to a type name whose class decodes the RFC's default value type (fin, complete)
  T.alternatives_tagged for every (name, permitted alternative value type) of the RFC the VALUE parameter given by the
                        constructor contracts below is exactly the alternative's name (fin over the contracts)
  D.tzid_from_dt        AttributeError iff the argument is neither datetime nor time; otherwise None or a str
  V1 vDDDTypes(dt)      ValueError iff dt is not datetime/date/timedelta/time/tuple; .dt is dt; the WHOLE params view is
                        {VALUE: DATE|TIME|PERIOD for date|time|tuple} + {TZID: tzid_from_dt(dt)} iff dt is a datetime/time with a
                        known zone other than 'UTC'
  V2 vDDDLists(seq)     (invariant over the real loop, any length) dts[j] = vDDDTypes(seq[j]); raises only ValueError;
                        if all elements have the same kind, params.VALUE is that kind's tag (absent for date-times, absent for an
                        empty list); if all zoned elements share one zone z, TZID is present iff some element is zoned and equals z
                        -- so every zoned element carries its own TZID.  WITHOUT the one-zone precondition the last clause is
                        refuted (known finding C02-F1: one TZID for the whole list)
  V3 vPeriod(per)       raises only ValueError (TypeError / OverflowError of the arithmetic included); params view =
                        {VALUE: PERIOD} + {TZID: zone of start} iff start is zoned and not UTC
  E  _encode            typed values are not re-encoded; otherwise the class is types_factory.for_property(name); parameters are
                        merged (None deletes); a date-time TRIGGER gets VALUE=DATE-TIME
  A  add                DTSTAMP/CREATED/LAST-MODIFIED date-times are converted with tzp.localize_utc; the stored list view of
                        the name becomes old ++ new (order of repeated properties preserved); nothing else changes
The API grid (all names x value kinds x parameters x nesting, build -> to_ical -> from_ical -> compare, both providers) is a
labelled bounded stand-in.
"""
from __future__ import annotations

import ast
import json
import os
import time

import z3

from contracts import caseless, comp, od
from contracts import dt as dtc
from vc import common
from vc.common import Obligation, Bounded, PROVED, REFUTED, UNDECIDED, ERROR
from vc.pyvc import compare, source
from vc.pyvc import engine as E
from vc.pyvc.discharge import TIMEOUT_MS, check_vc

LEVEL = "other"
PID = "C02"
HERE = os.path.dirname(os.path.abspath(__file__))
EMPTY = z3.K(E.S, E.OptRef.none)
has_tz = z3.Function("tzid_known", E.Ref, E.B)
tz_of = z3.Function("tzid_of", E.Ref, E.S)
ALLOWED = ["datetime", "date", "timedelta", "time", "tuple"]


# ---------------------------------------------------------------------------------------------------
# engine

def new_parameters(engine, st, args, kw):
    """ASSUMED (checked by C17's stand-in and the cross-check below): Parameters(mapping) is the fold of __setitem__ over it"""
    m = E.MapObj(EMPTY, z3.K(E.S, z3.IntVal(0)), z3.IntVal(0), cls="Parameters")
    v = E.VMap(st.alloc(m))
    if args:
        return map_update(engine, st, [v] + list(args), kw, ret=v)
    return [(st, v)]


def map_update(engine, st, args, kw, ret=None):
    selfv, d = args[0], args[1]
    if not isinstance(d, E.VDict):
        raise E.Undecided("update / construction from something other than a dict display")
    for k, val in d.items:
        od.od_setitem(engine, st, [selfv, caseless.K_of(engine, st, k), val], {})
    return [(st, ret if ret is not None else E.VNone())]


def c_tzid_from_dt(engine, st, args, kw):
    """caller-side contract of tzid_from_dt (proved against the body by D.tzid_from_dt)"""
    d = engine.unbox_known(args[0], st)
    if not isinstance(d, E.VRef):
        raise E.Undecided("tzid_from_dt of a non-reference")
    out = []
    engine.attr_facts(d.z, "tzinfo", st)
    for s, ok in engine.split(st, engine.has_attr_z(d.z, "tzinfo")):
        if not ok:
            out.append((s, E.VExc("AttributeError", "tzinfo")))
            continue
        for s2, h in engine.split(s, has_tz(d.z)):
            if h:
                s2.assume(z3.Length(tz_of(d.z)) > 0)
            out.append((s2, E.VStr(tz_of(d.z)) if h else E.VNone()))
    return out


def load_string_constants(eng):
    """module-level constants that are collections of string literals (e.g. a set of names): usable in `in` tests"""
    for mn in ("prop", "cal"):
        for n in source.module(mn).tree.body:
            if isinstance(n, ast.Assign) and len(n.targets) == 1 and isinstance(n.targets[0], ast.Name):
                v = n.value
                if isinstance(v, ast.Call) and isinstance(v.func, ast.Name) and v.func.id in ("frozenset", "set", "tuple") and len(v.args) == 1:
                    v = v.args[0]
                try:
                    lit = ast.literal_eval(v)
                except Exception:  # noqa
                    continue
                if isinstance(lit, (tuple, list, set, frozenset)) and lit and all(isinstance(x, str) for x in lit):
                    eng.globals.setdefault(n.targets[0].id, E.VTuple([E.VStr(z3.StringVal(x)) for x in sorted(lit)]))


def make_engine():
    lat = E.Lattice()
    for m in ("caselessdict", "parser", "prop", "cal"):
        lat.load_module(m)
    eng = E.Engine(lat, {})
    caseless.register(eng.contracts)
    eng.attr_classes.setdefault("tzinfo", set()).update({"datetime", "time"})
    eng.noattr_classes |= {"date", "timedelta", "tuple", "int", "str", "NoneType", "float", "list"}
    eng.contracts["new:Parameters"] = new_parameters
    eng.contracts["CaselessDict.update"] = map_update

    def getitem(engine, st, c, k):
        """t[0] of an opaque tuple: its first element (IndexError when the tuple is empty)"""
        c = engine.unbox_known(c, st)
        kz = z3.simplify(k.z) if isinstance(k, E.VInt) else None
        if isinstance(c, E.VRef) and kz is not None and z3.is_int_value(kz) and kz.as_long() == 0:
            out = []
            for s, ok in engine.split(st, E.truthy(c.z)):
                out.append((s, E.VRef(tuple_item0(c.z)) if ok else E.VExc("IndexError", "tuple index out of range")))
            return out
        raise E.Undecided("subscript on an unsupported object")
    eng.contracts["op:getitem"] = getitem
    E.BUILTINS["tzid_from_dt"] = c_tzid_from_dt
    eng.globals["tzid_from_dt"] = E.VBuiltin("tzid_from_dt")
    load_string_constants(eng)
    return eng


def box_lit(eng, st, text):
    return eng.box(E.VStr(z3.StringVal(text)), st)


def spec_vddd_arr(eng, st, d):
    """the params view of vDDDTypes(d) as a z3 array expression (the contract callers and the tables use)"""
    L = eng.lat
    is_dt, is_date = L.isinstance_z(d, ["datetime"]), L.isinstance_z(d, ["date"])
    is_td, is_time = L.isinstance_z(d, ["timedelta"]), L.isinstance_z(d, ["time"])

    def val(tag):
        return z3.Store(EMPTY, z3.StringVal("VALUE"), E.OptRef.some(box_lit(eng, st, tag)))
    base = z3.If(z3.Or(is_dt, is_td), EMPTY, z3.If(is_date, val("DATE"), z3.If(is_time, val("TIME"), val("PERIOD"))))
    zoned = spec_zoned(eng, d)
    for x in (d, tuple_item0(d)):
        st.assume(E.cls_of(E.box_str(tz_of(x))) == eng.lat.id("str"), E.str_of(E.box_str(tz_of(x))) == tz_of(x),
                  E.truthy(E.box_str(tz_of(x))) == (z3.Length(tz_of(x)) > 0),
                  z3.Implies(has_tz(x), z3.Length(tz_of(x)) > 0))      # ASSUMED: a time zone id is never the empty string
    return z3.If(zoned, z3.Store(base, z3.StringVal("TZID"), E.OptRef.some(E.box_str(spec_tz(eng, d)))), base)


tuple_item0 = z3.Function("tuple_item0", E.Ref, E.Ref)


def zone_carrier(eng, d):
    """the date-time whose zone a value lies in: the value itself, or the start of a period tuple"""
    return z3.If(eng.lat.isinstance_z(d, ["tuple"]), tuple_item0(d), d)


def spec_zoned(eng, d):
    """from the property statement: a zoned value is a datetime / time with a known zone other than UTC, or a period (tuple)
    whose start is one"""
    L = eng.lat
    c = zone_carrier(eng, d)
    direct = z3.And(z3.Or(L.isinstance_z(d, ["datetime"]), L.isinstance_z(d, ["time"])), has_tz(d), tz_of(d) != z3.StringVal("UTC"))
    period = z3.And(L.isinstance_z(d, ["tuple"]), E.truthy(d), L.isinstance_z(c, ["datetime"]), has_tz(c), tz_of(c) != z3.StringVal("UTC"))
    return z3.Or(direct, period)


def spec_tz(eng, d):
    return tz_of(zone_carrier(eng, d))


def allowed_z(eng, d):
    return eng.lat.isinstance_z(d, ALLOWED)


def ob_from(oid, fn, lines, status, detail, backend="z3"):
    return Obligation(oid, fn, backend, status, detail=detail, lines=lines)


# ---------------------------------------------------------------------------------------------------
# D, V1, V3

def tzid_from_dt_obligations(rep, tier):
    fn = "timezone/tzid:tzid_from_dt"
    mod, node = source.find(fn)
    if node is None:
        return [ob_from(f"{PID}.D.tzid_from_dt", fn, None, UNDECIDED, "function not found")]
    eng = make_engine()
    rep.functions.add(fn)
    d = z3.Const("dt", E.Ref)
    tzinfo_id = z3.Function("tzid_of_tzinfo", E.Ref, E.Ref)          # Optional[str] of tzid_from_tzinfo (external lookups inside)

    def c_tzid_from_tzinfo(engine, st, args, kw):
        r = tzinfo_id(engine.box(args[0], st))
        st.assume(z3.Or(r == E.NONE, E.cls_of(r) == engine.lat.id("str")))
        return [(st, E.VRef(r))]
    E.BUILTINS["tzid_from_tzinfo"] = c_tzid_from_tzinfo
    eng.globals["tzid_from_tzinfo"] = E.VBuiltin("tzid_from_tzinfo")
    tzname = z3.Function("tzname_of", E.Ref, E.Ref)

    def ref_tzname(engine, st, args, kw):
        r = tzname(args[0].z)
        st.assume(z3.Or(r == E.NONE, E.cls_of(r) == engine.lat.id("str")))
        return [(st, E.VRef(r))]
    eng.contracts["ref.tzname"] = ref_tzname
    st = E.State()
    paths = eng.run(node, dict(eng.globals, dt=E.VRef(d)), st)
    hasattr_tz = eng.lat.isinstance_z(d, ["datetime", "time"])
    hyps = [z3.Or(hasattr_tz, eng.lat.isinstance_z(d, ["date", "timedelta", "tuple", "int", "str", "NoneType", "float", "list"]))]
    obs = []
    o = compare.ensures(eng, f"{PID}.D.tzid_from_dt.AttributeError_iff_not_datetime_or_time", fn, source.lines_of(node), paths,
                        lambda pa: z3.BoolVal(pa.value.cls == "AttributeError") if pa.kind == "raise" else None, TIMEOUT_MS[tier], kinds=("raise",))
    o2 = compare.ensures(eng, f"{PID}.D.tzid_from_dt.raises_iff", fn, source.lines_of(node), paths,
                         lambda pa: z3.Not(hasattr_tz) if pa.kind == "raise" else hasattr_tz, TIMEOUT_MS[tier], extra_hyps=hyps, kinds=("raise", "ret"))
    o3 = compare.ensures(eng, f"{PID}.D.tzid_from_dt.result_is_None_or_str", fn, source.lines_of(node), paths,
                         lambda pa: z3.Or(eng.box(pa.value, pa.state) == E.NONE, E.cls_of(eng.box(pa.value, pa.state)) == eng.lat.id("str")),
                         TIMEOUT_MS[tier])
    obs += [o, o2, o3]
    return obs


def run_init(eng, cls, arg_name, arg):
    mod, node = source.find(f"prop:{cls}.__init__")
    if node is None:
        return None, None, None, None
    st = E.State()
    addr = st.alloc(E.HeapObj(cls, {}))
    paths = eng.run(node, dict(eng.globals, self=E.VObj(addr), **{arg_name: arg}), st)
    return node, paths, addr, st


def params_arr(pa, addr):
    o = pa.state.heap[addr]
    p = o.fields.get("params")
    if p is None:
        return EMPTY            # a value object without a params attribute is serialised without parameters
    if not isinstance(p, E.VMap):
        return None
    return pa.state.heap[p.addr].arr


def vddd_obligations(rep, tier):
    fn = "prop:vDDDTypes.__init__"
    eng = make_engine()
    d = z3.Const("dt", E.Ref)
    node, paths, addr, st0 = run_init(eng, "vDDDTypes", "dt", E.VRef(d))
    if node is None:
        return [ob_from(f"{PID}.V1.vDDDTypes", fn, None, UNDECIDED, "function not found")]
    rep.functions.add(fn)
    lines = source.lines_of(node)
    T = TIMEOUT_MS[tier]
    obs = [compare.raises_only(eng, f"{PID}.V1.vDDDTypes.raises_only_ValueError", fn, lines, paths, ["ValueError"], T),
           compare.ensures(eng, f"{PID}.V1.vDDDTypes.raises_iff_not_a_date_time_value", fn, lines, paths,
                           lambda pa: z3.Not(allowed_z(eng, d)) if pa.kind == "raise" else allowed_z(eng, d), T, kinds=("raise", "ret"))]

    def view(pa):
        arr = params_arr(pa, addr)
        if arr is None:
            return z3.BoolVal(False)
        return arr == spec_vddd_arr(eng, pa.state, d)
    obs.append(compare.ensures(eng, f"{PID}.V1.vDDDTypes.params_view_is_VALUE_and_TZID_exactly", fn, lines, paths, view, T))

    def stored(pa):
        v = pa.state.heap[addr].fields.get("dt")
        return z3.BoolVal(False) if v is None else eng.box(v, pa.state) == d
    obs.append(compare.ensures(eng, f"{PID}.V1.vDDDTypes.dt_is_the_argument", fn, lines, paths, stored, T))
    # reachability of every case of the specification (vacuity guard)
    ok = Obligation(f"{PID}.V1.vDDDTypes.every_case_reachable", fn, "z3", PROVED, lines=lines)
    L = eng.lat
    cases = {"datetime zoned": z3.And(L.isinstance_z(d, ["datetime"]), spec_zoned(eng, d)),
             "datetime UTC": z3.And(L.isinstance_z(d, ["datetime"]), has_tz(d), tz_of(d) == z3.StringVal("UTC")),
             "date": z3.And(L.isinstance_z(d, ["date"]), z3.Not(L.isinstance_z(d, ["datetime"]))),
             "time": L.isinstance_z(d, ["time"]), "timedelta": L.isinstance_z(d, ["timedelta"]),
             "period": z3.And(L.isinstance_z(d, ["tuple"]), z3.Not(spec_zoned(eng, d))), "zoned period": z3.And(L.isinstance_z(d, ["tuple"]), spec_zoned(eng, d)),
             "other": z3.Not(allowed_z(eng, d))}
    missing = []
    for name, c in cases.items():
        want = "raise" if name == "other" else "ret"
        if not any(pa.kind == want and eng.feasible(pa.state, c) for pa in paths):
            missing.append(name)
    if missing:
        ok.status, ok.detail = UNDECIDED, f"no feasible path for {missing}"
    else:
        ok.detail = f"{len(cases)} cases each have a feasible path"
    obs.append(ok)
    return obs


def install_dt_ops(eng):
    """date arithmetic with the (assumed) CPython failure modes: TypeError for mixed kinds (contracts/dt.py) and, for +,
    OverflowError when the result leaves year 1..9999 (modelled as a free choice)"""
    dtc.register(eng.contracts)
    base_add = eng.contracts["op:Add"]

    def add(engine, st, a, b):
        out = []
        for s, v in base_add(engine, st, a, b):
            out.append((s, v))
            if not isinstance(v, E.VExc):
                s2 = s.fork()
                out.append((s2, E.VExc("OverflowError", "date value out of range")))
        return out
    eng.contracts["op:Add"] = add


def vperiod_obligations(rep, tier):
    fn = "prop:vPeriod.__init__"
    eng = make_engine()
    install_dt_ops(eng)
    a, b = z3.Const("start", E.Ref), z3.Const("end_or_duration", E.Ref)
    in_zone = z3.Function("astimezone", E.Ref, E.Ref, E.Ref)
    tzinfo_attr = lambda r: eng.attr_z(r, "tzinfo")

    def ref_astimezone(engine, st, args, kw):
        """ASSUMED (CPython): x.astimezone(tz) for an aware x is the same instant with tzinfo tz; ValueError/OverflowError at the
        edges of the year range"""
        x, tz = args[0], engine.box(args[1], st)
        r = in_zone(x.z, tz)
        st.assume(E.cls_of(r) == E.cls_of(x.z), r != E.NONE, E.truthy(r), engine.has_attr_z(r, "tzinfo"), tzinfo_attr(r) == tz,
                  dtc.inst(r) == dtc.inst(x.z), dtc.aware(r),
                  # the zone id is a function of the tzinfo object
                  z3.Implies(tz == tzinfo_attr(a), z3.And(has_tz(r) == has_tz(a), tz_of(r) == tz_of(a))))
        s2 = st.fork()
        return [(st, E.VRef(r)), (s2, E.VExc("OverflowError", "date value out of range"))]
    eng.contracts["ref.astimezone"] = ref_astimezone
    node, paths, addr, st0 = run_init(eng, "vPeriod", "per", E.VTuple([E.VRef(a), E.VRef(b)]))
    if node is None:
        return [ob_from(f"{PID}.V3.vPeriod", fn, None, UNDECIDED, "function not found")]
    rep.functions.add(fn)
    lines = source.lines_of(node)
    T = TIMEOUT_MS[tier]
    L = eng.lat
    # the classes the arguments can have: anything (the value classes of the lattice); noattr facts come from the engine
    obs = [compare.raises_only(eng, f"{PID}.V3.vPeriod.raises_only_ValueError", fn, lines, paths, ["ValueError"], T)]

    def view(pa):
        arr = params_arr(pa, addr)
        if arr is None:
            return z3.BoolVal(False)
        base = z3.Store(EMPTY, z3.StringVal("VALUE"), E.OptRef.some(box_lit(eng, pa.state, "PERIOD")))
        zoned = z3.And(has_tz(a), tz_of(a) != z3.StringVal("UTC"))
        return arr == z3.If(zoned, z3.Store(base, z3.StringVal("TZID"), E.OptRef.some(E.box_str(tz_of(a)))), base)
    obs.append(compare.ensures(eng, f"{PID}.V3.vPeriod.params_view_is_VALUE_PERIOD_and_TZID_of_a_zoned_non_UTC_start", fn, lines, paths, view, T))
    obs.append(compare.ensures(eng, f"{PID}.V3.vPeriod.start_is_a_datetime", fn, lines, paths, lambda pa: L.isinstance_z(a, ["datetime"]), T))
    def end_zone(pa):
        o = pa.state.heap[addr]
        end = o.fields.get("end")
        byd = o.fields.get("by_duration")
        if end is None or byd is None:
            return z3.BoolVal(False)
        e = eng.box(end, pa.state)
        explicit = z3.Not(eng.truth(byd, pa.state))
        # an explicit, aware end lies in the zone of the start (it is written under the start's TZID / Z)
        return z3.Implies(z3.And(explicit, eng.has_attr_z(e, "tzinfo"), tzinfo_attr(e) != E.NONE),
                          z3.And(has_tz(e) == has_tz(a), z3.Implies(has_tz(a), tz_of(e) == tz_of(a))))
    obs.append(compare.ensures(eng, f"{PID}.V3.vPeriod.an_explicit_end_lies_in_the_time_zone_of_the_start", fn, lines, paths, end_zone, T))
    ok = Obligation(f"{PID}.V3.vPeriod.reachable", fn, "z3", PROVED, lines=lines)
    kinds = {pa.kind for pa in paths}
    if not {"ret", "raise"} <= kinds:
        ok.status, ok.detail = UNDECIDED, f"path kinds {sorted(kinds)}"
    else:
        ok.detail = f"{sum(1 for p in paths if p.kind == 'ret')} returning and {sum(1 for p in paths if p.kind == 'raise')} raising paths"
    obs.append(ok)
    return obs


# ---------------------------------------------------------------------------------------------------
# V2: vDDDLists.__init__ -- invariant rule for `for dt in dt_list` over an opaque iterable of any length

SeqR = z3.DeclareSort("ElemSeq")
seq_of = z3.Function("elements_of", E.Ref, SeqR)
seq_len = z3.Function("elements_len", SeqR, E.I)
seq_elem = z3.Function("element", SeqR, E.I, E.Ref)
anyz = z3.Function("some_element_zoned_before", SeqR, E.I, E.B)       # recursive ghost: anyz(s, 0) = False; anyz(s, i+1) = anyz(s, i) or zoned(s[i])


def new_vddd(engine, st, args, kw):
    """caller-side contract of vDDDTypes(dt) == the V1 obligations"""
    d = engine.box(args[0], st)
    out = []
    for s, ok in engine.split(st, allowed_z(engine, d)):
        if not ok:
            out.append((s, E.VExc("ValueError", "vDDDTypes")))
            continue
        tag = next(E._counter)
        m = E.MapObj(spec_vddd_arr(engine, s, d), z3.Const(f"prank{tag}", z3.ArraySort(E.S, E.I)), z3.Int(f"pctr{tag}"), cls="Parameters")
        obj = E.HeapObj("vDDDTypes", {"dt": E.VRef(d), "params": E.VMap(s.alloc(m))})
        out.append((s, E.VObj(s.alloc(obj))))
    return out


class ListInvariant:
    """parameters of the rule for one loop: ghost constants of the precondition, the invariant, the item contract"""

    def __init__(self, eng, one_zone=True):
        self.eng = eng
        self.one_zone = one_zone
        self.VT = z3.Const("common_VALUE", E.OptRef)         # the VALUE entry every element's params has (none for date-times)
        self.Z = z3.Const("common_zone", E.S)
        self.obls = []
        self.seq = None

    def tag_opt(self, st, e):
        return z3.Select(spec_vddd_arr(self.eng, st, e), z3.StringVal("VALUE"))

    def pre(self, st, seq, n):
        j = z3.Const("j!pre", E.I)
        e = seq_elem(seq, j)
        hyps = [z3.ForAll([j], z3.Implies(z3.And(0 <= j, j < n), self.tag_opt(st, e) == self.VT), patterns=[seq_elem(seq, j)]),
                z3.Or(self.VT == E.OptRef.none, *[self.VT == E.OptRef.some(box_lit(self.eng, st, t)) for t in ("DATE", "TIME", "PERIOD")]),
                z3.Length(self.Z) > 0]
        if self.one_zone:
            hyps.append(z3.ForAll([j], z3.Implies(z3.And(0 <= j, j < n, spec_zoned(self.eng, e)), spec_tz(self.eng, e) == self.Z), patterns=[seq_elem(seq, j)]))
        return hyps

    # invariant templates for one loop-carried scalar x (the rule tries them in this order; names do not matter)
    def t_value(self, st, seq, i, x):
        c = x == z3.If(z3.And(i > 0, self.VT != E.OptRef.none), E.OptRef.val(self.VT), E.NONE)
        return [c], [("is_the_common_VALUE_once_an_element_was_seen", c)]

    def t_tzid(self, st, seq, i, x):
        eng = self.eng
        bz = E.box_str(self.Z)
        st.assume(E.cls_of(bz) == eng.lat.id("str"), E.str_of(bz) == self.Z, E.truthy(bz) == (z3.Length(self.Z) > 0))
        c = z3.And(z3.Or(x == E.NONE, x == bz) if self.one_zone else z3.BoolVal(True), (x != E.NONE) == anyz(seq, i))
        j = z3.Const("j!inv", E.I)
        body = lambda jj: z3.Implies(z3.And(0 <= jj, jj < i, spec_zoned(eng, seq_elem(seq, jj))), x == E.box_str(spec_tz(eng, seq_elem(seq, jj))))
        sk = E.fresh("j0", E.I)
        return [c, z3.ForAll([j], body(j), patterns=[seq_elem(seq, j)])], \
            [("is_set_iff_some_element_was_zoned", c), ("is_the_TZID_of_every_zoned_element_seen", body(sk))]

    TEMPLATES = (("VALUE", "t_value"), ("TZID", "t_tzid"))

    def hook(self, engine, st, stmt, it):
        if not isinstance(it, E.VRef):
            raise E.Undecided("invariant rule: iterable is not an opaque reference")
        if stmt.orelse or not isinstance(stmt.target, ast.Name):
            raise E.Undecided("invariant rule: for/else or a structured target")
        stored = {n.id for n in ast.walk(stmt) if isinstance(n, ast.Name) and isinstance(n.ctx, ast.Store)}
        carried = sorted(n for n in stored if n != stmt.target.id and n in st.env)
        local_only = sorted(n for n in stored if n != stmt.target.id and n not in st.env)
        accs = {n: v.addr for n, v in st.env.items() if isinstance(v, E.VList) and not st.heap[v.addr].items}
        for n in carried:
            if isinstance(st.env[n], (E.VList, E.VObj, E.VMap)):
                raise E.Undecided(f"invariant rule: the loop rebinds the heap object {n}")
        seq = seq_of(it.z)
        self.seq = seq
        n_ = seq_len(seq)
        st.assume(n_ >= 0, z3.Not(anyz(seq, 0)))
        for h in self.pre(st, seq, n_):
            st.assume(h)
        T = self.timeout

        def body_runs(assign: dict, i):
            """one iteration from an arbitrary state in which the carried variables satisfy their templates"""
            s1 = st.fork()
            s1.assume(0 <= i, i < n_, anyz(seq, i + 1) == z3.Or(anyz(seq, i), spec_zoned(engine, seq_elem(seq, i))))
            s1.env = dict(s1.env)
            for x in carried:
                r = E.fresh(x + "_i", E.Ref)
                s1.env[x] = E.VRef(r)
                if assign.get(x):
                    for h in getattr(self, assign[x])(s1, seq, i, r)[0]:
                        s1.assume(h)
            for x in local_only:
                s1.env.pop(x, None)
            normal, exits = [], []
            for s2, sig in engine.assign(stmt.target, E.VRef(seq_elem(seq, i)), s1):
                if sig is not None:
                    exits.append((s2, sig))
                    continue
                for s3, sig3 in engine.exec_block(stmt.body, s2):
                    if sig3 is None or sig3[0] == "continue":
                        normal.append(s3)
                    elif sig3[0] == "raise":
                        exits.append((s3, sig3))
                    else:
                        raise E.Undecided("break / return inside the loop")
            return normal, exits
        # choose a template per carried variable: initiation and preservation must both be proved (else: no invariant for it)
        assign = {}
        free = [t for _, t in self.TEMPLATES]
        for x in carried:
            for t in list(free):
                x0 = engine.box(st.env[x], st)
                s0 = st.fork()
                _, goals0 = getattr(self, t)(s0, seq, z3.IntVal(0), x0)
                keep = lambda nm: self.one_zone or not nm.startswith("is_the_TZID_of_every")
                ok = all(check_vc(engine.axioms, [*s0.pc, *s0.qpc], g, T)[0] == "proved" for nm, g in goals0 if keep(nm))
                if not ok:
                    continue
                i = E.fresh("i", E.I)
                normal, _ = body_runs({x: t}, i)
                for s3 in normal:
                    _, goals = getattr(self, t)(s3, seq, i + 1, engine.box(s3.env[x], s3))
                    if not all(check_vc(engine.axioms, [*s3.pc, *s3.qpc], g, T)[0] == "proved" for nm, g in goals if keep(nm)):
                        ok = False
                        break
                if ok:
                    assign[x] = t
                    free.remove(t)
                    break
        self.assignment = dict(assign)
        # the recorded obligations: with ALL chosen templates assumed together
        for x, t in assign.items():
            s0 = st.fork()
            for name, g in getattr(self, t)(s0, seq, z3.IntVal(0), engine.box(st.env[x], st))[1]:
                self.obls.append((f"invariant_holds_initially[{dict(self.TEMPLATES_INV)[t]}_variable_{name}]", s0, g))
        i = E.fresh("i", E.I)
        normal, exits = body_runs(assign, i)
        e_i = seq_elem(seq, i)
        grown_addrs = set()
        for s3 in normal:
            grown = [(nm, a) for nm, a in accs.items() if s3.heap[a].items]
            others = [a for a, o in s3.heap.items() if a in st.heap and isinstance(o, E.ListObj) and a not in accs.values()
                      and len(o.items) != len(st.heap[a].items)]
            good = z3.BoolVal(False)
            if len(grown) == 1 and not others:
                items = s3.heap[grown[0][1]].items
                if len(items) == 1 and isinstance(items[0], E.VObj) and s3.heap[items[0].addr].cls == "vDDDTypes":
                    o = s3.heap[items[0].addr]
                    pm = o.fields.get("params")
                    good = z3.And(engine.box(o.fields["dt"], s3) == e_i, s3.heap[pm.addr].arr == spec_vddd_arr(engine, s3, e_i))
                    grown_addrs.add(grown[0][1])
            self.obls.append(("iteration_appends_exactly_vDDDTypes_of_the_element_to_one_list", s3, good))
            for x, t in assign.items():
                for name, g in getattr(self, t)(s3, seq, i + 1, engine.box(s3.env[x], s3))[1]:
                    self.obls.append((f"invariant_preserved[{dict(self.TEMPLATES_INV)[t]}_variable_{name}]", s3, g))
        # after the loop: the invariant at n; carried variables without a template are unconstrained
        st.env = dict(st.env)
        for x in carried:
            r = E.fresh(x + "_n", E.Ref)
            st.env[x] = E.VRef(r)
            if assign.get(x):
                for h in getattr(self, assign[x])(st, seq, n_, r)[0]:
                    st.assume(h)
        for x in local_only + [stmt.target.id]:
            st.env.pop(x, None)
        st.ghost["looped"] = (seq, grown_addrs.pop() if len(grown_addrs) == 1 else None)
        return [(st, None)] + exits

    TEMPLATES_INV = (("t_value", "VALUE"), ("t_tzid", "TZID"))
    timeout = 20000


def vdddlists_obligations(rep, tier, one_zone=True):
    fn = "prop:vDDDLists.__init__"
    eng = make_engine()
    eng.contracts["new:vDDDTypes"] = new_vddd
    rule = ListInvariant(eng, one_zone)
    rule.timeout = TIMEOUT_MS[tier]
    eng.contracts["loop:iter"] = rule.hook
    lst = z3.Const("dt_list", E.Ref)
    eng.attr_classes.setdefault("__iter__", set()).update({"list", "tuple"})
    eng.noattr_classes -= {"list", "tuple", "str"}
    node, paths, addr, st0 = run_init(eng, "vDDDLists", "dt_list", E.VRef(lst))
    if node is None:
        return [ob_from(f"{PID}.V2.vDDDLists", fn, None, UNDECIDED, "function not found")]
    rep.functions.add(fn)
    lines = source.lines_of(node)
    T = TIMEOUT_MS[tier]
    sfx = "" if one_zone else "[without_the_one_zone_precondition]"
    und = [p for p in paths if p.kind == "undecided"]
    if und:
        return [ob_from(f"{PID}.V2.vDDDLists.loop_invariant{sfx}", fn, lines, UNDECIDED, f"outside subset: {und[0].value}")]
    obs = []
    if one_zone:
        obs.append(compare.raises_only(eng, f"{PID}.V2.vDDDLists.raises_only_ValueError", fn, lines, paths, ["ValueError"], T))
    # loop obligations
    groups = {}
    for name, s, g in rule.obls:
        groups.setdefault(name, []).append((s, g))
    if not groups:
        obs.append(ob_from(f"{PID}.V2.vDDDLists.loop_invariant{sfx}", fn, lines, UNDECIDED, "the loop rule generated no obligations"))
    for name, items in groups.items():
        if not one_zone and "is_the_TZID_of_every_zoned_element_seen" not in name:
            continue
        ob = Obligation(f"{PID}.V2.vDDDLists.{name}{sfx}", fn, "z3", PROVED, lines=lines, detail=f"{len(items)} paths")
        for s, g in items:
            status, secs, info = check_vc(eng.axioms, [*s.pc, *s.qpc], g, T)
            compare.fold_status(ob, status, secs, info, name)
            if ob.status == REFUTED:
                break
        obs.append(ob)
    if not one_zone:
        return obs
    # postconditions on the paths that went through the loop / through the one-element branch
    looped = [p for p in paths if p.kind == "ret" and p.state.ghost.get("looped")]
    single = [p for p in paths if p.kind == "ret" and not p.state.ghost.get("looped")]

    def post_view(pa):
        seq, acc_addr = pa.state.ghost["looped"]
        n = seq_len(seq)
        arr = params_arr(pa, addr)
        if arr is None:
            return z3.BoolVal(False)
        base = z3.If(z3.And(n > 0, rule.VT != E.OptRef.none), z3.Store(EMPTY, z3.StringVal("VALUE"), rule.VT), EMPTY)
        full = z3.If(anyz(seq, n), z3.Store(base, z3.StringVal("TZID"), E.OptRef.some(E.box_str(rule.Z))), base)
        return arr == full

    def post_each(pa):
        seq, acc_addr = pa.state.ghost["looped"]
        n = seq_len(seq)
        arr = params_arr(pa, addr)
        j0 = E.fresh("j1", E.I)
        e = seq_elem(seq, j0)
        return z3.Implies(z3.And(0 <= j0, j0 < n, spec_zoned(eng, e)),
                          z3.Select(arr, z3.StringVal("TZID")) == E.OptRef.some(E.box_str(spec_tz(eng, e))))

    def post_dts(pa):
        seq, acc_addr = pa.state.ghost["looped"]
        v = pa.state.heap[addr].fields.get("dts")
        return z3.BoolVal(isinstance(v, E.VList) and v.addr == acc_addr)
    obs.append(compare.ensures(eng, f"{PID}.V2.vDDDLists.params_view_is_common_VALUE_and_common_TZID_exactly", fn, lines, looped, post_view, T))
    obs.append(compare.ensures(eng, f"{PID}.V2.vDDDLists.every_zoned_element_carries_its_own_TZID", fn, lines, looped, post_each, T))
    obs.append(compare.ensures(eng, f"{PID}.V2.vDDDLists.dts_is_the_accumulated_list", fn, lines, looped, post_dts, T))

    def single_view(pa):
        arr = params_arr(pa, addr)
        if arr is None:
            return z3.BoolVal(False)
        return arr == spec_vddd_arr(eng, pa.state, lst)
    obs.append(compare.ensures(eng, f"{PID}.V2.vDDDLists.single_value_params_are_those_of_the_value", fn, lines, single, single_view, T))
    ok = Obligation(f"{PID}.V2.vDDDLists.reachable", fn, "z3", PROVED, lines=lines,
                    detail=f"{len(looped)} paths through the loop, {len(single)} through the one-element branch, {len(rule.obls)} loop "
                           f"obligations; invariant templates chosen: {getattr(rule, 'assignment', {})}")
    if not looped or not single or not rule.obls:
        ok.status = UNDECIDED
    obs.append(ok)
    return obs


# ---------------------------------------------------------------------------------------------------
# E: Component._encode

klass_of = z3.Function("for_property", E.S, E.Ref)                # types_factory.for_property(name)
constructed = z3.Function("constructed", E.Ref, E.Ref, E.Ref)      # klass(value)
params0 = z3.Function("params_before", E.Ref, z3.ArraySort(E.S, E.OptRef))
merge_fold = z3.Function("merge_fold", z3.ArraySort(E.S, E.OptRef), caseless.PairSeq, z3.ArraySort(E.S, E.OptRef))


def all_types_names():
    mod, node = source.find("prop:TypesFactory.__init__")
    if node is None:
        raise E.Undecided("TypesFactory.__init__ not found")
    for n in ast.walk(node):
        if isinstance(n, ast.Assign) and ast.unparse(n.targets[0]) == "self.all_types" and isinstance(n.value, ast.Tuple):
            return [ast.unparse(x) for x in n.value.elts]
    raise E.Undecided("self.all_types = (...) not found")


def classes_with(attr):
    """repo value classes whose __init__ / __new__ / class body defines `attr`"""
    mod = source.module("prop")
    out = set()
    for cn in mod.classes:
        members = mod.class_members(cn)
        for fn in ("__init__", "__new__"):
            node = members.get(fn)
            if node is None:
                continue
            for n in ast.walk(node):
                if isinstance(n, ast.Attribute) and n.attr == attr and isinstance(n.ctx, ast.Store):
                    out.add(cn)
        if isinstance(members.get(attr), ast.FunctionDef):
            out.add(cn)            # a property
    return out


class EncodeEngine:
    def __init__(self):
        eng = make_engine()
        self.eng = eng
        self.typed = all_types_names()
        eng.lat.add("TypesFactory", ["object"])
        eng.globals["types_factory"] = E.VClass("TypesFactory")
        self.merge_obls = []

        def attr_all_types(engine, st, v):
            v = engine.unbox_known(v, st)
            if isinstance(v, E.VClass) and v.name == "TypesFactory":
                return [(st, E.VTuple([E.VClass(n) for n in self.typed]))]
            return None
        eng.contracts["attr:all_types"] = attr_all_types

        def for_property(engine, st, args, kw):
            nm = engine.unbox_known(args[1], st)
            return [(st, E.VRef(klass_of(nm.z)))]
        eng.contracts["TypesFactory.for_property"] = comp.exact_arity(for_property, 2, "types_factory.for_property(name)")

        def call_ref(engine, st, args, kw):
            k, val = args[0], args[1]
            r = constructed(k.z, engine.box(val, st))
            s2 = st.fork()
            st.assume(engine.lat.isinstance_z(r, self.typed), r != E.NONE)
            return [(st, E.VRef(r)), (s2, E.VExc("Exception", "whatever the value class raises"))]
        eng.contracts["call:ref"] = call_ref
        self.with_dt = classes_with("dt")
        self.with_params = classes_with("params")
        eng.attr_classes.setdefault("dt", set()).update(self.with_dt)
        eng.attr_classes.setdefault("params", set()).update(self.with_params)
        eng.noattr_classes |= {"datetime"}

        def attr_params(engine, st, v):
            v = engine.unbox_known(v, st)
            if not isinstance(v, E.VRef):
                return None
            engine.attr_facts(v.z, "params", st)
            out = []
            for s, has in engine.split(st, self.has_params(s_ := st, v.z)):
                if has:
                    out.append((s, E.VMap(self.params_addr(s, v.z))))
                else:
                    out.append((s, E.VExc("AttributeError", "params")))
            return out
        eng.contracts["attr:params"] = attr_params

        def set_attr(engine, st, o, name, val):
            o = engine.unbox_known(o, st)
            if name == "params" and isinstance(o, E.VRef) and isinstance(val, E.VMap):
                st.ghost = dict(st.ghost)
                st.ghost[("params", str(o.z))] = val.addr
                st.ghost[("has_params", str(o.z))] = True
                return [(st, None)]
            raise E.Undecided(f"attribute store {name}")
        eng.contracts["op:setattr"] = set_attr
        eng.contracts["ref.items"] = caseless.ref_items
        eng.contracts["loop:iter"] = self.merge_loop
        base_hasattr = E.BUILTINS["hasattr"]

        def b_hasattr(engine, st, args, kw):
            name = z3.simplify(args[1].z).as_string()
            v = engine.unbox_known(args[0], st)
            if name == "params" and isinstance(v, E.VRef):
                engine.attr_facts(v.z, "params", st)
                return [(st, E.VBool(self.has_params(st, v.z)))]
            return base_hasattr(engine, st, args, kw)
        self.hasattr = b_hasattr

    def has_params(self, st, r):
        if st.ghost.get(("has_params", str(r))):
            return z3.BoolVal(True)
        return self.eng.has_attr_z(r, "params")

    def params_addr(self, st, r):
        key = ("params", str(r))
        if key not in st.ghost:
            tag = next(E._counter)
            m = E.MapObj(params0(r), z3.Const(f"prank{tag}", z3.ArraySort(E.S, E.I)), z3.Int(f"pctr{tag}"), cls="Parameters")
            st.ghost = dict(st.ghost)
            st.ghost[key] = st.alloc(m)
            st.assume(E.map_wf(m))
        return st.ghost[key]

    def merge_loop(self, engine, st, stmt, it):
        """`for key, item in parameters.items()`: the body is verified once from an arbitrary well-formed view; it must be one
        merge step  view[K(key)] := item  (item is None: the entry is removed);  the loop is the fold of that step."""
        if not isinstance(it, caseless.VPairSeq):
            raise E.Undecided("loop over something other than mapping.items()")
        obj = st.env.get("obj")
        if not isinstance(obj, E.VRef):
            raise E.Undecided("merge loop: obj is not an opaque value")
        a0 = self.params_addr(st, obj.z)
        s0 = st.fork()
        m0 = s0.heap[a0]
        tag = next(E._counter)
        m0.arr, m0.rank, m0.ctr = z3.Const(f"arr_any{tag}", z3.ArraySort(E.S, E.OptRef)), z3.Const(f"rank_any{tag}", z3.ArraySort(E.S, E.I)), z3.Int(f"ctr_any{tag}")
        s0.assume(E.map_wf(m0))
        before = m0.arr
        kz, vz = z3.Const(f"mk{tag}", E.S), z3.Const(f"mv{tag}", E.Ref)
        s0.ghost = dict(s0.ghost)
        s0.ghost["raw_keys"] = {str(kz)}
        n = 0
        for s1, sig in engine.assign(stmt.target, E.VTuple([E.VStr(kz), E.VRef(vz)]), s0):
            if sig is not None:
                self.merge_obls.append(("merge_step.body_shape", s1, z3.BoolVal(False)))
                continue
            for s2, sig2 in engine.exec_block(stmt.body, s1):
                n += 1
                if sig2 is not None:
                    self.merge_obls.append(("merge_step.body_exits_normally", s2, z3.BoolVal(False)))
                    continue
                K = E.up(E.tu(kz))
                want = z3.If(vz == E.NONE, z3.Store(before, K, E.OptRef.none), z3.Store(before, K, E.OptRef.some(vz)))
                self.merge_obls.append(("merge_step.sets_or_removes_exactly_the_upper_cased_key", s2, s2.heap[a0].arr == want))
                self.merge_obls.append(("merge_step.view_stays_well_formed", s2, z3.And(*E.map_wf_at(s2.heap[a0], [E.fresh("kwf", E.S)]))))
        if n == 0:
            self.merge_obls.append(("merge_step.body_shape", s0, z3.BoolVal(False)))
        cur = st.heap[a0]
        tag = next(E._counter)
        new = E.MapObj(merge_fold(cur.arr, it.z), z3.Const(f"rank_after{tag}", z3.ArraySort(E.S, E.I)), z3.Int(f"ctr_after{tag}"), cur.cls, cur.fields, cur.ref)
        st.heap[a0] = new
        st.assume(E.map_wf(new))
        st.ghost = dict(st.ghost)
        st.ghost["merged"] = (cur.arr, it.z)
        return [(st, None)]


def encode_obligations(rep, tier):
    fn = "cal:Component._encode"
    mod, node = source.find(fn)
    if node is None:
        return [ob_from(f"{PID}.E._encode", fn, None, UNDECIDED, "function not found")]
    T = TIMEOUT_MS[tier]
    lines = source.lines_of(node)
    obs = []
    try:
        X = EncodeEngine()
    except E.Undecided as u:
        return [ob_from(f"{PID}.E._encode", fn, lines, UNDECIDED, f"outside subset: {u}")]
    eng = X.eng
    rep.functions.add(fn)
    # class table fact used by the TRIGGER clause: a value class with .dt has .params
    miss = sorted(c for c in X.with_dt if c not in X.with_params and c in X.typed)
    obs.append(ob_from(f"{PID}.E.value_classes_with_dt_have_params", "prop:(value classes)", None, PROVED if not miss and X.with_dt else REFUTED,
                       f"classes defining dt: {sorted(X.with_dt)}; all define params" if not miss else f"{miss} define dt but not params", backend="fin"))
    name, value, parameters = z3.Const("name", E.S), z3.Const("value", E.Ref), z3.Const("parameters", E.Ref)
    saved = E.BUILTINS["hasattr"]
    E.BUILTINS["hasattr"] = X.hasattr
    try:
        paths = {}
        for label, enc in (("encode_on", E.VInt(z3.IntVal(1))), ("encode_off", E.VInt(z3.IntVal(0)))):
            st = E.State()
            st.assume(value != E.NONE)
            paths[label] = eng.run(node, dict(eng.globals, name=E.VStr(name), value=E.VRef(value), parameters=E.VRef(parameters), encode=enc), st)
    finally:
        E.BUILTINS["hasattr"] = saved
    on, off = paths["encode_on"], paths["encode_off"]
    typed = eng.lat.isinstance_z(value, X.typed)

    def result(pa):
        return eng.box(pa.value, pa.state)
    obs.append(compare.ensures(eng, f"{PID}.E._encode.without_encode_the_value_is_returned_unchanged", fn, lines, off,
                               lambda pa: z3.And(result(pa) == value, z3.BoolVal(not any(k[0] == "params" for k in pa.state.ghost if isinstance(k, tuple)))), T))
    obs.append(compare.ensures(eng, f"{PID}.E._encode.typed_values_are_kept_others_get_the_class_of_the_property_name", fn, lines, on,
                               lambda pa: result(pa) == z3.If(typed, value, constructed(klass_of(name), value)), T))

    def is_trigger_dt(pa):
        obj = result(pa)
        return z3.And(E.up(name) == z3.StringVal("TRIGGER"), eng.has_attr_z(obj, "dt"), eng.lat.isinstance_z(eng.attr_z(obj, "dt"), ["datetime"]))

    def params_clause(pa):
        obj = result(pa)
        key = ("params", str(obj))
        tagged = z3.Store(params0(obj), z3.StringVal("VALUE"), E.OptRef.some(box_lit(eng, pa.state, "DATE-TIME")))
        before_merge = z3.If(is_trigger_dt(pa), tagged, params0(obj))
        merged = pa.state.ghost.get("merged")
        if key not in pa.state.ghost:
            # params never touched on this path
            return z3.And(z3.Not(is_trigger_dt(pa)), z3.Not(E.truthy(parameters)))
        arr = pa.state.heap[pa.state.ghost[key]].arr
        if merged is None:
            return z3.And(arr == before_merge, z3.Not(E.truthy(parameters)))
        had = pa.state.ghost.get(("has_params", str(obj)))
        start = EMPTY if had else before_merge
        return z3.And(arr == merge_fold(start, caseless.items_of(parameters)), E.truthy(parameters))
    obs.append(compare.ensures(eng, f"{PID}.E._encode.params_are_TRIGGER_tag_then_merge_of_the_given_parameters", fn, lines, on, params_clause, T))
    obs.append(compare.raises_only(eng, f"{PID}.E._encode.raises_only_what_the_value_class_raises", fn, lines, on + off, ["Exception"], T))
    groups = {}
    for nm, s, g in X.merge_obls:
        groups.setdefault(nm, []).append((s, g))
    for nm, items in groups.items():
        ob = Obligation(f"{PID}.E._encode.{nm}", fn, "z3", PROVED, lines=lines, detail=f"{len(items)} paths")
        for s, g in items:
            status, secs, info = check_vc(eng.axioms, [*s.pc, *s.qpc], g, T)
            compare.fold_status(ob, status, secs, info, nm)
            if ob.status == REFUTED:
                break
        obs.append(ob)
    ok = Obligation(f"{PID}.E._encode.reachable", fn, "z3", PROVED, lines=lines,
                    detail=f"{len(on)} + {len(off)} paths, {len(X.merge_obls)} merge-step obligations")
    if not X.merge_obls or not any(p.kind == "ret" for p in on) or any(p.kind == "undecided" for p in on + off):
        ok.status = UNDECIDED
        und = [p.value for p in on + off if p.kind == "undecided"]
        ok.detail += f"; undecided: {und[:1]}"
    obs.append(ok)
    return obs


# ---------------------------------------------------------------------------------------------------
# A: Component.add -- UTC forcing and accumulation order, lists as z3 sequences of references

RefSeq = z3.SeqSort(E.Ref)
items0 = z3.Function("list_items", E.Ref, RefSeq)                 # contents of a list object in the pre-state
enc_fn = z3.Function("encoded", E.S, E.Ref, E.Ref, E.Ref)          # _encode(name, value, parameters) (contract E)
enc_map = z3.Function("encoded_each", E.S, RefSeq, E.Ref, RefSeq)  # [_encode(name, v, parameters) for v in values]
utc_of = z3.Function("localize_utc", E.Ref, E.Ref)
lo = z3.Function("lo", E.S, E.S)
COMP_SHAPE = "[self._encode(name, v, parameters, encode) for v in value]"


class AddEngine(E.Engine):
    """the base executor plus: list objects behind references as z3 sequences (append / + / display), the one
    comprehension shape of `add` as a map over the sequence, `_encode` and `tzp.localize_utc` through their contracts"""

    def items_now(self, st, v):
        v = self.unbox_known(v, st)
        if isinstance(v, E.VList):
            seq = z3.Empty(RefSeq)
            for x in st.heap[v.addr].items:
                seq = z3.Concat(seq, z3.Unit(self.box(x, st)))
            return z3.simplify(seq)
        if isinstance(v, E.VRef):
            key = ("items", str(v.z))
            if key in st.ghost:
                return st.ghost[key][1]
            lr = st.ghost.get(("listref", str(v.z)))
            if lr is not None:
                return self.items_now(st, E.VList(lr))
            return items0(v.z)
        raise E.Undecided("contents of a non-list")

    def new_list(self, st, seq):
        r = st.new_ref(self.lat.id("list"), "list")
        st.assume(E.cls_of(r) == self.lat.id("list"), r != E.NONE)
        st.ghost = dict(st.ghost)
        st.ghost[("items", str(r))] = (r, seq)
        return E.VRef(r)

    def ev_ListComp(self, e, st):
        if ast.unparse(e) != COMP_SHAPE:
            raise E.Undecided(f"comprehension other than {COMP_SHAPE}")
        value, name, parameters = st.env["value"], st.env["name"], st.env["parameters"]
        s2 = st.fork()
        seq = enc_map(name.z, self.items_now(st, value), self.box(parameters, st))
        st.assume(z3.Length(seq) == z3.Length(self.items_now(st, value)))
        return [(st, self.new_list(st, seq)), (s2, E.VExc("Exception", "whatever the value class raises"))]

    def ev_BinOp(self, e, st):
        if isinstance(e.op, ast.Add):
            out = []
            for s, vals in self.ev_seq([e.left, e.right], st):
                if isinstance(vals, E.VExc):
                    out.append((s, vals))
                    continue
                a, b = vals
                la = isinstance(a, E.VList) or (isinstance(a, E.VRef) and self.valid(s, self.lat.isinstance_z(a.z, ["list"])))
                lb = isinstance(b, E.VList) or (isinstance(b, E.VRef) and self.valid(s, self.lat.isinstance_z(b.z, ["list"])))
                if la and lb:
                    out.append((s, self.new_list(s, z3.Concat(self.items_now(s, a), self.items_now(s, b)))))
                else:
                    raise E.Undecided("+ on operands that are not both lists")
            return out
        return super().ev_BinOp(e, st)


def ref_append(engine, st, args, kw):
    r, x = args[0], args[1]
    out = []
    for s, ok in engine.split(st, engine.lat.isinstance_z(r.z, ["list"])):
        if not ok:
            out.append((s, E.VExc("AttributeError", "append")))
            continue
        s.ghost = dict(s.ghost)
        s.ghost[("items", str(r.z))] = (r.z, z3.Concat(engine.items_now(s, r), z3.Unit(engine.box(x, s))))
        out.append((s, E.VNone()))
    return out


def add_obligations(rep, tier):
    fn = "cal:Component.add"
    mod, node = source.find(fn)
    if node is None:
        return [ob_from(f"{PID}.A.add", fn, None, UNDECIDED, "function not found")]
    T = TIMEOUT_MS[tier]
    lines = source.lines_of(node)
    lat = E.Lattice()
    for m in ("caselessdict", "parser", "prop", "cal"):
        lat.load_module(m)
    eng = AddEngine(lat, {})
    caseless.register(eng.contracts)
    eng.contracts["ref.append"] = ref_append
    lat.add("TZP", ["object"])
    eng.globals["tzp"] = E.VClass("TZP")
    eng.contracts["TZP.localize_utc"] = comp.exact_arity(lambda e, s, a, k: [(s, E.VRef(utc_of(e.box(a[1], s))))], 2, "tzp.localize_utc(dt)")

    def c_encode(engine, st, args, kw):
        nm, v, params = args[1], args[2], args[3]
        s2 = st.fork()
        r = enc_fn(engine.unbox_known(nm, st).z, engine.box(v, st), engine.box(params, st))
        st.assume(r != E.NONE, z3.Not(engine.lat.isinstance_z(r, ["list"])))
        return [(st, E.VRef(r)), (s2, E.VExc("Exception", "whatever the value class raises"))]
    eng.contracts["Component._encode"] = c_encode
    load_string_constants(eng)
    rep.functions.add(fn)
    name, value, parameters = z3.Const("name", E.S), z3.Const("value", E.Ref), z3.Const("parameters", E.Ref)
    st = E.State()
    m = E.MapObj.fresh("self", cls="Component")
    addr = st.alloc(m)
    st.assume(E.map_wf(m), value != E.NONE)
    K = E.up(E.tu(name))
    old_arr = m.arr
    old_opt = z3.Select(old_arr, K)
    old = E.OptRef.val(old_opt)
    st.ghost["raw_keys"] = {str(name)}
    paths = eng.run(node, dict(eng.globals, self=E.VMap(addr), name=E.VStr(name), value=E.VRef(value), parameters=E.VRef(parameters),
                               encode=E.VInt(z3.IntVal(1))), st)
    is_list = lambda r: lat.isinstance_z(r, ["list"])
    old_view = z3.If(old_opt == E.OptRef.none, z3.Empty(RefSeq), z3.If(is_list(old), items0(old), z3.Unit(old)))
    forced = z3.And(lat.isinstance_z(value, ["datetime"]),
                    z3.Or(*[lo(name) == z3.StringVal(x) for x in ("dtstamp", "created", "last-modified")]))
    v_eff = z3.If(forced, utc_of(value), value)
    listy = z3.And(is_list(v_eff), z3.And(*[lo(name) != z3.StringVal(x) for x in ("rdate", "exdate", "categories")]))
    new_view = z3.If(listy, enc_map(name, items0(v_eff), parameters), z3.Unit(enc_fn(name, v_eff, parameters)))
    obs = []

    def final_view(pa):
        mm = pa.state.heap[addr]
        f = z3.Select(mm.arr, K)
        fr = E.OptRef.val(f)
        # the stored object: a list (ghost contents) or a single value
        cands = [v for k, v in pa.state.ghost.items() if isinstance(k, tuple) and k[0] == "items"]
        lrefs = [(k[1], a) for k, a in pa.state.ghost.items() if isinstance(k, tuple) and k[0] == "listref"]
        view = z3.If(is_list(fr), items0(fr), z3.Unit(fr))
        for nm, a in lrefs:
            r = z3.Const(nm, E.Ref)
            view = z3.If(fr == r, eng.items_now(pa.state, E.VList(a)), view)
        for r, seq in cands:
            view = z3.If(fr == r, seq, view)
        return f, view
    hyps = [z3.Implies(forced, z3.And(lat.isinstance_z(utc_of(value), ["datetime"]), utc_of(value) != E.NONE))]

    def clause_view(pa):
        f, view = final_view(pa)
        return z3.And(f != E.OptRef.none, view == z3.Concat(old_view, new_view))

    def clause_frame(pa):
        mm = pa.state.heap[addr]
        k2 = E.fresh("other_key", E.S)
        return z3.Implies(k2 != K, z3.Select(mm.arr, k2) == z3.Select(old_arr, k2))
    obs.append(compare.ensures(eng, f"{PID}.A.add.stored_values_are_the_old_ones_followed_by_the_new_ones_in_order", fn, lines, paths, clause_view, T, extra_hyps=hyps))
    obs.append(compare.ensures(eng, f"{PID}.A.add.no_other_property_changes", fn, lines, paths, clause_frame, T, extra_hyps=hyps))
    old_rank = m.rank

    def clause_rank(pa):
        # insertion order: a name that is already present keeps its place, and so does every other name (C10: with sorting off the
        # properties are written in first-insertion order)
        mm = pa.state.heap[addr]
        k2 = E.fresh("any_key", E.S)
        present_before = z3.Select(old_arr, k2) != E.OptRef.none
        return z3.Implies(present_before, z3.Select(mm.rank, k2) == z3.Select(old_rank, k2))
    obs.append(compare.ensures(eng, f"{PID}.A.add.names_keep_their_first_insertion_position", fn, lines, paths, clause_rank, T, extra_hyps=hyps))
    obs.append(compare.raises_only(eng, f"{PID}.A.add.raises_only_what_the_value_class_raises", fn, lines, paths, ["Exception"], T, extra_hyps=hyps))
    ok = Obligation(f"{PID}.A.add.reachable", fn, "z3", PROVED, lines=lines)
    rets = [p for p in paths if p.kind == "ret"]
    und = [p.value for p in paths if p.kind == "undecided"]
    cases = {"absent": old_opt == E.OptRef.none, "old single, new single": z3.And(old_opt != E.OptRef.none, z3.Not(is_list(old)), z3.Not(listy)),
             "old single, new list": z3.And(old_opt != E.OptRef.none, z3.Not(is_list(old)), listy),
             "old list, new single": z3.And(old_opt != E.OptRef.none, is_list(old), z3.Not(listy)),
             "old list, new list": z3.And(old_opt != E.OptRef.none, is_list(old), listy), "forced to UTC": forced}
    missing = [c for c, f in cases.items() if not any(eng.feasible(p.state, f) for p in rets)]
    if und or missing or not rets:
        ok.status, ok.detail = UNDECIDED, f"undecided: {und[:1]}; cases without a path: {missing}"
    else:
        ok.detail = f"{len(rets)} returning paths cover {len(cases)} cases"
    obs.append(ok)
    return obs


# ---------------------------------------------------------------------------------------------------
# T: the tables

def read_tables():
    """types_map (name -> type name) and the registrations self['type name'] = Class, from the AST of TypesFactory"""
    mod = source.module("prop")
    members = mod.class_members("TypesFactory")
    tm = members.get("types_map")
    init = members.get("__init__")
    if tm is None or init is None:
        raise E.Undecided("TypesFactory.types_map / __init__ not found")
    call = tm.value if isinstance(tm, ast.Assign) else tm
    if not (isinstance(call, ast.Call) and ast.unparse(call.func) == "CaselessDict" and len(call.args) == 1 and isinstance(call.args[0], ast.Dict)):
        raise E.Undecided("types_map is not CaselessDict({...})")
    types_map = {}
    for k, v in zip(call.args[0].keys, call.args[0].values):
        types_map[ast.literal_eval(k).upper()] = ast.literal_eval(v)
    reg = {}
    for n in ast.walk(init):
        if isinstance(n, ast.Assign) and isinstance(n.targets[0], ast.Subscript) and ast.unparse(n.targets[0].value) == "self" \
                and isinstance(n.value, ast.Name):
            reg[ast.literal_eval(n.targets[0].slice).upper()] = n.value.id
    fp = members.get("for_property")
    fp_ok = fp is not None and [a.arg for a in fp.args.args] == ["self", "name"] and not fp.args.kwonlyargs and fp.args.vararg is None \
        and fp.args.kwarg is None and returned_expression(fp) == "self[self.types_map.get(name, 'text')]"
    return types_map, reg, fp_ok


def returned_expression(fn):
    """the expression a straight-line function returns, single-assignment locals substituted (None when it is not straight-line)"""
    body = source.strip_docstring(fn.body)
    env = {}

    class Sub(ast.NodeTransformer):
        def visit_Name(self, n):
            return env.get(n.id, n) if isinstance(n.ctx, ast.Load) else n
    for st in body[:-1]:
        if not (isinstance(st, ast.Assign) and len(st.targets) == 1 and isinstance(st.targets[0], ast.Name) and st.targets[0].id not in env
                and st.targets[0].id not in {a.arg for a in fn.args.args}):
            return None
        env[st.targets[0].id] = Sub().visit(ast.parse(ast.unparse(st.value), mode="eval").body)
    if not body or not isinstance(body[-1], ast.Return) or body[-1].value is None:
        return None
    return ast.unparse(Sub().visit(ast.parse(ast.unparse(body[-1].value), mode="eval").body))


def table_obligations(rep, tier):
    fn = "prop:TypesFactory"
    obs = []
    spec = json.load(open(os.path.join(HERE, "..", "spec", "rfc5545_properties.json")))
    try:
        types_map, reg, fp_ok = read_tables()
    except E.Undecided as u:
        return [ob_from(f"{PID}.T.property_types", fn, None, UNDECIDED, str(u), backend="fin")]
    rep.functions.add("prop:TypesFactory.types_map")
    rep.functions.add("prop:TypesFactory.for_property")
    bad = []
    for name, row in spec["properties"].items():
        tname = types_map.get(name, "text")
        cls = reg.get(tname.upper())
        if cls is None:
            bad.append(f"{name}: type name {tname!r} has no registered class")
        elif cls not in spec["decoders"][row["default"]]:
            bad.append(f"{name}: decoded by {cls} ({tname!r}) but the RFC's value type is {row['default']}")
        if row.get("list") and row["default"] in ("DATE-TIME",) and cls != "vDDDLists":
            bad.append(f"{name}: a list of {row['default']} needs vDDDLists, found {cls}")
    ob = ob_from(f"{PID}.T.every_RFC_5545_property_name_is_decoded_with_its_value_type", fn, None,
                 PROVED if not bad and fp_ok else (REFUTED if bad else UNDECIDED),
                 f"{len(spec['properties'])} property names checked against spec/rfc5545_properties.json; for_property = self[types_map.get(name, 'text')]"
                 if not bad and fp_ok else "; ".join(bad[:4]) or "for_property is no longer exactly `return self[self.types_map.get(name, 'text')]`: outside the statement shape (the stand-in decides)", backend="fin")
    ob.witness_names = bad
    obs.append(ob)
    # alternatives: the constructor contracts (V1, V2, V3, E) give the VALUE parameter for every permitted non-default type
    tagged = {"DATE": "DATE", "TIME": "TIME", "PERIOD": "PERIOD"}        # V1 / V2 / V3: tag by Python kind
    missing = []
    n = 0
    for name, row in spec["properties"].items():
        cls = reg.get(types_map.get(name, "text").upper())
        for alt in row.get("alternatives", []):
            n += 1
            if alt in ("BINARY",):
                continue             # ATTACH;VALUE=BINARY is supplied by the caller with ENCODING (not a date/time kind)
            if cls in ("vDDDTypes", "vDDDLists"):
                kind = spec["python_kind_of_value_type"].get(alt)
                if alt in tagged and kind:
                    # lemma over the V1 contract (V2 hands the common tag of the elements on): the params view of a value of
                    # that Python kind has VALUE == alt
                    eng = make_engine()
                    st = E.State()
                    d = z3.Const("d", E.Ref)
                    st.assume(E.cls_of(d) == eng.lat.id(kind))
                    goal = z3.Select(spec_vddd_arr(eng, st, d), z3.StringVal("VALUE")) == E.OptRef.some(box_lit(eng, st, alt))
                    if check_vc(eng.axioms, list(st.pc), goal, TIMEOUT_MS[tier])[0] == "proved":
                        continue
                    missing.append(f"{name} with a {alt} value: the V1 contract does not give VALUE={alt}")
                    continue
                if alt == "DATE-TIME" and name == "TRIGGER":
                    continue          # E: _encode tags a date-time TRIGGER
            missing.append(f"{name} with a {alt} value")
    obs.append(ob_from(f"{PID}.T.every_permitted_alternative_value_type_is_announced_by_VALUE", fn, None, PROVED if not missing else REFUTED,
                       f"{n} (name, alternative type) pairs are covered by the tagging contracts V1 / V2 / V3 / E" if not missing else
                       f"no tagging contract covers: {missing[:5]}", backend="fin"))
    return obs


# ---------------------------------------------------------------------------------------------------

def crosscheck_parameters_constructor():
    """the assumed contract of Parameters(mapping) / update(mapping) against CPython"""
    from icalendar.parser import Parameters
    t0 = time.time()
    bad = []
    cases = [{}, {"value": "DATE"}, {"TZID": "x", "value": "y"}, {"a": "1", "A": "2"}, {"Value": "PERIOD"}]
    for c in cases:
        p = Parameters(c)
        exp = {}
        for k, v in c.items():
            exp[k.upper()] = v
        if dict(p) != exp:
            bad.append(c)
        q = Parameters()
        q.update(c)
        if dict(q) != exp:
            bad.append(("update", c))
    return {"name": "Parameters(mapping) / update(mapping) = fold of __setitem__ (assumed contract) vs CPython", "cases": 2 * len(cases),
            "ok": not bad, "failures": bad[:3], "seconds": round(time.time() - t0, 3)}


def run(rep: common.Report):
    findings = common.findings_for(PID)
    tier = rep.tier
    rep.trust("engine: vc/pyvc (symbolic executor over the real AST, own code) + z3; loop rule with invariant templates for "
              "vDDDLists.__init__ (initiation / preservation VCs generated from the real body; induction is the meta-rule)",
              "assumed: Parameters(mapping) and CaselessDict.update(mapping) are the fold of __setitem__ over the mapping (C17 proves "
              "update; the constructor is cross-checked natively on every run)",
              "assumed: tzid_from_tzinfo returns None or a str (external lookups); a time zone id is never the empty string",
              "assumed: date arithmetic raises only TypeError / OverflowError (contracts/dt.py)",
              "spec/rfc5545_properties.json is a hand transcription of RFC 5545 3.7/3.8 value types",
              "lists behind references are modelled as z3 sequences; the comprehension in Component.add is recognised by its exact text")
    rep.assume("value objects are not shared between properties (aliasing of list objects stored under two names is outside the model)",
               "class membership is the class lattice read from the repository sources; subclasses defined by users are outside it")
    groups = [("T", table_obligations), ("D", tzid_from_dt_obligations), ("V1", vddd_obligations), ("V2", vdddlists_obligations),
              ("V3", vperiod_obligations), ("E", encode_obligations), ("A", add_obligations), ("S", setter_obligations)]
    for tag, fnc in groups:
        try:
            for ob in fnc(rep, tier):
                rep.add(ob)
        except E.Undecided as u:
            rep.add(Obligation(f"{PID}.{tag}", "cal/prop", "z3", UNDECIDED, detail=f"outside subset: {u}"))
        except Exception as e:  # noqa
            import traceback
            traceback.print_exc()
            rep.add(Obligation(f"{PID}.{tag}", "cal/prop", "z3", ERROR, detail=f"checker crashed: {e!r}"))
    # the clause the code does not satisfy in general (known finding C02-F1): without the one-zone precondition
    try:
        for ob in vdddlists_obligations(rep, tier, one_zone=False):
            if ob.status == REFUTED:
                f = [x for x in findings if x.get("obligation") == "C02.V2.vDDDLists.every_zoned_element_carries_its_own_TZID[any_zones]"]
                ob.oid = "C02.V2.vDDDLists.every_zoned_element_carries_its_own_TZID[any_zones]"
                if f:
                    from props import C02_bnd
                    import icalendar
                    ks = []
                    C02_bnd.check_lists("zoneinfo", findings, ks)
                    if ks:
                        ob.finding = f[0]["id"]
                        ob.witness = {"values": f[0]["witness"]}
                        ob.replay = {"confirmed": True, "native": ks[0]}
                        rep.known_seen.append(ks[0])
                    else:
                        ob.status = UNDECIDED
                        ob.detail += " -- the listed finding no longer reproduces natively"
                rep.add(ob)
    except E.Undecided:
        pass
    rep.crosschecks.append(crosscheck_parameters_constructor())
    if not rep.crosschecks[-1]["ok"]:
        rep.error("the assumed contract of Parameters(mapping) disagrees with CPython: " + repr(rep.crosschecks[-1]["failures"]))
    from props import C02_bnd
    # shape refutations count only after the same contract fails on the real objects
    for ob in rep.obligations:
        if ob.status == REFUTED and not ob.finding and ob.witness is None:
            w = C02_bnd.search_for(ob.oid)
            if w:
                ob.witness, ob.replay = w[0], {"confirmed": True, "native": w[1]}
            else:
                ob.status = UNDECIDED
                ob.detail += " -- candidate not confirmed on the real objects (catalogue search)"
    b = Bounded("C02.bnd.api_grid", "cal:Component.add / to_ical / from_ical / decoded + value constructors (real)", C02_bnd.BOUND[tier])
    t0 = time.time()
    try:
        C02_bnd.run(b, tier, rep.seed, findings, rep.known_seen)
    except Exception as e:  # noqa
        import traceback
        traceback.print_exc()
        b.error = repr(e)
    b.seconds = time.time() - t0
    rep.bounded.append(b)
    rep.explanation = __doc__ + "\nLevel 'other': the tagging, encoding and accumulation contracts are proved for all inputs; that the " \
        "serialiser and parser carry them through to equal decoded values composes C03/C05/C06/C08 with this and is exercised by the grid."


def replay(payload: dict) -> int:
    from props import C02_bnd
    w = payload.get("witness") or {}
    msg = C02_bnd.replay_witness(w) if w else None
    print("replay:", msg or "no violation on the current tree")
    return 1 if msg else 0


# ---------------------------------------------------------------------------------------------------
# S: the property setters store a fresh value whose parameters derive from the NEW value only

def setter_obligations(rep, tier):
    from props import C16
    from contracts import comp
    fn = "cal:create_single_property.p_set"
    T = TIMEOUT_MS[tier]
    obs = []
    for cls, name in (("Event", "DTSTART"), ("Event", "DTEND"), ("Todo", "DUE"), ("Alarm", "TRIGGER")):
        oid = f"{PID}.S.{cls}.{name}.setter_stores_a_value_with_exactly_the_parameters_of_the_new_value"
        try:
            eng, classes = C16.make_engine()
            eng.contracts["new:vDDDTypes"] = new_vddd
            eng.contracts["new:Parameters"] = new_parameters
            eng.contracts["CaselessDict.update"] = map_update
            d = classes.member(eng.lat, cls, name)
            if d is None or d.kind != "single":
                obs.append(ob_from(oid, fn, None, UNDECIDED, "descriptor is no longer a create_single_property instantiation"))
                continue
            env, nodes = C16.closure_env(eng, classes, d)
            node = nodes["p_set"]
            if node is None:
                obs.append(ob_from(oid, fn, None, UNDECIDED, "closure not found"))
                continue
            value = z3.Const("value", E.Ref)

            def enc_trigger(engine, st, args, kw):
                obj = args[2]
                if isinstance(obj, E.VObj):
                    o = st.heap[obj.addr]
                    dv = engine.box(o.fields["dt"], st)
                    pm = st.heap[o.fields["params"].addr]
                    pm.arr = z3.If(engine.lat.isinstance_z(dv, ["datetime"]),
                                   z3.Store(pm.arr, z3.StringVal("VALUE"), E.OptRef.some(box_lit(engine, st, "DATE-TIME"))), pm.arr)
                    return [(st, obj)]
                raise E.Undecided("_encode('TRIGGER', <opaque>)")
            eng.contracts["encode:TRIGGER"] = enc_trigger
            st, addr = C16.comp_state(eng, cls)
            e = dict(env)
            e["self"] = E.VMap(addr)
            e["value"] = E.VRef(value)
            st.assume(value != E.NONE)
            paths = eng.run(node, e, st)
            rep.functions.add(fn)
            K = z3.StringVal(name)

            def clause(pa, K=K, addr=addr, eng=eng, value=value, name=name):
                m = pa.state.heap[addr]
                stored = E.OptRef.val(z3.Select(m.arr, K))
                # find the heap object behind the stored reference
                for a, o in pa.state.heap.items():
                    if isinstance(o, E.HeapObj) and o.cls == "vDDDTypes" and o.ref is not None:
                        pm = pa.state.heap[o.fields["params"].addr]
                        want = spec_vddd_arr(eng, pa.state, value)
                        if name == "TRIGGER":
                            want = z3.If(eng.lat.isinstance_z(value, ["datetime"]),
                                         z3.Store(want, z3.StringVal("VALUE"), E.OptRef.some(box_lit(eng, pa.state, "DATE-TIME"))), want)
                        return z3.And(stored == o.ref, pm.arr == want, eng.box(o.fields["dt"], pa.state) == value)
                return z3.BoolVal(False)
            obs.append(compare.ensures(eng, oid, f"{fn}[{cls}.{name}]", source.lines_of(node), paths, clause, T))
        except E.Undecided as u:
            obs.append(ob_from(oid, fn, None, UNDECIDED, f"outside subset: {u}"))
    return obs
