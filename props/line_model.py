"""Content-line level composition shared by C05 and C08 (all pieces extracted from / certified against the real source).

Encoding of a (name, parameters, value text) triple over the alphabet PL:
      name  MA  [ pname M2 v M1 v ... M3 pname M2 v ... ]  MB  value-text
J      = Contentline.from_parts at text level:  name [';' Parameters.to_ical()] ':' value-text    (`if params:` = non-empty)
PARTS  = Contentline.parts at text level:  escape_string ; scan for name_split / value_split (certified loop quotient) ;
         Parameters.from_ical on the middle slice ; unescape_string on name, every parameter name/value and the value ;
         ValueError (undefined) for an empty name, a non-token name, no delimiter, or an empty parameter section.
"""
from __future__ import annotations

import ast
import re

from vc.pyvc import source
from vc.fstc import extract, loopq
from vc.fstc import fst as F
from vc.fstc import regex as R
from props import C08

P = C08.P
M1, M2, M3 = C08.M1, C08.M2, C08.M3
MA, MB = "\x1b", "\x1c"
PL = P + [M1, M2, M3, MA, MB]


def between(open_m, close_m, f: F.FST, alphabet):
    """apply f to the text strictly between the first open_m and the following close_m; copy everything else"""
    def step(q, a):
        if q == "pre":
            if a == open_m:
                return [(("in", f.init), a)]
            return [("pre", a)]
        if q == "post":
            return [("post", a)]
        if a == close_m:
            fl = f.finals(q[1]) if hasattr(f, "finals") else ([f.final(q[1])] if f.final(q[1]) is not None else [])
            return [("post", o + a) for o in fl]
        return [(("in", q2), o) for q2, o in f.delta(q[1], a)]

    def final(q):
        return "" if q in ("pre", "post") else None
    return F.FST.from_function(alphabet, "pre", step, final)


def shape_checks():
    mod = source.module("parser")
    fp = mod.lookup("Contentline.from_parts")
    pa = mod.lookup("Contentline.parts")
    if fp is None or pa is None:
        raise extract.Outside("Contentline.from_parts / parts not found")
    s = ast.unparse(fp)
    for n in ["if params:", "params = to_unicode(params.to_ical(sorted=sorted))", "return cls(f'{name};{params}:{values}')",
              "return cls(f'{name}:{values}')", "values = values.to_ical()"]:
        if n not in s:
            raise extract.Outside(f"Contentline.from_parts no longer contains `{n}`")
    s = ast.unparse(pa)
    for n in ["st = escape_string(self)", "name = unescape_string(st[:name_split])", "if not name:", "validate_token(name)",
              "if not value_split:", "value_split = i + 1", "if not name_split or name_split + 1 == value_split:",
              "params = Parameters.from_ical(st[name_split + 1:value_split], strict=self.strict)",
              "(unescape_string(key), unescape_list_or_string(value)) for key, value in iter(params.items())",
              "values = unescape_string(st[value_split + 1:])", "return (name, params, values)"]:
        if n not in s:
            raise extract.Outside(f"Contentline.parts no longer contains `{n}`")
    new = mod.lookup("Contentline.__new__")
    if "assert '\\n' not in value" not in ast.unparse(new):
        raise extract.Outside("Contentline.__new__ no longer refuses LF")


def marks_machine(alphabet):
    """name_split / value_split scan (certified) plus the error conditions that follow the loop in `parts`"""
    T, L = loopq.parts_marks_fst(alphabet, MA, MB)
    # wrap: track "name_split was set at the previous character" and the end-of-input rules

    def step(q, a):
        inner, ns, vs, prev_ns = q
        res = []
        for q2, o in T.delta(inner, a):
            set_ns = MA in o
            set_vs = MB in o
            if set_vs and not set_ns and prev_ns:
                continue                       # name_split + 1 == value_split : 'Invalid content line'
            res.append(((q2, ns or set_ns, vs or set_vs, set_ns and not set_vs), o))
        return res

    def final(q):
        inner, ns, vs, prev_ns = q
        if not ns:
            return None                        # no delimiter: 'Invalid content line'
        if not vs:
            if prev_ns:
                return None                    # value_split = i + 1 == name_split + 1
            return MB                          # no colon: empty value
        return ""
    return F.FST.from_function(alphabet, (T.init, False, False, False), step, final), L


def build():
    """-> dict(J=..., PARTS=..., spec pieces, loops)"""
    C08.shape_checks()
    shape_checks()
    c8 = C08.build()
    ex = extract.Extractor("parser", PL)
    es = ex.function("escape_string")
    us = ex.function("unescape_string")
    # to_text / from_text over PL (rebuilt on the larger alphabet)
    to_text, from_text, loops = param_text_machines(PL)
    # J
    j1 = between(MA, MB, to_text, PL)

    def jstep(q, a):
        # q: 'name' | 'after_ma' | 'params' | 'value'
        if q == "name":
            return ("after_ma", "") if a == MA else ("name", a)
        if q == "after_ma":
            if a == MB:
                return ("value", ":")
            return ("params", ";" + a)
        if q == "params":
            return ("value", ":") if a == MB else ("params", a)
        return ("value", a)
    j2 = F.FST.from_function(PL, "name", jstep, lambda q: "" if q == "value" else None)
    J = F.compose(j1, j2)
    marks, Lm = marks_machine(PL)
    loops["parts"] = Lm
    name_ok = R.dfa_from_regex("(?:" + C08.src_regex("NAME") + ")" + re.escape(MA) + ".*", PL, "fullmatch")
    PARTS = F.restrict_output(F.compose_all([es, marks, between(MA, MB, from_text, PL), us]), name_ok) if hasattr(F, "restrict_output") else None
    if PARTS is None:
        # restrict on the OUTPUT: compose with the identity restricted to the language
        PARTS = F.compose(F.compose_all([es, marks, between(MA, MB, from_text, PL), us]), F.restrict(F.identity(PL), name_ok))
    used = c8["used"] + ex.used + ["parser:Contentline.from_parts", "parser:Contentline.parts"]
    return {"J": J, "PARTS": PARTS, "es": es, "us": us, "loops": loops, "used": used, "to_text": to_text, "from_text": from_text}


def param_text_machines(alphabet):
    """Parameters.to_ical / from_ical on the 3-level marker encoding, over a larger alphabet (see props/C08.py)"""
    inner_val = [a for a in alphabet if a != M1]
    values_to = F.compose(F.segmentwise(C08.dquote_over(inner_val), M1, alphabet), F.relabel({M1: ","}, alphabet))
    to_param = F.compose(C08.after(M2, values_to, alphabet), F.relabel({M2: "="}, alphabet))
    split_eq, Le = loopq.q_split_fst(alphabet, "=", 1, M2)
    split_c, Lc = loopq.q_split_fst(alphabet, ",", -1, M1)
    values_from = F.compose(split_c, F.segmentwise(C08.item_processing(inner_val, [M2, M3, MA, MB]), M1, alphabet))
    name_ok = R.dfa_from_regex("(?:" + C08.src_regex("NAME") + ")=.*", alphabet, "fullmatch")
    from_param = F.restrict(F.compose(split_eq, C08.after(M2, values_from, alphabet)), name_ok)
    inner_param = [a for a in alphabet if a != M3]
    to_text = F.compose(F.segmentwise(rebase(to_param, inner_param), M3, alphabet), F.relabel({M3: ";"}, alphabet))
    split_s, Ls = loopq.q_split_fst(alphabet, ";", -1, M3)
    from_text = F.compose(split_s, F.segmentwise(rebase(from_param, inner_param), M3, alphabet))
    # q_split('') == [] : an empty parameter section gives an empty Parameters map (checked concretely by C08)
    empty = R.dfa_from_regex("", alphabet, "fullmatch")
    from_text = F.union(F.restrict(from_text, empty.complement()), F.restrict(F.identity(alphabet), empty))
    # `if params:` in from_parts: an empty Parameters map contributes nothing
    to_text = F.union(F.restrict(to_text, empty.complement()), F.restrict(F.identity(alphabet), empty))
    return to_text, from_text, {"';'": Ls, "'='": Le, "','": Lc}


def rebase(f: F.FST, alphabet):
    """the same transducer viewed over a sub-alphabet (for segmentwise, which wants f without the segment marker)"""
    return F.FST.from_function(alphabet, f.init, lambda q, a: f.delta(q, a), lambda q: f.final(q))


def domain(value_chars=None, any_param_chars=False):
    """names over token characters, parameter values free of double quotes and control characters (or, for the
    no-injection claim, over every character of the alphabet), any value text"""
    ok = "".join(re.escape(c) for c in (P if any_param_chars else C08.value_domain(P, [])))
    val = f"[{ok}]*"
    name = "[AB]+"
    one = f"{name}{re.escape(M2)}{val}(?:{re.escape(M1)}{val})*"
    params = f"(?:{one}(?:{re.escape(M3)}{one})*)?"
    vt = "".join(re.escape(c) for c in (value_chars if value_chars is not None else P))
    return R.dfa_from_regex(f"{name}{re.escape(MA)}{params}{re.escape(MB)}[{vt}]*", PL, "fullmatch")


def decode(enc):
    name, _, rest = enc.partition(MA)
    ptext, _, value = rest.partition(MB)
    params = C08.decode_text(ptext) if ptext else []
    return name, params, value


def native_parts_of_join(enc):
    """the real Contentline.from_parts -> parts on the decoded triple; returns (got, want) in the encoding"""
    from icalendar.parser import Contentline, Parameters, escape_string, unescape_string
    from icalendar.prop import vInline
    name, params, value = decode(enc)
    p = Parameters()
    for k, vs in params:
        p[k] = vs[0] if len(vs) == 1 else vs
    line = Contentline.from_parts(name, p, vInline(value), sorted=False)
    n2, p2, v2 = Contentline(line).parts()
    got = n2 + MA + M3.join(k + M2 + M1.join(v if isinstance(v, list) else [v]) for k, v in p2.items()) + MB + v2
    want = name + MA + M3.join(k.upper() + M2 + M1.join(vs) for k, vs in params) + MB + unescape_string(escape_string(value))
    return got, want
