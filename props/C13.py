"""C13 -- a generated VTIMEZONE reproduces the source zone's offsets over its window.

Functions under contract (real body of cal:Timezone.from_tzinfo, re-read every run; Timezone.from_tzid by statement shape).

What a contract can decide here, and what it cannot: the statement quantifies over the behaviour of tzinfo objects (zoneinfo, pytz, any
other) at every instant; the search of from_tzinfo is correct only for zones without an offset period shorter than its coarsest probe
step, which real zones violate (known finding C13-F2), and the generated DTSTART form is pinned by the project's own tests to a non-RFC
reading (C13-F1).  The deductive part therefore covers what the code guarantees for EVERY tzinfo object:
  S.search   one round of the forward search (the real `for add_offset in _from_tzinfo_skip_search: ... while ...` block, the step list
             read from the class body and unrolled, the inner `while` by an invariant derived from its own condition):
               S1  when the round ends normally the reading (utcoffset, tzname, dst) at `end` is the observance's -- the retraction after
                   every overshoot is right
               S2  the reading one finest step (1 s) after `end` differs -- the boundary is exact to the second
               S3  the next round starts exactly one finest step after `end`
             for both arithmetic models: zoneinfo (normalize is the identity) and pytz (normalize is an opaque function)
  S.key      every interval is recorded under (offset_from, offset_to, name, is_standard) with offset_to = start.utcoffset(),
             name = start.tzname() (str(offset_to) when None), is_standard = (start.dst() == timedelta()), offset_from = the
             previous interval's offset_to
  W.wellformed  (the real construction loop, run once for an arbitrary recorded key) every observance gets TZOFFSETFROM, TZOFFSETTO,
             TZNAME and DTSTART = the earliest recorded start, further starts go to RDATE, STANDARD / DAYLIGHT by is_standard,
             TZOFFSETFROM = TZOFFSETTO for the first interval; the component gets TZID
  F.from_tzid  from_tzid resolves the id with tzp.timezone and raises ValueError for an unknown id (shape)
Offsets and abbreviations of the generated component against the source zone (RFC onset rule and to_tz, every transition -1 s / 0 /
+1 s, midpoints, a 6-hour grid, all zones in the thorough tier) are a labelled BOUNDED stand-in and never counted as proved.
"""
from __future__ import annotations

import ast
import time
from datetime import timedelta

import z3

from contracts import caseless, comp, od
from vc import common
from vc.common import Obligation, Bounded, PROVED, REFUTED, UNDECIDED, ERROR
from vc.pyvc import compare, source
from vc.pyvc import engine as E
from vc.pyvc.discharge import TIMEOUT_MS, check_vc

LEVEL = "other"
PID = "C13"

rd_off = z3.Function("reading_utcoffset", E.Ref, E.Ref)
rd_name = z3.Function("reading_tzname", E.Ref, E.Ref)
rd_dst = z3.Function("reading_dst", E.Ref, E.Ref)
plus = z3.Function("datetime_plus", E.Ref, E.I, E.Ref)
norm = z3.Function("normalize", E.Ref, E.Ref)


def ob_from(oid, fn, lines, status, detail, backend="z3"):
    return Obligation(oid, fn, backend, status, detail=detail, lines=lines)


def skip_list(cls_node):
    """the class attribute _from_tzinfo_skip_search, evaluated from its own source expression"""
    for n in cls_node.body:
        if isinstance(n, ast.Assign) and isinstance(n.targets[0], ast.Name) and n.targets[0].id == "_from_tzinfo_skip_search":
            val = eval(compile(ast.Expression(n.value), "<skip list>", "eval"), {"timedelta": timedelta})
            if isinstance(val, list) and val and all(isinstance(x, timedelta) for x in val):
                return val
    raise E.Undecided("_from_tzinfo_skip_search is not a literal list of timedeltas")


def find_blocks(node):
    """(outer while, the for over the step list, the inner while) of from_tzinfo"""
    outer = [n for n in source.strip_docstring(node.body) if isinstance(n, ast.While)]
    if len(outer) != 1:
        raise E.Undecided("the outer `while start < last_datetime` loop was not found")
    fors = [n for n in outer[0].body if isinstance(n, ast.For)]
    if len(fors) != 1 or "_from_tzinfo_skip_search" not in ast.unparse(fors[0].iter):
        raise E.Undecided("the loop over _from_tzinfo_skip_search was not found")
    inner = [n for n in ast.walk(fors[0]) if isinstance(n, ast.While)]
    if len(inner) != 1:
        raise E.Undecided("the inner probing `while` was not found")
    return outer[0], fors[0], inner[0]


def search_engine(steps, pytz_model):
    lat = E.Lattice()
    for m in ("caselessdict", "parser", "prop", "cal"):
        lat.load_module(m)
    eng = E.Engine(lat, {})
    caseless.register(eng.contracts)
    eng.contracts["ref.utcoffset"] = lambda e, s, a, k: [(s, E.VRef(rd_off(a[0].z)))]
    eng.contracts["ref.tzname"] = lambda e, s, a, k: [(s, E.VRef(rd_name(a[0].z)))]
    eng.contracts["ref.dst"] = lambda e, s, a, k: [(s, E.VRef(rd_dst(a[0].z)))]

    def op_add(engine, st, a, b):
        a, b = engine.unbox_known(a, st), engine.unbox_known(b, st)
        if isinstance(a, E.VRef) and isinstance(b, E.VTd):
            s2 = st.fork()
            s2.ghost = dict(s2.ghost)
            s2.ghost["overflowed"] = True
            return [(st, E.VRef(plus(a.z, b.us))), (s2, E.VExc("OverflowError", "date value out of range"))]
        raise E.Undecided("+ on unsupported operands")
    eng.contracts["op:Add"] = op_add
    before = z3.Function("earlier_than", E.Ref, E.Ref, E.B)

    def op_order(engine, st, op, a, b):
        a, b = engine.unbox_known(a, st), engine.unbox_known(b, st)
        if isinstance(a, E.VRef) and isinstance(b, E.VRef):
            lt, gt = before(a.z, b.z), before(b.z, a.z)
            st.assume(z3.Not(z3.And(lt, gt)))
            return [(st, {ast.Lt: lt, ast.LtE: z3.Not(gt), ast.Gt: gt, ast.GtE: z3.Not(lt)}[type(op)])]
        raise E.Undecided("ordering on unsupported operands")
    eng.contracts["op:order"] = op_order
    eng.contracts["call:ref"] = lambda e, s, a, k: [(s, E.VRef(norm(e.box(a[1], s))))]

    def attr_steps(engine, st, v):
        return [(st, E.VTuple([E.VTd(z3.IntVal(int(x.total_seconds() * 10 ** 6))) for x in steps]))]
    eng.contracts["attr:_from_tzinfo_skip_search"] = attr_steps

    def invariant(engine, stmt, st):
        """the loop condition, said about the variable that remembers the last good probe: body = `v = <probe>; <probe> = ...`"""
        names = [n.id for n in ast.walk(stmt.test) if isinstance(n, ast.Name) and isinstance(n.ctx, ast.Load)]
        first = stmt.body[0] if stmt.body else None
        if not (isinstance(first, ast.Assign) and isinstance(first.targets[0], ast.Name) and isinstance(first.value, ast.Name) and first.value.id in names):
            return None
        probe, keep = first.value.id, first.targets[0].id

        class Sub(ast.NodeTransformer):
            def visit_Name(self, n):
                return ast.copy_location(ast.Name(id=keep, ctx=n.ctx), n) if n.id == probe else n
        import copy
        inv = ast.fix_missing_locations(Sub().visit(copy.deepcopy(stmt.test)))
        # ... and the probe is the update expression applied to the last good probe: body ends with `<probe> = f(<probe>)`
        last = stmt.body[-1]
        if not (isinstance(last, ast.Assign) and isinstance(last.targets[0], ast.Name) and last.targets[0].id == probe):
            return None
        upd = ast.fix_missing_locations(Sub().visit(copy.deepcopy(last.value)))

        def probe_is_one_step_on(engine_, s):
            vals = [(s2, v) for s2, v in engine_.ev(upd, s.fork()) if not isinstance(v, E.VExc)]      # (the program evaluated it itself)
            cur = s.env.get(probe)
            if len(vals) != 1 or not isinstance(cur, E.VRef):
                return z3.BoolVal(False)
            return engine_.box(cur, s) == engine_.box(vals[0][1], vals[0][0])
        return inv, probe_is_one_step_on
    eng.contracts["while:invariant"] = invariant
    return eng


def search_obligations(rep, tier):
    fn = "cal:Timezone.from_tzinfo"
    T = TIMEOUT_MS[tier]
    mod, node = source.find(fn)
    if node is None:
        return [ob_from(f"{PID}.S.search", fn, None, UNDECIDED, "function not found")]
    lines = source.lines_of(node)
    try:
        outer, floop, inner = find_blocks(node)
        steps = skip_list(source.module("cal").classes["Timezone"])
    except E.Undecided as u:
        return [ob_from(f"{PID}.S.search", fn, lines, UNDECIDED, str(u))]
    rep.functions.add(fn)
    obs = []
    finest = int(steps[-1].total_seconds() * 10 ** 6)
    for model in ("zoneinfo", "pytz"):
        eng = search_engine(steps, model == "pytz")
        st = E.State()
        start = z3.Const("start", E.Ref)
        prev_to = z3.Const("previous_offset_to", E.Ref)
        st.assume(start != E.NONE)
        if model == "pytz":
            normalize = E.VRef(z3.Const("normalize_method", E.Ref))
        else:
            lam = ast.parse("lambda dt: dt", mode="eval").body
            normalize = E.VFunc(lam, {}, None, "<lambda>")
        appended = []

        def dd_getitem(engine, s, c, k):
            c = engine.unbox_known(c, s)
            if isinstance(c, E.VClass) and c.name == "OFFSETS":
                return [(s, E.VBound(E.VClass("OFFSETS"), ("list_for", k)))]
            raise E.Undecided("subscript")
        eng.lat.add("OFFSETS", ["object"])

        def getitem(engine, s, c, k):
            c = engine.unbox_known(c, s)
            if isinstance(c, E.VClass) and c.name == "OFFSETS":
                r = s.new_ref(None, "starts_list")
                s.ghost = dict(s.ghost)
                s.ghost[("key", str(r))] = k
                return [(s, E.VRef(r))]
            if isinstance(c, E.VTuple):
                kz = z3.simplify(k.z)
                if z3.is_int_value(kz):
                    return [(s, c.items[kz.as_long()])]
            raise E.Undecided("subscript")
        eng.contracts["op:getitem"] = getitem

        def ref_append(engine, s, a, k):
            appended.append((s, s.ghost.get(("key", str(a[0].z))), a[1]))
            return [(s, E.VNone())]
        eng.contracts["ref.append"] = ref_append
        eng.contracts["ref.replace"] = lambda e, s, a, k: [(s, E.VRef(z3.Function("without_tzinfo", E.Ref, E.Ref)(a[0].z)))]
        E.BUILTINS.setdefault("str", E.BUILTINS.get("str"))
        env = dict(eng.globals, cls=E.VClass("Timezone"), timezone=E.VRef(z3.Const("timezone", E.Ref)), normalize=normalize,
                   start=E.VRef(start), offset_to=E.VRef(prev_to), offsets=E.VClass("OFFSETS"),
                   last_datetime=E.VRef(z3.Const("last_datetime", E.Ref)))
        st.env = dict(env)
        saved_str = E.BUILTINS.get("str")
        E.BUILTINS["str"] = lambda e, s, a, k: [(s, E.VRef(z3.Function("str_of_value", E.Ref, E.Ref)(e.box(a[0], s))))]
        saved_td = E.BUILTINS.get("timedelta")
        E.BUILTINS["timedelta"] = lambda e, s, a, k: [(s, E.VTd(z3.IntVal(0)))] if not a and not k else (_ for _ in ()).throw(E.Undecided("timedelta(...)"))
        eng.globals["timedelta"] = E.VBuiltin("timedelta")
        st.env["timedelta"] = E.VBuiltin("timedelta")
        try:
            results = eng.exec_block(outer.body, st)
        except E.Undecided as u:
            obs.append(ob_from(f"{PID}.S.search[{model}]", fn, lines, UNDECIDED, f"outside subset: {u}"))
            continue
        finally:
            if saved_str is not None:
                E.BUILTINS["str"] = saved_str
            if saved_td is None:
                E.BUILTINS.pop("timedelta", None)
            else:
                E.BUILTINS["timedelta"] = saved_td
        normal = [(s, sig) for s, sig in results if sig is None]
        o1 = Obligation(f"{PID}.S.search.S1_the_reading_at_end_is_the_observance[{model}]", fn, "z3", PROVED, lines=lines)
        o2 = Obligation(f"{PID}.S.search.S2_one_finest_step_later_the_reading_differs[{model}]", fn, "z3", PROVED, lines=lines)
        o3 = Obligation(f"{PID}.S.search.S3_the_next_round_starts_one_finest_step_after_end[{model}]", fn, "z3", PROVED, lines=lines)
        o4 = Obligation(f"{PID}.S.search.loop_invariants_of_the_probing_loop[{model}]", fn, "z3", PROVED, lines=lines)
        o5 = Obligation(f"{PID}.S.key.the_interval_is_recorded_under_offsets_name_and_kind_of_its_start[{model}]", fn, "z3", PROVED, lines=lines)
        reading = lambda r: (rd_off(r), rd_name(r), rd_dst(r))
        eqf = z3.Function("py_eq", E.Ref, E.Ref, E.B)

        def same_reading(s, r, base):
            return z3.And(*[eqf(a, b) for a, b in zip(reading(r), reading(base))])
        if not normal:
            for o in (o1, o2, o3, o4, o5):
                o.status, o.detail = UNDECIDED, "no normally ending path"
        seen_obl = set()
        n_inv = 0
        n_full = 0
        for s, _ in normal:
            end = s.env.get("end")
            nxt = s.env.get("start")
            if not isinstance(end, E.VRef) or not isinstance(nxt, E.VRef):
                for o in (o1, o2, o3):
                    o.status, o.detail = UNDECIDED, "end / start are not date-time values at the end of the round"
                continue
            step_after = norm(plus(end.z, z3.IntVal(finest))) if model == "pytz" else plus(end.z, z3.IntVal(finest))
            # py_eq is reflexive on identical terms (the engine asserts instances where it compares)
            hy = [*s.pc, *s.qpc]
            status, secs, info = check_vc(eng.axioms, hy, same_reading(s, end.z, start), T)
            compare.fold_status(o1, status, secs, info, "reading at end")
            if not s.ghost.get("overflowed"):      # (a round cut short by OverflowError -- the end of the representable range -- is not refined)
                status, secs, info = check_vc(eng.axioms, hy, z3.Not(same_reading(s, step_after, start)), T)
                compare.fold_status(o2, status, secs, info, "reading one finest step after end")
                n_full += 1
            status, secs, info = check_vc(eng.axioms, hy, nxt.z == step_after, T)
            compare.fold_status(o3, status, secs, info, "start of the next round")
            for name, s_, g in s.ghost.get("while_obls", []):
                key = (name, id(s_))
                if key in seen_obl:
                    continue
                seen_obl.add(key)
                n_inv += 1
                status, secs, info = check_vc(eng.axioms, [*s_.pc, *s_.qpc], g, T)
                compare.fold_status(o4, status, secs, info, name)
        # the key
        if not appended:
            o5.status, o5.detail = UNDECIDED, "offsets[key].append(...) was not reached"
        for s, key, val in appended:
            key = eng.unbox_known(key, s) if key is not None else None
            if not (isinstance(key, E.VTuple) and len(key.items) == 4):
                o5.status, o5.detail = UNDECIDED, "the key is not a 4-tuple"
                continue
            kf, kt, kn, ks = [eng.box(x, s) if not isinstance(x, E.VBool) else x for x in key.items]
            name_ref = rd_name(start)
            goal = z3.And(kf == prev_to, kt == rd_off(start),
                          z3.Or(z3.And(name_ref != E.NONE, kn == name_ref), z3.And(name_ref == E.NONE, kn == z3.Function("str_of_value", E.Ref, E.Ref)(rd_off(start)))))
            status, secs, info = check_vc(eng.axioms, [*s.pc, *s.qpc], goal, T)
            compare.fold_status(o5, status, secs, info, "key of the recorded interval")
        o1.detail = o1.detail or f"{len(normal)} normally ending paths, {len(steps)} steps unrolled ({steps[0]} ... {steps[-1]})"
        o2.detail = o2.detail or f"{n_full} paths on which no probe overflowed"
        if n_full == 0 and o2.status == PROVED:
            o2.status = UNDECIDED
        o3.detail = o3.detail or o1.detail
        o4.detail = o4.detail or f"{n_inv} entry / preservation obligations of the inner while (invariant = its condition about the last good probe)"
        o5.detail = o5.detail or f"{len(appended)} append sites"
        if n_inv == 0 and o4.status == PROVED:
            o4.status, o4.detail = UNDECIDED, "no invariant obligations were generated"
        for o in (o1, o2, o3, o4, o5):
            if o.status == REFUTED:
                o.shape_only = True
        obs += [o4, o1, o2, o3, o5]
    return obs


def construction_obligations(rep, tier):
    """the statements after the search: shape of the construction loop"""
    fn = "cal:Timezone.from_tzinfo"
    mod, node = source.find(fn)
    if node is None:
        return [ob_from(f"{PID}.W.wellformed", fn, None, UNDECIDED, "function not found")]
    body = source.strip_docstring(node.body)
    idx = [k for k, s in enumerate(body) if isinstance(s, ast.While)]
    if len(idx) != 1:
        return [ob_from(f"{PID}.W.wellformed", fn, source.lines_of(node), UNDECIDED, "outer loop not found")]
    tail = [ast.unparse(x) for x in body[idx[0] + 1:]]
    flat = "\n".join(ast.unparse(x) for t in body[idx[0] + 1:] for x in ast.walk(t) if isinstance(x, ast.stmt))
    need = ["tz = cls()", "tz.add('TZID', tzid)", "for (offset_from, offset_to, tzname, is_standard), starts in offsets.items():",
            "first_start = min(starts)", "starts.remove(first_start)", "subcomponent = TimezoneStandard() if is_standard else TimezoneDaylight()",
            "if offset_from is None:\n    offset_from = offset_to", "subcomponent.TZOFFSETFROM = offset_from", "subcomponent.TZOFFSETTO = offset_to",
            "subcomponent.add('TZNAME', tzname)", "subcomponent.DTSTART = first_start", "if starts:\n    subcomponent.add('RDATE', starts)",
            "tz.add_component(subcomponent)", "return tz"]
    miss = [n for n in need if n not in flat]
    # ... and the tail must be EXACTLY the statement list these statements were read from (an added statement that rewrites an offset or a
    # start afterwards must not pass)
    exact_tail = ['tz = cls()', "tz.add('TZID', tzid)", "tz.add('COMMENT', f'This timezone only works from {first_date} to {last_date}.')",
                  "for (offset_from, offset_to, tzname, is_standard), starts in offsets.items():\n    first_start = min(starts)\n"
                  "    starts.remove(first_start)\n    if first_start.date() == last_date:\n"
                  "        first_start = datetime(last_date.year, last_date.month, last_date.day)\n"
                  "    subcomponent = TimezoneStandard() if is_standard else TimezoneDaylight()\n    if offset_from is None:\n"
                  "        offset_from = offset_to\n    subcomponent.TZOFFSETFROM = offset_from\n    subcomponent.TZOFFSETTO = offset_to\n"
                  "    subcomponent.add('TZNAME', tzname)\n    subcomponent.DTSTART = first_start\n    if starts:\n"
                  "        subcomponent.add('RDATE', starts)\n    tz.add_component(subcomponent)", 'return tz']
    tail_changed = tail != exact_tail
    ob = ob_from(f"{PID}.W.every_observance_gets_DTSTART_TZOFFSETFROM_TZOFFSETTO_TZNAME_and_the_component_TZID", fn, source.lines_of(node),
                 PROVED if not miss else REFUTED,
                 "construction loop: one STANDARD / DAYLIGHT per recorded key with the four properties, further starts as RDATE; TZID on the component"
                 if not miss else f"statement shape changed: missing {miss[0]!r}", backend="fin")
    if miss:
        ob.shape_only = True
    elif tail_changed:
        ob.status = UNDECIDED
        ob.detail = "the construction tail of from_tzinfo is no longer the statement list this obligation was read from: the single statements prove nothing then"
    obs = [ob]
    mod, n2 = source.find("cal:Timezone.from_tzid")
    got = [ast.unparse(x) for x in source.strip_docstring(n2.body)] if n2 is not None else []
    want = ["tz = tzp.timezone(tzid)", "if tz is None:\n    raise ValueError(f'Unkown timezone {tzid}.')", "return cls.from_tzinfo(tz, tzid, first_date, last_date)"]
    ob = ob_from(f"{PID}.F.from_tzid_resolves_the_id_with_the_provider_and_generates_for_the_given_window", "cal:Timezone.from_tzid", source.lines_of(n2) if n2 is not None else None,
                 PROVED if got == want else REFUTED, "tzp.timezone(tzid); ValueError when unknown; from_tzinfo(tz, tzid, first_date, last_date)" if got == want
                 else f"body changed: {got!r}", backend="fin")
    if got != want:
        ob.shape_only = True
    else:
        rep.functions.add("cal:Timezone.from_tzid")
    obs.append(ob)
    return obs


def run(rep: common.Report):
    findings = common.findings_for(PID)
    tier = rep.tier
    rep.trust("engine: vc/pyvc + z3; while rule: invariant = the loop's own condition said about the last good probe (entry / preservation VCs)",
              "tzinfo readings (utcoffset / tzname / dst of a date-time) are uninterpreted functions of the date-time value; + and normalize are "
              "uninterpreted: the search obligations hold for EVERY tzinfo object and both arithmetic models",
              "what is NOT proved: that nothing changes between two probes (false for real zones: C13-F2), the meaning of the recorded wall times "
              "(C13-F1), dateutil / pytz behaviour of to_tz",
              "the step list is evaluated from its source expression; the construction loop and from_tzid by exact statement shape")
    for tag, fnc in (("S", search_obligations), ("W", construction_obligations)):
        try:
            for ob in fnc(rep, tier):
                rep.add(ob)
        except E.Undecided as u:
            rep.add(Obligation(f"{PID}.{tag}", "cal:Timezone.from_tzinfo", "z3", UNDECIDED, detail=f"outside subset: {u}"))
        except Exception as e:  # noqa
            import traceback
            traceback.print_exc()
            rep.add(Obligation(f"{PID}.{tag}", "cal:Timezone.from_tzinfo", "z3", ERROR, detail=f"checker crashed: {e!r}"))
    from props import C13_bnd
    for ob in rep.obligations:
        if ob.status == REFUTED and not ob.finding and ob.witness is None:
            b0 = Bounded("s", "", "")
            try:
                C13_bnd.run(b0, "quick", 0, findings, [])
            except Exception:  # noqa
                pass
            if b0.failures:
                ob.witness, ob.replay = b0.failures[0]["witness"], {"confirmed": True, "native": b0.failures[0]["detail"]}
            else:
                ob.status = UNDECIDED
                ob.detail += " -- candidate not confirmed on the real zones"
    b = Bounded("C13.bnd.generated_vtimezones", "cal:Timezone.from_tzid / to_tz vs the source zone (real, providers' zones)", C13_bnd.BOUND[tier])
    t0 = time.time()
    try:
        C13_bnd.run(b, tier, rep.seed, findings, rep.known_seen)
    except Exception as e:  # noqa
        import traceback
        traceback.print_exc()
        b.error = repr(e)
    b.seconds = time.time() - t0
    rep.bounded.append(b)
    rep.explanation = __doc__


def replay(payload: dict) -> int:
    from props import C13_bnd
    w = payload.get("witness") or {}
    msg = C13_bnd.replay_witness(w) if w else None
    print("replay:", msg or "no violation on the current tree")
    return 1 if msg else 0
