"""C05 -- content-line join/split are inverse; values cannot inject structure.

Functions under contract (real source, every run; composition in props/line_model.py):
  Contentline.from_parts (text level: name [';' Parameters.to_ical()] ':' value.to_ical()), Contentline.parts (escape_string,
  certified loop quotient of the name_split/value_split scan, Parameters.from_ical, unescape_string, the error rules),
  Contentline.__new__ (refuses LF), dquote / q_join / q_split / Parameters.to_ical / from_ical (C08), escape_string,
  unescape_string, validate_token, validate_param_value.

Obligations over ALL (name, parameter map, value text) triples -- names over token characters, parameter values free of
double quotes and control characters (C08's precondition), value text arbitrary (every combination of \\ ; : , " % ...):
  L1   parts(from_parts(n, p, v)) == (n, p, unescape_string(escape_string(v)))        (outside the listed known classes)
  L1v  unescape_string(escape_string(v)) == v                                          (outside the listed known class)
  L2   NO INJECTION: wherever parts() accepts the line, the property name and the sequence of parameter names are exactly
       those intended -- for every parameter value and every value text, known classes included
  L3   a value whose text contains LF is refused by Contentline.__new__ (AssertionError) -- every to_ical path goes through it
Tree level (components / properties / parameters after Component.to_ical -> from_ical) is a labelled bounded stand-in.
"""
from __future__ import annotations

import re
import time

from vc import common
from vc.common import Obligation, Bounded, PROVED, REFUTED, UNDECIDED, ERROR
from vc.fstc import extract, oblig
from vc.fstc import fst as F
from vc.fstc import regex as R
from vc.fstc import decide as D
from props import line_model as LM
from props import C08

LEVEL = "proof"
PID = "C05"


def projection():
    """erase parameter values and the value text: what remains is the structure (property name, parameter names)"""
    def pstep(q, a):
        if q == "name":
            return ("pname", a) if a == LM.MA else ("name", a)
        if q == "pname":
            if a == LM.M2:
                return ("pval", a)
            if a == LM.MB:
                return ("value", a)
            return ("pname", a)
        if q == "pval":
            if a == LM.M3:
                return ("pname", a)
            if a == LM.MB:
                return ("value", a)
            return ("pval", "")
        return ("value", "")
    return F.FST.from_function(LM.PL, "name", pstep, lambda q: "")


def with_domain_of(T: F.FST, S: F.FST):
    """the function S restricted to the inputs on which T is defined (S deterministic)"""
    def step(q, a):
        qt, qs = q
        out = []
        for q2, _ in T.delta(qt, a):
            for s2, o in S.delta(qs, a):
                out.append(((q2, s2), o))
        return out

    def final(q):
        qt, qs = q
        ft = T.finals(qt) if hasattr(T, "finals") else ([T.final(qt)] if T.final(qt) is not None else [])
        return S.final(qs) if ft else None
    return F.FST.from_function(T.alphabet, (T.init, S.init), step, final)


def param_class_dfa(subs):
    """triples whose PARAMETER section contains one of the substrings"""
    return R.dfa_from_regex("[^" + re.escape(LM.MB) + "]*(?:" + "|".join(re.escape(b) for b in subs) + ").*", LM.PL, "fullmatch")


def value_class_dfa(subs):
    return R.dfa_from_regex(".*" + re.escape(LM.MB) + ".*(?:" + "|".join(re.escape(b) for b in subs) + ").*", LM.PL, "fullmatch")


def show(s):
    if not isinstance(s, str):
        return repr(s)
    return repr(s.replace(LM.MA, "{;").replace(LM.MB, ":}").replace(LM.M1, ",").replace(LM.M2, "=").replace(LM.M3, ";"))


def line_obligations(rep, findings, pid, which):
    """shared with C08 (Q5).  which: subset of {'L1', 'L1v', 'L2'}"""
    obs = []
    fn = "parser:Contentline.from_parts -> Contentline.parts"
    try:
        m = LM.build()
    except (extract.Outside, NotImplementedError) as e:
        for k in which:
            obs.append(Obligation(f"{pid}.{k}", fn, "fstc", UNDECIDED, detail=f"outside the fstc fragment: {e}"))
        return obs, None
    T = F.compose(m["J"], m["PARTS"])
    dom = LM.domain()
    val_norm = F.compose(m["es"], m["us"])
    names = {"L1": "L1.parts_inverts_from_parts", "L1v": "L1v.value_text_unchanged", "L2": "L2.no_injection_of_names",
             "Q5": "Q5.content_line_round_trip"}
    if "L1" in which or "Q5" in which:
        key = "L1" if "L1" in which else "Q5"
        spec = C08.after(LM.MB, val_norm, LM.PL)
        oid = f"{pid}.{names[key]}"
        mine = [f for f in findings if f.get("obligation") == oid]
        d = dom
        for f in mine:
            d = d.intersect(param_class_dfa(f["class"]["contains_any"]).complement())
        ob = oblig.decide_equiv(oid, fn, T, spec, LM.PL, [], LM.native_parts_of_join, rep.known_seen, domain=d, show=show)
        if ob.status == PROVED and mine:
            ob.detail = f"equivalent outside the listed known-finding classes ({', '.join(f['id'] for f in mine)}); " + ob.detail
            for f in mine:
                got, want = LM.native_parts_of_join(f["witness"])
                if got != want:
                    rep.known_seen.append(f"{f['id']} {f['what']} (witness {show(f['witness'])} -> {show(got)})")
        obs.append(ob)
    if "L1v" in which:
        oid = f"{pid}.{names['L1v']}"
        mine = [f for f in findings if f.get("obligation") == oid]
        from icalendar.parser import escape_string, unescape_string
        ex = extract.Extractor("parser", LM.P)
        vn = F.compose(ex.function("escape_string"), ex.function("unescape_string"))
        obs.append(oblig.decide_equiv(oid, "parser:escape_string -> unescape_string (value text path of parts)", vn, F.identity(LM.P), LM.P,
                                      mine, lambda s: (unescape_string(escape_string(s)), s), rep.known_seen))
    if "L2" in which:
        oid = f"{pid}.{names['L2']}"
        proj = projection()
        t = time.time()
        # "whatever characters a value or parameter value contains": parameter values over the WHOLE alphabet here
        # (double quotes and a control character included), value text arbitrary
        ob = oblig.decide_equiv(oid, fn, F.compose(T, proj), with_domain_of(T, proj), LM.PL, [],
                                lambda enc: structure_native(enc), rep.known_seen, domain=LM.domain(any_param_chars=True), show=show)
        obs.append(ob)
    return obs, m


def structure_native(enc):
    from icalendar.parser import Contentline, Parameters
    from icalendar.prop import vInline
    name, params, value = LM.decode(enc)
    p = Parameters()
    for k, vs in params:
        p[k] = vs[0] if len(vs) == 1 else vs
    line = Contentline.from_parts(name, p, vInline(value), sorted=False)
    try:
        n2, p2, v2 = Contentline(line).parts()
    except ValueError:
        return None, None          # rejected: allowed
    return (n2, list(p2.keys())), (name, [k.upper() for k, _ in params])


def refuses_lf():
    """L3: Contentline.__new__ refuses a raw LF (shape-checked in line_model.shape_checks) -- native confirmation"""
    from icalendar.parser import Contentline, Parameters
    from icalendar.prop import vInline, vUri
    ob = Obligation(f"{PID}.L3.line_break_is_refused", "parser:Contentline.__new__", "fin", PROVED,
                    detail="`assert '\\n' not in value` is present (shape check) and fires for str and bytes input")
    for v in ("a\nBEGIN:VEVENT", "a\r\nX:1"):
        for val in (vInline(v), vUri(v)):
            try:
                Contentline.from_parts("X", Parameters(), val)
                ob.status, ob.detail = REFUTED, f"a value containing LF was accepted: {v!r}"
                ob.witness = {"value": v}
                ob.replay = {"confirmed": True, "native": "no AssertionError"}
            except AssertionError:
                pass
    return ob


def run(rep: common.Report):
    findings = common.findings_for(PID)
    rep.trust("engine: vc/fstc; loop quotients certified by pyvc symbolic execution of the real loop bodies",
              "TRANSCRIBED glue of Contentline.from_parts / parts and Parameters.from_ical / to_ical (guarded by source shape checks and "
              "compared with the real functions by the stand-in and the C08 cross-check)",
              "alphabet abstraction (DESIGN.md 4.5): delimiters \\ ; : , \" % = ' ^ space, the hex digits of the placeholders, one control "
              "character, two other characters; names over two token characters",
              "value.to_ical() text is arbitrary LF-free text (typed encoders are C03/C07)")
    obs, m = line_obligations(rep, findings, PID, {"L1", "L1v", "L2"})
    for ob in obs:
        rep.add(ob)
    if m is not None:
        for u in m["used"]:
            rep.functions.add(u.split(" ")[0])
        rep.extra["loop_certificates"] = {k: f"{len(L.paths)} body paths, all path-condition atoms abstract" for k, L in m["loops"].items()}
    try:
        LM.shape_checks()
        rep.add(refuses_lf())
    except extract.Outside as e:
        rep.add(Obligation(f"{PID}.L3.line_break_is_refused", "parser:Contentline.__new__", "fin", UNDECIDED, detail=str(e)))
    # the lines layer between a content line and the octets: a content line reaches the parser again only if folding is undone exactly
    # (C06.P4 / P5); the obligations of C06 are re-run on this tree, a refutation there is reported by C06's own check
    from props import C01 as _C01
    for ob in _C01.import_lemmas(rep, rep.tier, plan=[("L4", "C06", lambda o: True, "folding undone exactly, lines round trip")], pid=PID):
        rep.add(ob)
    from props import C05_bnd
    b = Bounded("C05.bnd.tree_level_injection", "cal:Component.to_ical -> from_ical (real)", C05_bnd.BOUND[rep.tier])
    t0 = time.time()
    try:
        C05_bnd.run(b, rep.tier, rep.seed, findings, rep.known_seen)
    except Exception as e:  # noqa
        import traceback
        traceback.print_exc()
        b.error = repr(e)
    b.seconds = time.time() - t0
    rep.bounded.append(b)
    rep.explanation = __doc__


def replay(payload: dict) -> int:
    w = payload.get("witness") or {}
    oid = payload.get("obligation", "")
    if "input" in w and LM.MA in w["input"]:
        if ".L2." in oid:
            got, want = structure_native(w["input"])
        else:
            got, want = LM.native_parts_of_join(w["input"])
        print("replay:", show(got), "expected", show(want))
        return 1 if got != want else 0
    if "input" in w:
        from icalendar.parser import escape_string, unescape_string
        got = unescape_string(escape_string(w["input"]))
        print("replay:", repr(got), "expected", repr(w["input"]))
        return 1 if got != w["input"] else 0
    from props import C05_bnd
    msg = C05_bnd.replay_witness(w)
    print("replay:", msg or "no violation on the current tree")
    return 1 if msg else 0
