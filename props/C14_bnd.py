"""Bounded stand-in for C14 (labelled bounded) and native concretiser: real Event/Todo objects with VALARMs from the
statement's grid, built through the API and re-parsed from text, compared with an independent restatement of RFC 5545
3.8.6 / RFC 9074 (anchor + TRIGGER + k * DURATION)."""
import itertools
from datetime import date, datetime, timedelta, timezone

BOUND = {
    "quick": "components {Event, Todo} x starts {date, floating, UTC, zoned} x end forms {none, DTEND/DUE, DURATION 0, DURATION 1D, "
             "DURATION 1H30M} x alarm {-P1D, -PT15M, PT0S, +PT2H; RELATED START/END/absent/lower-case end; absolute UTC} x "
             "REPEAT {absent,0,1,3} x DURATION {absent, PT6H, P1D, PT0S}; built via API and parsed; both providers",
    "thorough": "same grid plus DST-crossing zoned starts and pairs of alarms",
}


def is_d(x):
    return isinstance(x, date) and not isinstance(x, datetime)


def plus(anchor, td):
    """the statement's anchor + delta (a date stays a date iff the delta has no time-of-day part)"""
    if is_d(anchor):
        if td.seconds == 0 and td.microseconds == 0:
            return anchor + td
        anchor = datetime(anchor.year, anchor.month, anchor.day)
    r = anchor + td
    tz = getattr(r, "tzinfo", None)
    if tz is not None and hasattr(tz, "normalize"):
        r = tz.normalize(r)
    return r


PROVIDER = ["zoneinfo"]


def starts(tier):
    """zoned starts carry the tzinfo of the active provider: the statement's `+` is the arithmetic of that tzinfo (wall clock for zoneinfo,
    normalised elapsed time for pytz), which is also what a re-parsed value has"""
    if PROVIDER[0] == "pytz":
        import pytz
        zoned = pytz.timezone("Europe/Berlin").localize(datetime(2024, 3, 30, 12))
    else:
        from zoneinfo import ZoneInfo
        zoned = datetime(2024, 3, 30, 12, tzinfo=ZoneInfo("Europe/Berlin"))
    out = [date(2024, 3, 30), datetime(2024, 3, 30, 12), datetime(2024, 3, 30, 12, tzinfo=timezone.utc), zoned]
    return out


def end_forms(start):
    one = timedelta(days=1)
    forms = [("none", None), ("dur0", timedelta(0)), ("dur1d", one)]
    if not is_d(start):
        forms += [("end", start + timedelta(hours=2)), ("dur90m", timedelta(minutes=90))]
    else:
        forms += [("end", start + timedelta(days=2)), ("end", start + one)]
    # an explicit end EQUAL to the start (a zero-length component as written) is the end: nothing is added to it
    forms += [("end", start)]
    return forms


def alarm_specs():
    trig = [timedelta(days=-1), timedelta(minutes=-15), timedelta(0), timedelta(hours=2)]
    out = []
    for t in trig:
        for rel in (None, "START", "END", "start", "End"):
            out.append(("rel", t, rel))
    out.append(("abs", datetime(2024, 3, 29, 8, 0, tzinfo=timezone.utc), None))
    out.append(("none", None, None))
    return out


def repeats():
    return [(None, None), (0, timedelta(hours=6)), (1, timedelta(hours=6)), (3, timedelta(days=1)), (2, None), (None, timedelta(hours=1)),
            (2, timedelta(0))]


def build(cls, start, endform, aspecs):
    import icalendar
    c = getattr(icalendar, cls)()
    c.start = start
    kind, val = endform
    if kind == "end":
        c.end = val
    elif kind.startswith("dur"):
        c.DURATION = val
    for (akind, trig, rel), (rep, dur) in aspecs:
        a = icalendar.Alarm()
        if akind != "none":
            a.TRIGGER = trig
            if rel:
                a.TRIGGER_RELATED = rel
        if rep is not None:
            a.REPEAT = rep
        if dur is not None:
            a.DURATION = dur
        c.add_component(a)
    return c


def expected(cls, start, endform, aspecs):
    """statement: list of (alarm index, trigger) in the order end-relative, start-relative, absolute"""
    kind, val = endform
    if kind == "end":
        end = val
    elif kind.startswith("dur"):
        end = start + val
    else:
        end = start + timedelta(days=1) if is_d(start) else start
    groups = {"end": [], "start": [], "abs": []}
    for idx, ((akind, trig, rel), (rep, dur)) in enumerate(aspecs):
        if akind == "none":
            continue
        if akind == "abs":
            first, g = trig, "abs"
        elif rel is not None and rel.upper() == "END":
            first, g = plus(end, trig), "end"
        else:
            first, g = plus(start, trig), "start"
        seq = [first]
        if rep and dur:
            seq += [plus(first, dur * i) for i in range(1, rep + 1)]
        groups[g] += [(idx, t) for t in seq]
    return groups["end"] + groups["start"] + groups["abs"]


def observe(c):
    al = c.alarms
    alarms = c.walk("VALARM")
    out = []
    for at in al.times:
        out.append((next(i for i, a in enumerate(alarms) if a is at.alarm), at.trigger))
    return out


def same(a, b):
    if len(a) != len(b):
        return False
    for (i, x), (j, y) in zip(a, b):
        if i != j or type(x) is not type(y):
            return False
        if isinstance(x, datetime) and (x.tzinfo is None) != (y.tzinfo is None):
            return False
        if x != y:
            return False
        if isinstance(x, datetime) and x.tzinfo is not None and x.utcoffset() != y.utcoffset():
            return False
    return True


def cases(tier):
    for cls in ("Event", "Todo"):
        for start in starts(tier):
            for ef in end_forms(start):
                for a in alarm_specs():
                    for r in repeats():
                        yield cls, start, ef, [(a, r)]
                # "for each alarm": two alarms with EQUAL content are two alarms
                for a in alarm_specs()[::2]:
                    for r in repeats()[:4]:
                        yield cls, start, ef, [(a, r), (a, r)]
                if tier != "quick":
                    for a1, a2 in itertools.product(alarm_specs()[::3], repeat=2):
                        yield cls, start, ef, [(a1, (1, timedelta(hours=6))), (a2, (None, None))]


def check(cls, start, ef, aspecs, reparse):
    import icalendar
    c = build(cls, start, ef, aspecs)
    if reparse:
        c = icalendar.Component.from_ical(c.to_ical())
    try:
        got = observe(c)
    except Exception as e:  # noqa
        return f"alarms.times raises {type(e).__name__}: {e}"
    want = expected(cls, start, ef, aspecs)
    if not same(got, want):
        return f"times {got!r}, statement {want!r}"
    return None


def missing_info_cases():
    """missing start/end are reported only by the documented errors; absolute alarms need neither"""
    import icalendar
    from icalendar.alarms import Alarms, ComponentStartMissing, ComponentEndMissing
    out = []
    for rel, exc in (("START", ComponentStartMissing), ("END", ComponentEndMissing)):
        a = icalendar.Alarm()
        a.TRIGGER = timedelta(hours=-1)
        a.TRIGGER_RELATED = rel
        al = Alarms()
        al.add_alarm(a)
        try:
            al.times
            out.append(f"RELATED={rel} without the anchor: no error")
        except exc:
            pass
        except Exception as e:  # noqa
            out.append(f"RELATED={rel} without the anchor: {type(e).__name__}")
    a = icalendar.Alarm()
    a.TRIGGER = datetime(2024, 1, 1, tzinfo=timezone.utc)
    a.REPEAT = 2
    a.DURATION = timedelta(hours=1)
    al = Alarms()
    al.add_alarm(a)
    try:
        ts = [t.trigger for t in al.times]
        if ts != [a.TRIGGER + timedelta(hours=i) for i in range(3)]:
            out.append(f"absolute alarm repeats: {ts!r}")
    except Exception as e:  # noqa
        out.append(f"absolute alarm without component times: {type(e).__name__}")
    a = icalendar.Alarm()
    al = Alarms()
    al.add_alarm(a)
    if al.times != []:
        out.append("alarm without TRIGGER contributes times")
    return out


def history_cases():
    """observe - mutate - observe on ONE Alarms object: the times are a function of the current alarms and anchors, whatever was read before"""
    import icalendar
    from icalendar.alarms import Alarms
    out = []
    t0 = datetime(2024, 5, 1, 12, 0, tzinfo=timezone.utc)

    def alarm(trigger, related=None, repeat=None, duration=None):
        a = icalendar.Alarm()
        a.TRIGGER = trigger
        if related:
            a.TRIGGER_RELATED = related
        if repeat is not None:
            a.REPEAT = repeat
        if duration is not None:
            a.DURATION = duration
        return a

    def triggers(al):
        return sorted(t.trigger for t in al.times)
    # add_alarm after a read
    al = Alarms()
    al.set_start(t0)
    al.add_alarm(alarm(timedelta(hours=-1)))
    first = triggers(al)
    al.add_alarm(alarm(timedelta(hours=-2), repeat=1, duration=timedelta(minutes=30)))
    second = triggers(al)
    want = sorted([t0 - timedelta(hours=1), t0 - timedelta(hours=2), t0 - timedelta(hours=2) + timedelta(minutes=30)])
    if first != [t0 - timedelta(hours=1)] or second != want:
        out.append(f"times after add_alarm following a read: {second!r}, statement {want!r}")
    # an absolute alarm added after a read of `active`
    al = Alarms()
    al.add_alarm(alarm(t0))
    _ = al.active
    al.add_alarm(alarm(t0 + timedelta(days=1)))
    if triggers(al) != [t0, t0 + timedelta(days=1)]:
        out.append(f"times after adding an absolute alarm following a read of active: {triggers(al)!r}")
    # editing an added alarm after a read
    al = Alarms()
    al.set_start(t0)
    a = alarm(timedelta(0))
    al.add_alarm(a)
    _ = triggers(al)
    a.REPEAT = 2
    a.DURATION = timedelta(hours=1)
    if triggers(al) != [t0, t0 + timedelta(hours=1), t0 + timedelta(hours=2)]:
        out.append(f"times after REPEAT / DURATION were set on an added alarm following a read: {triggers(al)!r}")
    a.TRIGGER = timedelta(hours=3)
    if triggers(al) != [t0 + timedelta(hours=3), t0 + timedelta(hours=4), t0 + timedelta(hours=5)]:
        out.append(f"times after TRIGGER was changed on an added alarm following a read: {triggers(al)!r}")
    # anchors changed after a read
    al.set_start(t0 + timedelta(days=7))
    if triggers(al)[0] != t0 + timedelta(days=7, hours=3):
        out.append(f"times after set_start following a read: {triggers(al)!r}")
    # through a component: alarms added to the event after event.alarms was read still count on the next event.alarms
    ev = icalendar.Event()
    ev.start = t0
    ev.add_component(alarm(timedelta(hours=-1)))
    n1 = len(ev.alarms.times)
    ev.add_component(alarm(timedelta(hours=-2)))
    n2 = len(ev.alarms.times)
    if (n1, n2) != (1, 2):
        out.append(f"event.alarms.times before / after adding a second VALARM: {n1}, {n2}")
    return out


def run(b, tier, seed):
    import icalendar
    fails = {}
    n = 0
    distinct = set()
    providers = ["zoneinfo", "pytz"]
    for prov in providers:
        icalendar.timezone.tzp.use(prov)
        PROVIDER[0] = prov
        try:
            for cls, start, ef, aspecs in cases(tier):
                for reparse in (False, True):
                    n += 1
                    distinct.add((cls, repr(start), ef[0], repr(aspecs), reparse))
                    msg = check(cls, start, ef, aspecs, reparse)
                    if msg and len(fails) < 12:
                        key = (aspecs[0][0][0], aspecs[0][0][2], ef[0], is_d(start))
                        fails.setdefault(key, {"witness": {"case": [cls, repr(start), repr(ef), repr(aspecs), reparse, prov]},
                                               "detail": f"{cls} start={start!r} end={ef!r} alarms={aspecs!r} parsed={reparse}: {msg}"})
            for msg in missing_info_cases():
                n += 1
                fails.setdefault(msg, {"witness": {"missing_info": msg}, "detail": msg})
            n += 6
            try:
                hist = history_cases()
            except Exception as e:  # noqa
                hist = [f"a call history raises {type(e).__name__}: {e}"]
            for msg in hist:
                fails.setdefault(msg[:50], {"witness": {"history": msg}, "detail": f"[{prov}] {msg}"})
        finally:
            icalendar.timezone.tzp.use_default()
            PROVIDER[0] = "zoneinfo"
    b.cases = n
    b.nontrivial = len(distinct)
    b.failures = list(fails.values())
    b.samples = [repr(next(iter(cases("quick"))))]
    return b


def search_for(oid):
    from vc.common import Bounded
    b = Bounded("search", "", "")
    run(b, "quick", 0)
    for f in b.failures:
        return f["witness"], f["detail"]
    return None


def replay_witness(w):
    import datetime as _d
    import zoneinfo
    import icalendar
    env = {"datetime": _d, "zoneinfo": zoneinfo}
    if "case" in w:
        cls, start, ef, aspecs, reparse, prov = w["case"]
        icalendar.timezone.tzp.use(prov)
        try:
            return check(cls, eval(start, env), eval(ef, env), eval(aspecs, env), reparse)
        finally:
            icalendar.timezone.tzp.use_default()
    if "history" in w:
        return "; ".join(history_cases()) or None
    msgs = missing_info_cases()
    return "; ".join(msgs) or None
