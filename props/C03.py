"""C03 -- every typed value codec is its own inverse and emits RFC 5545 value grammar.

Functions under contract (real bodies from prop.py, every run): vDate / vDatetime / vTime / vUTCOffset / vDuration
to_ical and from_ical, vDDDTypes.from_ical (classification), vPeriod.from_ical (composition); DURATION_REGEX is read from
the source and matched against token shapes.

Strings have statically known SHAPES (vc/pyvc/chars.py): fixed-width fields are digit characters given by div/mod
arithmetic, variable-width numerals are 'dec' tokens.  Per type T, for ALL values of its domain at once:
   R1  dec_T(enc_T(x)) == x           (all dates 0001-9999, all seconds of the day, all offsets |o| < 24 h, all whole-second
                                       durations |days| < 10^9)
   R2  enc_T(x) matches the RFC grammar of T
   R3  every grammar-shaped text decodes to the value the RFC assigns (and texts denoting no value raise ValueError)
   CL  vDDDTypes.from_ical routes each text of L(DATE), L(DATE-TIME), L(TIME), L(DURATION), L(PERIOD) to that decoder
Finite types (BOOLEAN, weekday, frequency, month) are enumerated completely (fin).  INTEGER, FLOAT, BINARY, GEO, URI,
CAL-ADDRESS delegate to built-ins: bounded stand-in (boundary and seeded values) plus the listed known findings.
"""
from __future__ import annotations

import ast
import itertools
import time

import z3

from contracts import comp, dtfields as DF
from vc import common
from vc.common import Obligation, Bounded, PROVED, REFUTED, UNDECIDED, ERROR
from vc.pyvc import chars, compare, source, seqs
from vc.pyvc import engine as E
from vc.pyvc.chars import VText, lit, sym_text, is_digit
from vc.pyvc.discharge import TIMEOUT_MS

LEVEL = "proof"
PID = "C03"
tzid_other = z3.String("tzid_of_zone")


class Eng(chars.CodecEngine):
    def ev_Call(self, e, st):
        if any(isinstance(a, ast.Starred) for a in e.args):
            # f(*tuple): expand a tuple of known length
            out = []
            for s, f in self.ev(e.func, st):
                if isinstance(f, E.VExc):
                    out.append((s, f))
                    continue
                exprs = [a.value if isinstance(a, ast.Starred) else a for a in e.args]
                for s2, vals in self.ev_seq(exprs, s):
                    if isinstance(vals, E.VExc):
                        out.append((s2, vals))
                        continue
                    args = []
                    for a, v in zip(e.args, vals):
                        if isinstance(a, ast.Starred):
                            v = self.unbox_known(v, s2)
                            if not isinstance(v, E.VTuple):
                                raise E.Undecided("*args of unknown length")
                            args += v.items
                        else:
                            args.append(v)
                    out += self.call(f, args, {}, s2)
            return out
        return super().ev_Call(e, st)

    def isinstance_z(self, v, names, st):
        if isinstance(v, VText):
            return z3.BoolVal(any(self.lat.issub("str", n) or self.lat.issub("bytes", n) for n in names))
        return super().isinstance_z(v, names, st)


def make_engine():
    lat = E.Lattice()
    for m in ("caselessdict", "parser", "prop"):
        lat.load_module(m)
    lat.add("TZP", ["object"])
    eng = Eng(lat, {})
    chars.install_builtins()
    classes = comp.Classes("prop", extra=())
    comp.install(eng, classes)
    DF.register(eng)
    eng.globals["tzp"] = E.VClass("TZP")
    mod = source.module("prop")
    for name in ("DURATION_REGEX",):
        node = mod.assigns.get(name)
        if isinstance(node, ast.Call) and node.args:
            parts = []
            for a in node.args:
                parts.append(ast.literal_eval(a))
            eng.regexes[name] = "".join(parts)
    eng.globals["DURATION_REGEX"] = E.VClass("DURATION_REGEX")
    eng.lat.add("DURATION_REGEX", ["object"])

    def regex_match(engine, st, args, kw):
        t = chars.to_text(engine, args[1], st)
        if t is None:
            raise E.Undecided("regex match on a string of unknown shape")
        pat = engine.regexes.get("DURATION_REGEX")
        if pat is None:
            raise E.Undecided("DURATION_REGEX is not a literal pattern")
        res = chars.match_tokens(pat, t.toks, engine, st.fork())
        out = []
        conds = []
        for s, groups in res:
            gvals = [VText(g) if g else E.VNone() for g in groups]
            addr = s.alloc(E.HeapObj("Match", {"_groups": E.VTuple(gvals)}))
            out.append((s, E.VObj(addr)))
            conds.append(z3.And(*s.pc[len(st.pc):]) if len(s.pc) > len(st.pc) else z3.BoolVal(True))
        nomatch = st
        nomatch.assume(z3.Not(z3.Or(*conds)) if conds else z3.BoolVal(True))
        if engine.feasible(nomatch):
            out.append((nomatch, E.VNone()))
        return out
    eng.contracts["DURATION_REGEX.match"] = regex_match
    eng.lat.add("Match", ["object"])
    eng.contracts["Match.groups"] = lambda e, s, a, k: [(s, s.heap[a[0].addr].fields["_groups"])]

    def tzid_from_dt(engine, st, args, kw):
        r = engine.unbox_known(args[0], st).z
        out = []
        for s, aw in engine.split(st, DF.aware(r)):
            if not aw:
                out.append((s, E.VNone()))
                continue
            for s2, u in engine.split(s, DF.is_utc(r)):
                if u:
                    out.append((s2, lit("UTC")))
                else:
                    s2.assume(tzid_other != z3.StringVal("UTC"), z3.Length(tzid_other) > 0)
                    out.append((s2, E.VStr(tzid_other)))
        return out
    E.BUILTINS["tzid_from_dt"] = tzid_from_dt
    eng.globals["tzid_from_dt"] = E.VBuiltin("tzid_from_dt")

    def localize_utc(engine, st, args, kw):
        r = engine.unbox_known(args[1], st).z
        u = DF.with_utc(r)
        st.assume(E.cls_of(u) == engine.lat.id("datetime"), DF.aware(u), DF.is_utc(u), E.truthy(u), u != E.NONE,
                  *[DF.F[n](u) == DF.F[n](r) for n in DF.F])
        return [(st, E.VRef(u))]

    def localize(engine, st, args, kw):
        r = engine.unbox_known(args[1], st).z
        z = engine.box(args[2], st)
        u = DF.with_tz(r, z)
        st.assume(E.cls_of(u) == engine.lat.id("datetime"), DF.aware(u), E.truthy(u), u != E.NONE, *[DF.F[n](u) == DF.F[n](r) for n in DF.F])
        return [(st, E.VRef(u))]
    eng.contracts["TZP.localize_utc"] = comp.exact_arity(localize_utc, 2, "tzp.localize_utc(dt)")
    eng.contracts["TZP.localize"] = comp.exact_arity(localize, 3, "tzp.localize(dt, tz)")
    eng.contracts["TZP.timezone"] = lambda e, s, a, k: [(s, E.VRef(z3.Function("provider_timezone", E.Ref, E.Ref)(e.box(a[1], s))))]

    def strftime(engine, st, args, kw):
        r = args[0].z
        fmt = chars.to_text(engine, args[1], st)
        f = "".join(chr(z3.simplify(c[1]).as_long()) for c in fmt.toks)
        if f != "%H%M%S":
            raise E.Undecided(f"strftime format {f!r}")
        toks = []
        for n in ("hour", "minute", "second"):
            v = DF.F[n](r)
            toks += [("c", 48 + (v / 10) % 10), ("c", 48 + v % 10)]
        return [(st, VText(toks))]
    eng.contracts["ref.strftime"] = strftime
    return eng, classes


def value_obj(eng, st, cls, field, v):
    return E.VObj(st.alloc(E.HeapObj(cls, {field: v})))


def fn(classes, eng, cls, name):
    d = classes.member(eng.lat, cls, name)
    return getattr(d, "node", None) if d is not None else None


def run_chain(eng, node1, env1, st, node2, env2_of):
    """run node1, then node2 on each normal result (env2_of(result_value) -> env)"""
    out = []
    for p1 in eng.run(node1, env1, st):
        if p1.kind != "ret":
            out.append((p1, None))
            continue
        for p2 in eng.run(node2, env2_of(p1.value), p1.state):
            out.append((p1, p2))
    return out


def chain_obligation(eng, oid, function, pairs, clause, tmo, allow_raise_first=False):
    ob = Obligation(oid, function, "z3", PROVED)
    n = 0
    from vc.pyvc.discharge import check_vc
    for p1, p2 in pairs:
        if p1.kind == "undecided" or (p2 is not None and p2.kind == "undecided"):
            ob.status, ob.detail = UNDECIDED, f"outside subset: {(p1 if p1.kind == 'undecided' else p2).value}"
            return ob
        if p2 is None:
            goal = z3.BoolVal(False)
            what = f"encoder exits with {p1.kind} {getattr(p1.value, 'cls', '')}"
            pc = p1.pc
        else:
            goal = clause(p1, p2)
            what = f"encoder path -> decoder exit {p2.kind} {getattr(p2.value, 'cls', '')}"
            pc = p2.pc
        n += 1
        status, secs, info = check_vc(eng.axioms, [pc], goal, tmo)
        compare.fold_status(ob, status, secs, info, what)
        if ob.status == REFUTED:
            return ob
    ob.detail = ob.detail or f"{n} encoder x decoder paths"
    if n == 0:
        ob.status, ob.detail = ERROR, "no paths"
    return ob


def all_digits(t: VText):
    return z3.And(*[is_digit(c[1]) for c in t.toks if c[0] == "c"])


def num(t: VText, a, b):
    return chars.digits_value([c[1] for c in t.toks[a:b]])


def obligations(eng, classes, tier):
    tmo = TIMEOUT_MS[tier]
    obs = []
    L = eng.lat
    # ================================ DATE
    enc, dec = fn(classes, eng, "vDate", "to_ical"), fn(classes, eng, "vDate", "from_ical")
    if enc is None or dec is None:
        obs.append(Obligation(f"{PID}.DATE.round_trip", "prop:vDate", "z3", UNDECIDED, detail="functions not found"))
    else:
        d = z3.Const("d", E.Ref)
        st = E.State()
        st.assume(*DF.date_invariant(eng, d, "date"))
        pairs = run_chain(eng, enc, {"self": value_obj(eng, st, "vDate", "dt", E.VRef(d))}, st, dec, lambda v: {"ical": v})
        obs.append(chain_obligation(eng, f"{PID}.DATE.R1_round_trip", "prop:vDate.to_ical/from_ical", pairs,
                                    lambda p1, p2: z3.And(z3.BoolVal(p2.kind == "ret"), *([DF.F[n](eng.box(p2.value, p2.state)) == DF.F[n](d) for n in ("year", "month", "day")]
                                                          + [E.cls_of(eng.box(p2.value, p2.state)) == L.id("date")] if p2.kind == "ret" else [])), tmo))
        obs.append(chain_obligation(eng, f"{PID}.DATE.R2_grammar_8_digits", "prop:vDate.to_ical", [(p1, p1) for p1, _ in pairs if p1.kind == "ret"][:1] or pairs,
                                    lambda p1, p2: z3.And(z3.BoolVal(isinstance(p1.value, VText) and p1.value.fixed() and len(p1.value.toks) == 8),
                                                          all_digits(p1.value) if isinstance(p1.value, VText) else z3.BoolVal(False)), tmo))
        t = sym_text("t", 8)
        st = E.State()
        st.assume(all_digits(t))
        paths = eng.run(dec, {"ical": t}, st)
        y, m, dd = num(t, 0, 4), num(t, 4, 6), num(t, 6, 8)

        def c_r3(pa):
            if pa.kind == "ret":
                r = eng.box(pa.value, pa.state)
                return z3.And(DF.valid_date(y, m, dd), DF.F["year"](r) == y, DF.F["month"](r) == m, DF.F["day"](r) == dd)
            return z3.And(z3.Not(DF.valid_date(y, m, dd)), z3.BoolVal(pa.value.cls == "ValueError"))
        obs.append(compare.ensures(eng, f"{PID}.DATE.R3_text_denotes_value_or_ValueError", "prop:vDate.from_ical", source.lines_of(dec), paths, c_r3, tmo,
                                   kinds=("ret", "raise")))
    # ================================ DATE-TIME (naive and UTC)
    enc, dec = fn(classes, eng, "vDatetime", "to_ical"), fn(classes, eng, "vDatetime", "from_ical")
    if enc is None or dec is None:
        obs.append(Obligation(f"{PID}.DATE-TIME.round_trip", "prop:vDatetime", "z3", UNDECIDED, detail="functions not found"))
    else:
        for kind in ("naive", "utc"):
            d = z3.Const("dt", E.Ref)
            st = E.State()
            st.assume(*DF.date_invariant(eng, d, "datetime"))
            st.assume(DF.aware(d) == (kind == "utc"), z3.Implies(DF.aware(d), DF.is_utc(d)))
            pairs = run_chain(eng, enc, {"self": value_obj(eng, st, "vDatetime", "dt", E.VRef(d))}, st, dec,
                              lambda v: {"ical": v, "timezone": E.VNone()})

            def c_dt(p1, p2, kind=kind, d=d):
                if p2.kind != "ret":
                    return z3.BoolVal(False)
                r = eng.box(p2.value, p2.state)
                return z3.And(*[DF.F[n](r) == DF.F[n](d) for n in DF.F], DF.aware(r) == (kind == "utc"),
                              z3.Implies(z3.BoolVal(kind == "utc"), DF.is_utc(r)), E.cls_of(r) == L.id("datetime"))
            obs.append(chain_obligation(eng, f"{PID}.DATE-TIME.R1_round_trip[{kind}]", "prop:vDatetime.to_ical/from_ical", pairs, c_dt, tmo))

            def c_g(p1, p2, kind=kind):
                t = p1.value
                if not (isinstance(t, VText) and t.fixed() and len(t.toks) == (16 if kind == "utc" else 15)):
                    return z3.BoolVal(False)
                return z3.And(all_digits(VText(t.toks[:8])), t.toks[8][1] == ord("T"), all_digits(VText(t.toks[9:15])),
                              *( [t.toks[15][1] == ord("Z")] if kind == "utc" else []))
            obs.append(chain_obligation(eng, f"{PID}.DATE-TIME.R2_grammar[{kind}]", "prop:vDatetime.to_ical", [(a, a) for a, _ in pairs if a.kind == "ret"][:1] or pairs, c_g, tmo))
        for n_chars in (15, 16):
            t = sym_text("t", n_chars)
            st = E.State()
            st.assume(all_digits(VText(t.toks[:8])), t.toks[8][1] == ord("T"), all_digits(VText(t.toks[9:15])))
            if n_chars == 16:
                st.assume(t.toks[15][1] == ord("Z"))
            paths = eng.run(dec, {"ical": t, "timezone": E.VNone()}, st)
            vals = [num(t, 0, 4), num(t, 4, 6), num(t, 6, 8), num(t, 9, 11), num(t, 11, 13), num(t, 13, 15)]
            valid = z3.And(DF.valid_date(*vals[:3]), DF.valid_time(*vals[3:]))

            def c_r3(pa, vals=vals, valid=valid, n_chars=n_chars):
                if pa.kind == "ret":
                    r = eng.box(pa.value, pa.state)
                    return z3.And(valid, *[DF.F[n](r) == v for n, v in zip(DF.F, vals)], DF.aware(r) == (n_chars == 16))
                return z3.And(z3.Not(valid), z3.BoolVal(pa.value.cls == "ValueError"))
            obs.append(compare.ensures(eng, f"{PID}.DATE-TIME.R3_text_denotes_value_or_ValueError[{n_chars} chars]", "prop:vDatetime.from_ical",
                                       source.lines_of(dec), paths, c_r3, tmo, kinds=("ret", "raise")))
    # ================================ TIME
    enc, dec = fn(classes, eng, "vTime", "to_ical"), fn(classes, eng, "vTime", "from_ical")
    if enc is None or dec is None:
        obs.append(Obligation(f"{PID}.TIME.round_trip", "prop:vTime", "z3", UNDECIDED, detail="functions not found"))
    else:
        d = z3.Const("tm", E.Ref)
        st = E.State()
        st.assume(*DF.date_invariant(eng, d, "time"))
        pairs = run_chain(eng, enc, {"self": value_obj(eng, st, "vTime", "dt", E.VRef(d))}, st, dec, lambda v: {"ical": v})
        obs.append(chain_obligation(eng, f"{PID}.TIME.R1_round_trip", "prop:vTime.to_ical/from_ical", pairs,
                                    lambda p1, p2: z3.And(z3.BoolVal(p2.kind == "ret"), *([DF.F[n](eng.box(p2.value, p2.state)) == DF.F[n](d) for n in ("hour", "minute", "second")] if p2.kind == "ret" else [])), tmo))
        for n_chars in (6, 7):
            t = sym_text("t", n_chars)
            st = E.State()
            st.assume(all_digits(VText(t.toks[:6])))
            if n_chars == 7:
                st.assume(t.toks[6][1] == ord("Z"))
            paths = eng.run(dec, {"ical": t}, st)
            vals = [num(t, 0, 2), num(t, 2, 4), num(t, 4, 6)]

            def c_t(pa, vals=vals, n_chars=n_chars):
                if pa.kind == "ret":
                    r = eng.box(pa.value, pa.state)
                    return z3.And(DF.valid_time(*vals), *[DF.F[n](r) == v for n, v in zip(("hour", "minute", "second"), vals)],
                                  DF.aware(r) == (n_chars == 7))
                return z3.And(z3.Not(DF.valid_time(*vals)), z3.BoolVal(pa.value.cls == "ValueError"))
            obs.append(compare.ensures(eng, f"{PID}.TIME.R3_text_denotes_value_or_ValueError[{n_chars} chars]", "prop:vTime.from_ical",
                                       source.lines_of(dec), paths, c_t, tmo, kinds=("ret", "raise")))
    # ================================ UTC-OFFSET
    enc, dec = fn(classes, eng, "vUTCOffset", "to_ical"), fn(classes, eng, "vUTCOffset", "from_ical")
    if enc is None or dec is None:
        obs.append(Obligation(f"{PID}.UTC-OFFSET.round_trip", "prop:vUTCOffset", "z3", UNDECIDED, detail="functions not found"))
    else:
        secs = z3.Int("offset_seconds")
        st = E.State()
        st.assume(secs > -86400, secs < 86400)
        td = E.VTd(secs * 10 ** 6)
        pairs = run_chain(eng, enc, {"self": value_obj(eng, st, "vUTCOffset", "td", td)}, st, dec, lambda v: {"cls": E.VClass("vUTCOffset"), "ical": v})

        def c_off(p1, p2):
            if p2.kind != "ret":
                return z3.BoolVal(False)
            v = eng.unbox_known(p2.value, p2.state)
            return (v.us == secs * 10 ** 6) if isinstance(v, E.VTd) else z3.BoolVal(False)
        obs.append(chain_obligation(eng, f"{PID}.UTC-OFFSET.R1_round_trip", "prop:vUTCOffset.to_ical/from_ical", pairs, c_off, tmo))

        def c_offg(p1, p2):
            t = p1.value
            if not (isinstance(t, VText) and t.fixed() and len(t.toks) in (5, 7)):
                return z3.BoolVal(False)
            sign = t.toks[0][1]
            return z3.And(z3.Or(sign == ord("+"), sign == ord("-")), all_digits(VText(t.toks[1:])), (sign == ord("-")) == (secs < 0),
                          z3.BoolVal(len(t.toks) == 7) == (secs % 60 != 0))
        obs.append(chain_obligation(eng, f"{PID}.UTC-OFFSET.R2_grammar", "prop:vUTCOffset.to_ical", [(a, a) for a, _ in pairs if a.kind == "ret"] or pairs, c_offg, tmo))
        for n_chars in (5, 7):
            t = sym_text("t", n_chars)
            st = E.State()
            st.assume(z3.Or(t.toks[0][1] == ord("+"), t.toks[0][1] == ord("-")), all_digits(VText(t.toks[1:])))
            h, mi = num(t, 1, 3), num(t, 3, 5)
            sc = num(t, 5, 7) if n_chars == 7 else z3.IntVal(0)
            st.assume(mi <= 59, sc <= 59)
            paths = eng.run(dec, {"cls": E.VClass("vUTCOffset"), "ical": t}, st)
            total = h * 3600 + mi * 60 + sc

            def c_o3(pa, total=total, t=t, h=h):
                if pa.kind == "ret":
                    v = eng.unbox_known(pa.value, pa.state)
                    if not isinstance(v, E.VTd):
                        return z3.BoolVal(False)
                    return z3.And(h <= 23, v.us == z3.If(t.toks[0][1] == ord("-"), -total, total) * 10 ** 6)
                return z3.And(h >= 24, z3.BoolVal(pa.value.cls == "ValueError"))
            obs.append(compare.ensures(eng, f"{PID}.UTC-OFFSET.R3_text_denotes_value_or_ValueError[{n_chars} chars]", "prop:vUTCOffset.from_ical",
                                       source.lines_of(dec), paths, c_o3, tmo, kinds=("ret", "raise")))
    # ================================ DURATION
    enc, dec = fn(classes, eng, "vDuration", "to_ical"), fn(classes, eng, "vDuration", "from_ical")
    if enc is None or dec is None:
        obs.append(Obligation(f"{PID}.DURATION.round_trip", "prop:vDuration", "z3", UNDECIDED, detail="functions not found"))
    else:
        secs = z3.Int("duration_seconds")
        st = E.State()
        st.assume(secs > -10 ** 9 * 86400, secs < 10 ** 9 * 86400)
        td = E.VTd(secs * 10 ** 6)
        pairs = run_chain(eng, enc, {"self": value_obj(eng, st, "vDuration", "td", td)}, st, dec, lambda v: {"ical": v})

        def c_dur(p1, p2):
            if p2.kind != "ret":
                return z3.BoolVal(False)
            v = eng.unbox_known(p2.value, p2.state)
            return (v.us == secs * 10 ** 6) if isinstance(v, E.VTd) else z3.BoolVal(False)
        obs.append(chain_obligation(eng, f"{PID}.DURATION.R1_round_trip", "prop:vDuration.to_ical/from_ical", pairs, c_dur, tmo))
        rfc = r"[-+]?P(?:\d+W|\d+D(?:T(?:\d+H(?:\d+M(?:\d+S)?)?|\d+M(?:\d+S)?|\d+S))?|T(?:\d+H(?:\d+M(?:\d+S)?)?|\d+M(?:\d+S)?|\d+S))$"
        ob = Obligation(f"{PID}.DURATION.R2_grammar", "prop:vDuration.to_ical", "z3", PROVED)
        shapes = 0
        for p1 in {id(a): a for a, _ in pairs if a.kind == "ret"}.values():
            t = p1.value
            if not isinstance(t, VText):
                ob.status, ob.detail = REFUTED, "to_ical does not return a string of known shape"
                break
            shapes += 1
            res = chars.match_tokens(rfc, t.toks, eng, p1.state.fork())
            if not res:
                ob.status = REFUTED
                ob.detail = "emitted shape " + "".join(chr(z3.simplify(c[1]).as_long()) if c[0] == "c" and z3.is_int_value(z3.simplify(c[1])) else "<n>" for c in t.toks) + " is not in the RFC dur-value grammar"
                break
        ob.detail = ob.detail or f"{shapes} emitted shapes all match the RFC dur-value grammar"
        obs.append(ob)
        # R3: grammar shapes decode to the RFC value
        ob3 = Obligation(f"{PID}.DURATION.R3_text_denotes_value", "prop:vDuration.from_ical", "z3", PROVED)
        from vc.pyvc.discharge import check_vc
        n_shapes = 0
        W, D, H, M, S = [z3.Int(x) for x in ("nW", "nD", "nH", "nM", "nS")]
        time_parts = [[("H", H)], [("H", H), ("M", M)], [("H", H), ("M", M), ("S", S)], [("M", M)], [("M", M), ("S", S)], [("S", S)]]
        bodies = [[("W", W)]] + [[("D", D)]] + [[("D", D), "T"] + tp for tp in time_parts] + [["T"] + tp for tp in time_parts]
        for sign in ("", "+", "-"):
            for body in bodies:
                toks = lit(sign + "P").toks
                total = z3.IntVal(0)
                for part in body:
                    if part == "T":
                        toks = toks + lit("T").toks
                        continue
                    letter, var = part
                    toks = toks + [("dec", var)] + lit(letter).toks
                    total = total + var * {"W": 604800, "D": 86400, "H": 3600, "M": 60, "S": 1}[letter]
                st = E.State()
                st.assume(W >= 0, D >= 0, H >= 0, M >= 0, S >= 0, W < 10 ** 7, D < 10 ** 8, H < 10 ** 9, M < 10 ** 9, S < 10 ** 9)
                n_shapes += 1
                for pa in eng.run(dec, {"ical": VText(toks)}, st):
                    if pa.kind == "undecided":
                        ob3.status, ob3.detail = UNDECIDED, pa.value
                        break
                    if pa.kind == "ret":
                        v = eng.unbox_known(pa.value, pa.state)
                        goal = (v.us == (-total if sign == "-" else total) * 10 ** 6) if isinstance(v, E.VTd) else z3.BoolVal(False)
                    else:
                        goal = z3.BoolVal(False)
                    status, secs_, info = check_vc(eng.axioms, [pa.pc], goal, tmo)
                    compare.fold_status(ob3, status, secs_, info, f"shape {sign}P{''.join(p if p == 'T' else 'n' + p[0] for p in body)} exit {pa.kind}")
                if ob3.status != PROVED:
                    break
            if ob3.status != PROVED:
                break
        ob3.detail = ob3.detail or f"{n_shapes} grammar shapes (sign x week / day[+time] / time forms) with symbolic numerals"
        obs.append(ob3)
    # ================================ classification
    dd = fn(classes, eng, "vDDDTypes", "from_ical")
    if dd is None:
        obs.append(Obligation(f"{PID}.classification", "prop:vDDDTypes.from_ical", "z3", UNDECIDED, detail="not found"))
    else:
        decoded = z3.Function("decoded_as", E.I, E.Ref)
        tags = {"vDuration": 1, "vPeriod": 2, "vDatetime": 3, "vDate": 4, "vTime": 5}
        for cname, tag in tags.items():
            eng.contracts[f"{cname}.from_ical"] = (lambda tg: (lambda e, s, a, k: [(s, E.VRef(decoded(z3.IntVal(tg))))]))(tag)
        cases = []
        d8 = sym_text("t", 8)
        cases.append(("DATE", d8, [all_digits(d8)], "vDate"))
        for n_chars in (15, 16):
            t = sym_text("t", n_chars)
            hyp = [all_digits(VText(t.toks[:8])), t.toks[8][1] == ord("T"), all_digits(VText(t.toks[9:15]))] + ([t.toks[15][1] == ord("Z")] if n_chars == 16 else [])
            cases.append((f"DATE-TIME[{n_chars}]", t, hyp, "vDatetime"))
        for n_chars in (6, 7):
            t = sym_text("t", n_chars)
            cases.append((f"TIME[{n_chars}]", t, [all_digits(VText(t.toks[:6]))] + ([t.toks[6][1] == ord("Z")] if n_chars == 7 else []), "vTime"))
        for pre in ("P", "+P", "-P"):
            for n_chars in (3, 4, 8, 9, 16):
                t = VText(lit(pre).toks + sym_text("t", n_chars - len(pre)).toks)
                # rest: digits and designators, no '/'
                hyp = [z3.Or(is_digit(c[1]), *[c[1] == ord(x) for x in "WDTHMS"]) for c in t.toks[len(pre):]]
                cases.append((f"DURATION[{pre},{n_chars}]", t, hyp, "vDuration"))
        for a, b in ((15, 15), (16, 16), (15, 4), (16, 9)):
            t1, t2 = sym_text("s", a), sym_text("e", b)
            hyp = [z3.Or(is_digit(c[1]), c[1] == ord("T"), c[1] == ord("Z")) for c in t1.toks] + [is_digit(t1.toks[0][1])]
            hyp += [z3.Or(is_digit(c[1]), *[c[1] == ord(x) for x in "TZPWDHMS+-"]) for c in t2.toks]
            cases.append((f"PERIOD[{a}/{b}]", VText(t1.toks + lit("/").toks + t2.toks), hyp, "vPeriod"))
        ob = Obligation(f"{PID}.classification.each_grammar_goes_to_its_decoder", "prop:vDDDTypes.from_ical", "z3", PROVED)
        from vc.pyvc.discharge import check_vc
        for label, t, hyp, want in cases:
            st = E.State()
            st.assume(*hyp)
            paths = eng.run(dd, {"cls": E.VClass("vDDDTypes"), "ical": t, "timezone": E.VNone()}, st)
            for pa in paths:
                if pa.kind == "undecided":
                    ob.status, ob.detail = UNDECIDED, pa.value
                    break
                goal = (eng.box(pa.value, pa.state) == decoded(z3.IntVal(tags[want]))) if pa.kind == "ret" else z3.BoolVal(False)
                status, secs_, info = check_vc(eng.axioms, [pa.pc], goal, tmo)
                compare.fold_status(ob, status, secs_, info, f"{label}: exit {pa.kind}")
            if ob.status != PROVED:
                break
        ob.detail = ob.detail or f"{len(cases)} grammar shapes"
        obs.append(ob)
    # ================================ PERIOD: both halves go through the combined decoder (which classifies them)
    pf = fn(classes, eng, "vPeriod", "from_ical")
    if pf is None:
        obs.append(Obligation(f"{PID}.PERIOD.both_parts_through_the_combined_decoder", "prop:vPeriod.from_ical", "z3", UNDECIDED, detail="not found"))
    else:
        calls = []

        def ddd_from_ical(engine, s, a, k):
            t = chars.to_text(engine, a[1] if isinstance(a[0], E.VClass) else a[0], s)
            r = z3.Const(f"ddd_result_{len(calls)}", E.Ref)
            calls.append((r, t))
            return [(s, E.VRef(r))]
        saved = {k: eng.contracts.get(k) for k in ("vDDDTypes.from_ical",)}
        eng.contracts["vDDDTypes.from_ical"] = ddd_from_ical
        t1, t2 = sym_text("s", 15), sym_text("e", 6)
        text = VText(t1.toks + lit("/").toks + t2.toks)
        st = E.State()
        st.assume(*[c[1] != ord("/") for c in t1.toks + t2.toks])
        paths = eng.run(pf, {"ical": text, "timezone": E.VNone()}, st)

        def c_per(pa):
            v = pa.value
            if not (isinstance(v, E.VTuple) and len(v.items) == 2 and len(calls) >= 2):
                return z3.BoolVal(False)
            (r1, a1), (r2, a2) = calls[-2], calls[-1]
            ok_texts = a1 is not None and a2 is not None and a1.fixed() and a2.fixed() and len(a1.toks) == 15 and len(a2.toks) == 6
            if not ok_texts:
                return z3.BoolVal(False)
            return z3.And(eng.box(v.items[0], pa.state) == r1, eng.box(v.items[1], pa.state) == r2,
                          chars.text_eq(a1, t1), chars.text_eq(a2, t2))
        obs.append(compare.ensures(eng, f"{PID}.PERIOD.both_parts_through_the_combined_decoder", "prop:vPeriod.from_ical", source.lines_of(pf), paths,
                                   c_per, tmo))
        for k, v in saved.items():
            if v is None:
                eng.contracts.pop(k, None)
            else:
                eng.contracts[k] = v
    return obs


# ---------------------------------------------------------------------------------------------------
# fin: finite types, complete

def fin_types():
    from icalendar.prop import vBoolean, vWeekday, vFrequency, vMonth
    obs = []
    t0 = time.time()
    bad = []
    n = 0
    for v in (True, False):
        n += 1
        text = vBoolean(v).to_ical().decode()
        if text not in ("TRUE", "FALSE") or vBoolean.from_ical(text) is not v:
            bad.append(("BOOLEAN", v))
    for text, want in itertools.chain(*[[("".join(c), w) for c in itertools.product(*[(ch.lower(), ch.upper()) for ch in word])] for word, w in (("TRUE", True), ("FALSE", False))]):
        n += 1
        if vBoolean.from_ical(text) is not want:
            bad.append(("BOOLEAN text", text))
    days = ["SU", "MO", "TU", "WE", "TH", "FR", "SA"]
    for day in days:
        for sign in ("", "+", "-"):
            for k in [None] + list(range(1, 54)):
                if k is None and sign:
                    continue
                text = f"{sign}{k if k is not None else ''}{day}"
                spellings = [text, text.lower()]
                if k is not None and k < 10:
                    spellings.append(f"{sign}0{k}{day}")          # ordwk = 1*2DIGIT: 01 .. 09 are grammar-valid spellings of 1 .. 9
                for variant in spellings:
                    n += 1
                    rel = None if k is None else (-k if sign == "-" else k)
                    try:
                        w = vWeekday.from_ical(variant)
                        back = vWeekday.from_ical(vWeekday(w).to_ical().decode())
                        ok = (w.weekday == day and w.relative == rel and back.weekday == day and back.relative == rel
                              and (variant != text and variant != text.lower() or vWeekday(w).to_ical().decode() == text.upper()))
                    except Exception as e:  # noqa
                        ok = False
                        variant = f"{variant} ({type(e).__name__}: {e})"
                    if not ok:
                        bad.append(("weekday", variant))
    for f in vFrequency.frequencies if hasattr(vFrequency, "frequencies") else []:
        for variant in (f, f.lower(), f.capitalize()):
            n += 1
            if vFrequency.from_ical(variant) != f.upper() or vFrequency(variant).to_ical().decode() != f.upper():
                bad.append(("frequency", variant))
    for mth in range(1, 14):
        for leap in (False, True):
            text = f"{mth}{'L' if leap else ''}"
            n += 1
            m = vMonth.from_ical(text)
            if int(m) != mth or m.leap != leap or m.to_ical().decode() != text or vMonth.from_ical(vMonth(m).to_ical().decode()).leap != leap:
                bad.append(("month", text))
    ob = Obligation(f"{PID}.finite_types.BOOLEAN_weekday_frequency_month", "prop:vBoolean/vWeekday/vFrequency/vMonth", "fin",
                    PROVED if not bad else REFUTED, time.time() - t0, f"{n} values and texts enumerated completely" if not bad else f"fails for {bad[:3]!r}")
    if bad:
        ob.witness = {"finite": repr(bad[0])}
        ob.replay = {"confirmed": True, "native": repr(bad[0])}
    obs.append(ob)
    return obs


def run(rep: common.Report):
    findings = common.findings_for(PID)
    eng, classes = make_engine()
    rep.trust("assumed: date/datetime/time constructors and field access (contracts/dtfields.py, validity predicate cross-checked natively)",
              "assumed: time.strftime('%H%M%S') prints two digits per field; int() on ASCII digit strings is the positional value",
              "assumed: tzid_from_dt is None for naive values and 'UTC' for UTC; tzp.localize_utc / localize keep the wall-clock fields",
              "string shapes (vc/pyvc/chars.py): fixed-width fields by div/mod arithmetic, numerals as tokens, regex matched on tokens",
              "engine: vc/pyvc + z3 5.1.0")
    rep.assume("ints are mathematical; UTC offsets |o| < 24 h and whole seconds; durations are whole seconds with |days| < 10^9; text "
               "grammars are ASCII",
               "timedelta arithmetic is treated as mathematical: DURATION texts are decided for numerals weeks < 10^7, days < 10^8, hours / "
               "minutes / seconds < 10^9 (far inside timedelta's range of +-999999999 days); beyond that only C04's clause holds "
               "(ValueError, never OverflowError - decided there by the may-raise analysis incl. its arithmetic rule)")
    try:
        obs = obligations(eng, classes, rep.tier)
    except Exception as e:  # noqa
        import traceback
        traceback.print_exc()
        obs = [Obligation(f"{PID}.engine", "prop", "z3", ERROR, detail=repr(e))]
    from props import C03_bnd
    by = {f["obligation"]: f for f in findings}
    for ob in obs:
        if ob.status == REFUTED and ob.oid in by:
            f = by[ob.oid]
            still = C03_bnd.finding_witness(f["id"])
            ob.status = PROVED if False else REFUTED
            if still:
                ob.finding = f["id"]
                rep.known_seen.append(f"{f['id']} {f['what']} ({still})")
            else:
                ob.detail += " -- the listed witness no longer fails natively"
        elif ob.status == REFUTED:
            w = C03_bnd.search_for(ob.oid)
            if w:
                ob.witness, ob.replay = w[0], {"confirmed": True, "native": w[1]}
            elif getattr(ob, "shape_only", False):
                ob.status = UNDECIDED
                ob.detail += " -- not confirmed natively"
            else:
                ob.replay = {"confirmed": False, "native": "no failing input found in the bounded domain"}
        rep.add(ob)
    try:
        for ob in fin_types():
            rep.add(ob)
    except Exception as e:  # noqa
        rep.add(Obligation(f"{PID}.finite_types", "prop", "fin", ERROR, detail=repr(e)))
    cc = DF.crosscheck(rep.seed)
    rep.crosschecks.append(cc)
    if not cc["ok"]:
        rep.error(f"assumed-contract cross-check failed: {cc['name']}: {cc['failures']}")
    # translation validation of the executor: the real codec bodies run on CONCRETE values must give CPython's results
    try:
        from vc.fin import engine_vs_cpython
        cc2 = engine_vs_cpython.run(make_engine, fn, value_obj, rep.seed, 40 if rep.tier == "quick" else 400)
        rep.crosschecks.append(cc2)
        if not cc2["ok"]:
            rep.error(f"the executor disagrees with CPython on concrete values: {cc2['failures']}")
    except Exception as e:  # noqa
        rep.error(f"executor-vs-CPython cross-check crashed: {e!r}")
    b = Bounded("C03.bnd.codecs", "prop: all value classes (real)", C03_bnd.BOUND[rep.tier])
    t0 = time.time()
    try:
        C03_bnd.run(b, rep.tier, rep.seed, findings, rep.known_seen)
    except Exception as e:  # noqa
        import traceback
        traceback.print_exc()
        b.error = repr(e)
    b.seconds = time.time() - t0
    rep.bounded.append(b)
    rep.explanation = __doc__


def replay(payload: dict) -> int:
    from props import C03_bnd
    w = payload.get("witness")
    if not w:
        print("replay: no concrete input recorded; verifier output:", payload.get("verifier_output"))
        return 1
    msg = C03_bnd.replay_witness(w)
    print("replay:", msg or "no violation on the current tree")
    return 1 if msg else 0
