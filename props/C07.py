"""C07 -- TEXT escaping is lossless for every string: alone, as property, in lists.

Functions under contract (transducers extracted from the real source on every run: vc/fstc/extract.py):
  parser.escape_char, parser.unescape_char, parser.escape_string, parser.unescape_string,
  prop.vText.to_ical / from_ical, prop.vCategory.to_ical / from_ical.

Each function's strongest postcondition is a rational function; the obligations are equalities / inclusions of
compositions, decided for ALL strings (every length) by vc/fstc, with a shortest counterexample replayed natively:
  (a) codec        vText.from_ical(vText.to_ical(s))                          == N(s)
  (b) property     unescape_char(unescape_string(escape_string(escape_char(s))))  == N(s)
                   (the value path of to_ical -> from_ical of a TEXT property; that the value text is exactly the
                   suffix after the first unquoted colon is C05's line lemma, that folding is undone is C06's)
  (c1) list codec  vCategory.from_ical(vCategory(items).to_ical())            == [N(x) for x in items]
  (c2) list prop.  the same through escape_string / unescape_string           == [N(x) for x in items]
  (d)  shape       escape_char(s) contains no LF and no ';' / ',' that is not preceded by an odd run of backslashes
  N = the documented normalisation: literal backslash-N -> LF, then CRLF -> LF.
Lists are marker-encoded (x1 | x2 | ... | xn with a reserved marker symbol).
Alphabet abstraction (DESIGN.md 4.5): every character the functions compare with, plus two representatives of all others.
"""
from __future__ import annotations

import time

from vc import common
from vc.common import Obligation, Bounded, PROVED, REFUTED, UNDECIDED, ERROR
from vc.fstc import extract, oblig
from vc.fstc import fst as F
from vc.fstc import regex as R

LEVEL = "proof"
PID = "C07"
A0 = ["\\", "n", "N", ";", ",", ":", '"', "%", "2", "C", "3", "A", "B", "5", "\r", "\n", " ", "x", "y"]
M = "\x1f"
A1 = A0 + [M]
NORMALISE = [("\\N", "\n"), ("\r\n", "\n")]


def native_N(s):
    return s.replace("\\N", "\n").replace("\r\n", "\n")


def split_items(s):
    return s.split(M)


class Lazy:
    """extraction on demand: an obligation is undecided only if a function IT needs is outside the fragment"""

    def __init__(self):
        self.p0 = extract.Extractor("parser", A0)
        self.p1 = extract.Extractor("parser", A1, marker=M)
        self.t0 = extract.Extractor("prop", A0, imports={"escape_char": self.p0, "unescape_char": self.p0})
        self.t1 = extract.Extractor("prop", A1, imports={"escape_char": self.p1, "unescape_char": self.p1}, marker=M)
        self.ex = [self.p0, self.p1, self.t0, self.t1]
        self.memo = {}

    def __getitem__(self, k):
        if k not in self.memo:
            self.memo[k] = self.make(k)
        return self.memo[k]

    def make(self, k):
        if k == "esc":
            return self.p0.function("escape_char")
        if k == "unesc":
            return self.p0.function("unescape_char")
        if k == "es":
            return self.p0.function("escape_string")
        if k == "us":
            return self.p0.function("unescape_string")
        if k == "text_to":
            return self.t0.function("vText.to_ical")
        if k == "text_from":
            return self.t0.function("vText.from_ical")
        if k == "es1":
            return self.p1.function("escape_string")
        if k == "us1":
            return self.p1.function("unescape_string")
        if k == "cat_to":
            return extract.join_of_map(self.t1, "vCategory.to_ical", self["text_to"], "cats", M)
        if k == "cat_from":
            return self.t1.function("vCategory.from_ical")
        if k == "N":
            return F.replace_chain(NORMALISE, A0)
        if k == "mapN":
            return F.segmentwise(self["N"], M, A1)
        raise KeyError(k)


def natives():
    import icalendar.parser as P
    from icalendar.prop import vText, vCategory

    def text_codec(s):
        return str(vText.from_ical(vText(s).to_ical().decode("utf-8"))), native_N(s)

    def pipeline(s):
        return P.unescape_char(P.unescape_string(P.escape_string(P.escape_char(s)))), native_N(s)

    def cat_codec(enc):
        items = split_items(enc)
        return M.join(vCategory.from_ical(vCategory(items).to_ical().decode("utf-8"))), M.join(native_N(x) for x in items)

    def cat_pipeline(enc):
        items = split_items(enc)
        wire = P.unescape_string(P.escape_string(vCategory(items).to_ical().decode("utf-8")))
        return M.join(vCategory.from_ical(wire)), M.join(native_N(x) for x in items)
    return {"a": text_codec, "b": pipeline, "c1": cat_codec, "c2": cat_pipeline}


def shape_dfas():
    no_lf = R.dfa_contains_any(["\n"], A0).complement()
    # every ';' and ',' is preceded by an odd run of backslashes: state = parity of the current backslash run

    def step(q, a):
        if q == "bad":
            return "bad"
        if a == "\\":
            return "odd" if q == "even" else "even"
        if a in ";,":
            return "even" if q == "odd" else "bad"
        return "even"
    escaped = R.DFA.from_function(A0, "even", step, lambda q: q != "bad")
    return no_lf, escaped


def show(s):
    return repr(s.replace(M, "|")) if isinstance(s, str) else repr(s)


def run(rep: common.Report):
    findings = common.findings_for(PID)
    rep.trust(
        "engine: vc/fstc (own decision procedure for functional transducers; selftest vs CPython, cross-checks below)",
        "assumed: str.encode('utf-8') / decode / to_unicode are inverse on the text level (surrogate-free text); the utf-8-sig BOM loss "
        "is covered by the bounded stand-in only",
        "alphabet abstraction: the constants of the functions plus two representatives of every other character (DESIGN.md 4.5)",
        "composition lemma: the TEXT value path of a property is escape_char; escape_string; unescape_string; unescape_char (C05/C06)")
    rep.assume("strings are sequences of code points; lone surrogates excluded (encode raises)")
    fs = Lazy()
    nat = natives()
    import icalendar.parser as P

    def attempt(oid, function, thunk):
        try:
            rep.add(thunk())
        except extract.Outside as e:
            rep.add(Obligation(oid, function, "fstc", UNDECIDED, detail=f"outside the fstc fragment: {e}"))
        except NotImplementedError as e:
            rep.add(Obligation(oid, function, "fstc", UNDECIDED, detail=f"outside the fstc fragment (regex): {e}"))
    # translation validation of the extraction: extracted transducer == real function on ALL strings up to a length
    L = 3 if rep.tier == "quick" else 4
    for name, key, native in (("escape_char", "esc", P.escape_char), ("unescape_char", "unesc", P.unescape_char),
                              ("escape_string", "es", P.escape_string), ("unescape_string", "us", P.unescape_string)):
        t = time.time()
        try:
            n, bad = extract.crosscheck(fs[key], native, A0, L)
        except (extract.Outside, NotImplementedError):
            continue
        rep.crosschecks.append({"name": f"extracted transducer of {name} vs the real function", "strings": n, "max_len": L,
                                "ok": bad is None, "first_disagreement": repr(bad), "seconds": round(time.time() - t, 2)})
        if bad is not None:
            rep.error(f"extraction of {name} disagrees with the real function on {bad!r}")
    fn_a = "prop:vText.to_ical/from_ical (parser:escape_char, unescape_char)"
    attempt(f"{PID}.a.codec", fn_a, lambda: oblig.decide_equiv(f"{PID}.a.codec", fn_a, F.compose(fs["text_to"], fs["text_from"]), fs["N"], A0,
                                                              findings, nat["a"], rep.known_seen, show=show))
    fn_b = "parser:escape_char;escape_string;unescape_string;unescape_char"
    attempt(f"{PID}.b.property_pipeline", fn_b, lambda: oblig.decide_equiv(
        f"{PID}.b.property_pipeline", fn_b, F.compose_all([fs["esc"], fs["es"], fs["us"], fs["unesc"]]), fs["N"], A0, findings, nat["b"],
        rep.known_seen, show=show))
    fn_c = "prop:vCategory.to_ical/from_ical"
    attempt(f"{PID}.c1.list_codec", fn_c, lambda: oblig.decide_equiv(
        f"{PID}.c1.list_codec", fn_c, F.compose(fs["cat_to"], fs["cat_from"]), fs["mapN"], A1, findings, nat["c1"], rep.known_seen, show=show))
    fn_c2 = "prop:vCategory through parser:escape_string/unescape_string"
    attempt(f"{PID}.c2.list_property", fn_c2, lambda: oblig.decide_equiv(
        f"{PID}.c2.list_property", fn_c2, F.compose_all([fs["cat_to"], fs["es1"], fs["us1"], fs["cat_from"]]), fs["mapN"], A1, findings,
        nat["c2"], rep.known_seen, show=show))
    no_lf, escaped = shape_dfas()
    attempt(f"{PID}.d.no_line_break", "parser:escape_char", lambda: oblig.decide_image(
        f"{PID}.d.no_line_break", "parser:escape_char", fs["esc"], no_lf, A0, lambda s: (P.escape_char(s), "\n" not in P.escape_char(s))))
    attempt(f"{PID}.d.no_unescaped_separator", "parser:escape_char", lambda: oblig.decide_image(
        f"{PID}.d.no_unescaped_separator", "parser:escape_char", fs["esc"], escaped, A0,
        lambda s: (P.escape_char(s), escaped.accepts(P.escape_char(s)))))
    for ex in fs.ex:
        for u in ex.used:
            rep.functions.add(u.split(" ")[0])
    # the property pipeline runs through the lines layer: the text reaches the parser again only if folding is undone exactly (C06.P4 /
    # P5); C06's obligations are re-run on this tree as a lemma, a refutation there is reported by C06's own check
    from props import C01 as _C01
    for ob in _C01.import_lemmas(rep, rep.tier, plan=[("f", "C06", lambda o: True, "folding undone exactly, lines round trip")], pid=PID):
        rep.add(ob)
    from props import C07_bnd
    b = Bounded("C07.bnd.real_round_trips", "Event.add -> to_ical -> from_ical (SUMMARY, CATEGORIES), vText / vCategory codecs",
                C07_bnd.BOUND[rep.tier])
    t0 = time.time()
    try:
        C07_bnd.run(b, rep.tier, rep.seed, findings, rep.known_seen)
    except Exception as e:  # noqa
        import traceback
        traceback.print_exc()
        b.error = repr(e)
    b.seconds = time.time() - t0
    rep.bounded.append(b)
    rep.explanation = __doc__


def replay(payload: dict) -> int:
    w = payload.get("witness") or {}
    nat = natives()
    oid = payload.get("obligation", "")
    if "input" in w:
        key = "a" if ".a." in oid else "b" if ".b." in oid else "c1" if ".c1." in oid else "c2" if ".c2." in oid else None
        if key:
            got, want = nat[key](w["input"])
            print(f"replay: input {w['input']!r}: real functions {got!r}, statement {want!r}")
            return 1 if got != want else 0
        import icalendar.parser as P
        print("replay: escape_char ->", repr(P.escape_char(w["input"])))
        return 1
    from props import C07_bnd
    msg = C07_bnd.replay_witness(w)
    print("replay:", msg or "no violation on the current tree")
    return 1 if msg else 0
