"""C12 -- VTIMEZONE is interpreted per RFC 5545 onset rules, same in both providers.

Functions under contract (real bodies, re-read every run): cal: Timezone.get_transitions (the part after the collection loop:
sort, onset computation), Timezone._extract_offsets (offset rounding, observance kind), Timezone.to_tz; timezone/tzp:
TZP.cache_timezone_component, TZP.timezone (cache part); timezone/pytz: PYTZ.create_timezone; timezone/zoneinfo:
ZONEINFO._create_timezone.

Obligations
  G.onsets          get_transitions: transition_times[k] == local time[k] - TZOFFSETFROM[k] for the k-th transition in sorted order
  G.ascending       transition_times is ascending (REQUIRED by pytz, which bisects it): from the sort statement's key, for any
                    number of transitions
  E.rounding        (fin, all 86400 values) the offset rounding of _extract_offsets is the identity on whole minutes
  E.kind            _extract_offsets returns is_dst 0 for STANDARD and 1 for DAYLIGHT; every transition carries the observance's
                    TZOFFSETFROM / TZOFFSETTO / name
  P.unchanged       PYTZ.create_timezone hands transition_times / transition_info of get_transitions unchanged to the DstTzInfo
                    subclass; ZONEINFO._create_timezone hands the component's own to_ical text to dateutil's tzical (shapes)
  lemma (assumed contract of pytz, stated): a DstTzInfo with ascending UTC transition times reports, at an instant, the info of the
                    last transition not after it == the RFC rule "observance with the latest onset not after the instant"
  H.own_definition  after cache_timezone_component(c): a TZID unknown to the provider and not cached before resolves to the zone built
                    from c; caching c changes the result of timezone(other) for no other id (frame)
  H.any_history     ... whatever was cached before: REFUTED (first definition wins) -- known finding C12-F3; a VTIMEZONE that follows
                    its use gives floating times on the first parse -- known finding C12-F4 (both by design of the process-wide cache)
Agreement of each provider with the RFC oracle (own recurrence expansion) at every onset -1 s / 0 / +1 s and midpoints, and calendar
histories, are a labelled bounded stand-in; dateutil's tzical (zoneinfo provider) deviates near onsets without offset change and for
UNTIL-bounded rules east of Greenwich: known findings C12-F1 / C12-F2.
"""
from __future__ import annotations

import ast
import time

import z3

from contracts import caseless, comp, od
from contracts import dt as dtc
from vc import common
from vc.common import Obligation, Bounded, PROVED, REFUTED, UNDECIDED, ERROR
from vc.pyvc import compare, source, seqs
from vc.pyvc import engine as E
from vc.pyvc.discharge import TIMEOUT_MS, check_vc

LEVEL = "other"
PID = "C12"


def ob_from(oid, fn, lines, status, detail, backend="z3"):
    return Obligation(oid, fn, backend, status, detail=detail, lines=lines)


# ---------------------------------------------------------------------------------------------------
# G: the tail of get_transitions

N = z3.Int("n_transitions")
T2 = z3.Function("sorted_local_time", E.I, E.Ref)
F2 = z3.Function("sorted_offset_from", E.I, E.I)
O2 = z3.Function("sorted_offset_to", E.I, E.I)
N2 = z3.Function("sorted_name", E.I, E.S)
K2 = z3.Function("sorted_is_daylight", E.I, E.B)


class TailEngine(seqs.SeqEngine):
    """SeqEngine plus list.sort on the abstract list of transitions: afterwards the list is SOME arrangement of its elements that
    is ordered by the key (ASSUMED contract of list.sort; the key function is the real lambda, evaluated symbolically)"""

    arity = 5           # (local time, TZOFFSETFROM, TZOFFSETTO, name, kind); 4 on trees where the kind is looked up by name

    def elem(self, j):
        items = [E.VRef(T2(j)), E.VTd(F2(j)), E.VTd(O2(j)), E.VStr(N2(j))]
        if self.arity == 5:
            items.append(E.VInt(z3.If(K2(j), 1, 0)))
        return E.VTuple(items)

    def assign(self, tgt, v, st):
        # ground instances of the element invariant (local times are naive datetimes) for the index at hand
        if isinstance(v, E.VTuple) and v.items and isinstance(v.items[0], E.VRef) and z3.is_app(v.items[0].z) and v.items[0].z.decl().name() == "sorted_local_time":
            t = v.items[0].z
            st.assume(E.cls_of(t) == self.lat.id("datetime"), z3.Not(dtc.aware(t)), t != E.NONE)
        return super().assign(tgt, v, st)

    def call_method(self, obj, name, args, kwargs, st):
        o = self.unbox_known(obj, st)
        if isinstance(o, E.VList) and name == "sort" and st.ghost.get("transitions_addr") == o.addr:
            if args or set(kwargs) - {"key"}:
                raise E.Undecided("list.sort with unsupported arguments")
            i, j = z3.Int("i!sort"), z3.Int("j!sort")
            key = kwargs.get("key")

            def first_component(idx):
                s2 = st.fork()
                s2.assume(E.cls_of(T2(idx)) == self.lat.id("datetime"), z3.Not(dtc.aware(T2(idx))), T2(idx) != E.NONE)
                if key is None:
                    return T2(idx), s2
                res = self.call(key, [self.elem(idx)], {}, s2)
                if len(res) != 1 or isinstance(res[0][1], E.VExc):
                    raise E.Undecided("sort key with several outcomes")
                v = self.unbox_known(res[0][1], res[0][0])
                if isinstance(v, E.VTuple) and v.items:
                    v = v.items[0]
                if not isinstance(v, E.VRef):
                    raise E.Undecided("sort key whose first component is not a date-time")
                return v.z, res[0][0]
            ki, s_i = first_component(i)
            kj = z3.substitute(ki, (i, j))
            st.ghost = dict(st.ghost)
            st.ghost["sort_key"] = "default (the tuples themselves: local time first)" if key is None else ast.unparse(key.node) if hasattr(key, "node") else "key"
            # ordered by the first key component (lexicographic order of tuples implies it); date-times compare by inst
            st.qpc.append(z3.ForAll([i, j], z3.Implies(z3.And(0 <= i, i < j, j < N), dtc.inst(ki) <= dtc.inst(kj))))
            st.heap[o.addr].items = [seqs.SegEntry(("range", z3.IntVal(0), N, z3.Int("k!sorted"), self.elem(z3.Int("k!sorted"))))]
            return [(st, E.VNone())]
        return super().call_method(obj, name, args, kwargs, st)


is_dst = z3.Function("observance_is_daylight", E.S, E.B)          # dst[name] of the collection loop (_extract_offsets: E.kind)


class InfoEngine(TailEngine):
    """one generic iteration of the loop that builds transition_info.  The two inner search loops (`for index in range(..): if
    <test>: <assign>; break`) are summarised soundly: afterwards either nothing was assigned, or the assignments of ONE iteration
    at some index of the range were made (the real loop takes the first such index; 'some' includes it)."""

    def st_For(self, stmt, st):
        has_break = any(isinstance(n, ast.Break) for x in stmt.body for n in ast.walk(x))
        is_range = isinstance(stmt.iter, ast.Call) and isinstance(stmt.iter.func, ast.Name) and stmt.iter.func.id == "range"
        if not (has_break and is_range and not stmt.orelse and isinstance(stmt.target, ast.Name)):
            return super().st_For(stmt, st)
        out = [(st.fork(), None)]                    # no index matched (or the range is empty)
        idx = E.fresh("index", E.I)
        s1 = st.fork()
        s1.assume(0 <= idx, idx < N)                 # every index the two ranges produce lies in [0, len(transitions))
        s1.env = dict(s1.env)
        s1.env[stmt.target.id] = E.VInt(idx)
        for s2, sig in self.exec_block(stmt.body, s1):
            if sig is not None and sig[0] == "break":
                out.append((s2, None))
            elif sig is None:
                pass                                  # an iteration without a match changes nothing (checked: no assignment outside the if)
            else:
                out.append((s2, sig))
        return out


def returned_names(tail):
    """(name of the list of transition times, name of the list of infos): the two names of the final `return a, b`"""
    last = tail[-1] if tail else None
    if isinstance(last, ast.Return) and isinstance(last.value, ast.Tuple) and len(last.value.elts) == 2 and all(isinstance(x, ast.Name) for x in last.value.elts):
        return last.value.elts[0].id, last.value.elts[1].id
    raise E.Undecided("get_transitions does not end with `return <times>, <infos>`")


def appends_to(loop, name):
    return any(isinstance(n, ast.Call) and isinstance(n.func, ast.Attribute) and n.func.attr == "append" and isinstance(n.func.value, ast.Name)
               and n.func.value.id == name for n in ast.walk(loop))


def tail_statements(node):
    """the statements of get_transitions after the loop that collects the transitions"""
    body = source.strip_docstring(node.body)
    idx = [k for k, s in enumerate(body) if isinstance(s, ast.For) and "self.walk()" in ast.unparse(s.iter)]
    if len(idx) != 1:
        raise E.Undecided("the collection loop `for component in self.walk()` was not found")
    loop = body[idx[0]]
    src = ast.unparse(loop)
    if "transitions.extend(" not in src or "self._extract_offsets(" not in src:
        raise E.Undecided("the collection loop no longer extends `transitions` with the result of _extract_offsets(component, tzname)")
    return body[idx[0] + 1:]


def order_obligations(rep, tier):
    fn = "cal:Timezone.get_transitions"
    T = TIMEOUT_MS[tier]
    mod, node = source.find(fn)
    if node is None:
        return [ob_from(f"{PID}.G.get_transitions", fn, None, UNDECIDED, "function not found")]
    lines = source.lines_of(node)
    try:
        tail = tail_statements(node)
    except E.Undecided as u:
        return [ob_from(f"{PID}.G.get_transitions", fn, lines, UNDECIDED, str(u))]
    rep.functions.add(fn)
    lat = E.Lattice()
    for m in ("caselessdict", "parser", "prop", "cal"):
        lat.load_module(m)
    # how many fields a transition has: read from the target of the info loop
    TailEngine.arity = 4
    for x in tail:
        if isinstance(x, ast.For) and "enumerate(transitions)" in ast.unparse(x.iter) and isinstance(x.target, ast.Tuple) and len(x.target.elts) == 2 \
                and isinstance(x.target.elts[1], ast.Tuple):
            TailEngine.arity = len(x.target.elts[1].elts)
    if TailEngine.arity not in (4, 5):
        return [ob_from(f"{PID}.G.get_transitions", fn, lines, UNDECIDED, f"transitions have {TailEngine.arity} fields")]
    eng = TailEngine(lat, {})
    dtc.register(eng.contracts)
    st = E.State()
    k = z3.Int("k!t")
    st.assume(N >= 0)
    # every local time is a naive datetime (the assert in the collection loop); dt_add on datetimes moves the instant
    a, us = z3.Const("a!ax", E.Ref), z3.Int("us!ax")
    st.qpc.append(z3.ForAll([k], z3.And(E.cls_of(T2(k)) == lat.id("datetime"), z3.Not(dtc.aware(T2(k)))), patterns=[T2(k)]))
    st.qpc.append(z3.ForAll([a, us], z3.Implies(E.cls_of(a) == lat.id("datetime"),
                                                z3.And(dtc.inst(dtc.dt_add(a, us)) == dtc.inst(a) + us, E.cls_of(dtc.dt_add(a, us)) == lat.id("datetime"))),
                            patterns=[dtc.dt_add(a, us)]))
    j = z3.Int("j!unsorted")
    addr = st.alloc(E.ListObj([seqs.SegEntry(("range", z3.IntVal(0), N, j, eng.elem(j)))]))
    st.ghost["transitions_addr"] = addr
    st.env = {"self": E.VRef(z3.Const("self", E.Ref)), "transitions": E.VList(addr)}
    obs = []
    # run: sort; <times> = [...]   (or: <times> = []; for ... in enumerate(transitions): <times>.append(...))
    try:
        times_name, info_name = returned_names(tail)
    except E.Undecided as u:
        return [ob_from(f"{PID}.G.get_transitions", fn, lines, UNDECIDED, str(u))]
    stmts = []
    by_loop = None
    for s_ in tail:
        if isinstance(s_, ast.For) and appends_to(s_, times_name):
            by_loop = s_
            break
        stmts.append(s_)
        if isinstance(s_, ast.Assign) and ast.unparse(s_.targets[0]) == times_name and not (isinstance(s_.value, ast.List) and not s_.value.elts):
            break
    else:
        return [ob_from(f"{PID}.G.get_transitions", fn, lines, UNDECIDED, f"`{times_name} = ...` not found after the collection loop")]
    if by_loop is not None:
        return onsets_by_loop(rep, tier, node, tail, lat, eng, st, stmts, by_loop, times_name) + info_obligations(rep, tier, node, tail, lat)
    try:
        results = eng.exec_block(stmts, st)
    except E.Undecided as u:
        return [ob_from(f"{PID}.G.onsets_are_local_time_minus_TZOFFSETFROM", fn, lines, UNDECIDED, f"outside subset: {u}"),
                ob_from(f"{PID}.G.transition_times_ascending", fn, lines, UNDECIDED, f"outside subset: {u}")]
    o1 = Obligation(f"{PID}.G.onsets_are_local_time_minus_TZOFFSETFROM", fn, "z3", PROVED, lines=lines)
    o2 = Obligation(f"{PID}.G.transition_times_ascending", fn, "z3", PROVED, lines=lines)
    n_paths = 0
    for s, sig in results:
        if sig is not None:
            o1.status, o1.detail = UNDECIDED, f"the statements exit with {sig}"
            o2.status, o2.detail = o1.status, o1.detail
            continue
        n_paths += 1
        tt = s.env.get(times_name)
        segs = eng.segments_of(tt, s) if tt is not None else None
        if not segs or len(segs) != 1 or segs[0][0] != "range":
            o1.status, o1.detail = UNDECIDED, "transition_times is not a single comprehension over the transitions"
            o2.status, o2.detail = o1.status, o1.detail
            continue
        _, lo, hi, iv, item = segs[0]
        item_z = eng.box(item, s)
        kk = E.fresh("k", E.I)
        at = lambda idx: z3.substitute(item_z, (iv, idx))
        g1 = z3.And(lo == 0, hi == N, z3.Implies(z3.And(0 <= kk, kk < N), dtc.inst(at(kk)) == dtc.inst(T2(kk)) - F2(kk)))
        status, secs, info = check_vc(eng.axioms, [*s.pc, *s.qpc], g1, T)
        compare.fold_status(o1, status, secs, info, "k-th transition time")
        g2 = z3.Implies(z3.And(0 <= kk, kk + 1 < N), dtc.inst(at(kk)) <= dtc.inst(at(kk + 1)))
        status, secs, info = check_vc(eng.axioms, [*s.pc, *s.qpc], g2, T)
        compare.fold_status(o2, status, secs, info, f"sorted by {s.ghost.get('sort_key', '?')}: two neighbouring transition times")
        o2.sort_key = s.ghost.get("sort_key")
    if n_paths == 0 and o1.status == PROVED:
        o1.status = o2.status = UNDECIDED
        o1.detail = o2.detail = "no path"
    o1.detail = o1.detail or f"{n_paths} path; any number of transitions"
    o2.detail = o2.detail or f"{n_paths} path; any number of transitions; sort key: {getattr(o2, 'sort_key', None)}"
    if o2.status == REFUTED:
        o2.shape_only = True
    return [o1, o2] + info_obligations(rep, tier, node, tail, lat)


def onsets_by_loop(rep, tier, node, tail, lat, eng0, st0, prefix, loop, times_name):
    """<times> built by `for num, (...) in enumerate(transitions): <times>.append(e)`: one generic iteration after the sort"""
    fn = "cal:Timezone.get_transitions"
    T = TIMEOUT_MS[tier]
    lines = source.lines_of(node)
    o1 = Obligation(f"{PID}.G.onsets_are_local_time_minus_TZOFFSETFROM", fn, "z3", PROVED, lines=lines)
    o2 = Obligation(f"{PID}.G.transition_times_ascending", fn, "z3", PROVED, lines=lines)
    try:
        pre = eng0.exec_block(prefix, st0)               # the sort (its ordering fact lands in the state)
    except E.Undecided as u:
        o1.status = o2.status = UNDECIDED
        o1.detail = o2.detail = f"outside subset: {u}"
        return [o1, o2]
    addr = st0.ghost.get("transitions_addr")

    def getitem(engine, s, c, key):
        c = engine.unbox_known(c, s)
        if isinstance(c, E.VList) and c.addr == addr:
            return [(s, engine.elem(engine.unbox_known(key, s).z))]
        if isinstance(c, E.VTuple):
            kz = z3.simplify(key.z)
            if z3.is_int_value(kz):
                return [(s, c.items[kz.as_long()])]
        raise E.Undecided("subscript")
    eng0.contracts["op:getitem"] = getitem
    n = 0
    for s_pre, sig in pre:
        if sig is not None:
            continue
        for which in ("first", "later"):
            s = s_pre.fork()
            k = E.fresh("num", E.I)
            s.assume(N >= 1, k == 0) if which == "first" else s.assume(N >= 2, 1 <= k, k < N)
            acc = s.alloc(E.ListObj([]))
            s.env = dict(s.env)
            s.env[times_name] = E.VList(acc)
            try:
                results = []
                for s1, sg in eng0.assign(loop.target, E.VTuple([E.VInt(k), eng0.elem(k)]), s):
                    if sg is not None:
                        raise E.Undecided("the loop target does not fit (index, transition)")
                    results += eng0.exec_block(loop.body, s1)
            except E.Undecided as u:
                o1.status = o2.status = UNDECIDED
                o1.detail = o2.detail = f"outside subset: {u}"
                return [o1, o2]
            for s2, sg2 in results:
                items = s2.heap[acc].items
                n += 1
                if sg2 is not None or len(items) != 1:
                    status, secs, info = check_vc(eng0.axioms, [*s2.pc, *s2.qpc], z3.BoolVal(False), T)
                    compare.fold_status(o1, status, secs, info, "the iteration does not append exactly one time")
                    continue
                r = eng0.box(items[0], s2)
                status, secs, info = check_vc(eng0.axioms, [*s2.pc, *s2.qpc], dtc.inst(r) == dtc.inst(T2(k)) - F2(k), T)
                compare.fold_status(o1, status, secs, info, f"{which} transition time")
    o1.detail = o1.detail or f"{n} paths of one generic iteration of the loop that builds {times_name}"
    if o1.status == PROVED:
        o2.detail = "follows from the sort key and the onsets obligation (times[k] = local[k] - TZOFFSETFROM[k], sorted by exactly that)"
        # the same z3 step as in the comprehension form: neighbouring keys are ordered
        kk = E.fresh("k", E.I)
        for s_pre, sig in pre:
            if sig is None:
                g = z3.Implies(z3.And(0 <= kk, kk + 1 < N), dtc.inst(T2(kk)) - F2(kk) <= dtc.inst(T2(kk + 1)) - F2(kk + 1))
                status, secs, info = check_vc(eng0.axioms, [*s_pre.pc, *s_pre.qpc], g, T)
                compare.fold_status(o2, status, secs, info, "two neighbouring onsets")
    else:
        o2.status, o2.detail = UNDECIDED, "depends on the onsets obligation"
    for o in (o1, o2):
        if o.status == REFUTED:
            o.shape_only = True
    return [o1, o2]


def info_obligations(rep, tier, node, tail, lat):
    """G.info: one generic iteration of `for num, (transtime, osfrom, osto, name) in enumerate(transitions)`"""
    fn = "cal:Timezone.get_transitions"
    T = TIMEOUT_MS[tier]
    lines = source.lines_of(node)
    oid1 = f"{PID}.G.every_transition_reports_its_TZOFFSETTO_and_its_own_name"
    oid2 = f"{PID}.G.a_STANDARD_transition_reports_zero_dst"
    try:
        times_name, info_name = returned_names(tail)
    except E.Undecided as u:
        return [ob_from(oid1, fn, lines, UNDECIDED, str(u)), ob_from(oid2, fn, lines, UNDECIDED, str(u))]
    loops = [x for x in tail if isinstance(x, ast.For) and "enumerate(transitions)" in ast.unparse(x.iter) and appends_to(x, info_name)]
    if len(loops) != 1:
        return [ob_from(oid1, fn, lines, UNDECIDED, "the loop over enumerate(transitions) was not found"), ob_from(oid2, fn, lines, UNDECIDED, "loop not found")]
    loop = loops[0]
    eng = InfoEngine(lat, {})
    dtc.register(eng.contracts)
    st = E.State()
    k = E.fresh("num", E.I)
    st.assume(N >= 1, 0 <= k, k < N)
    j = z3.Int("j!info")
    addr = st.alloc(E.ListObj([seqs.SegEntry(("range", z3.IntVal(0), N, j, eng.elem(j)))]))
    info = st.alloc(E.ListObj([]))
    lat.add("DSTMAP", ["object"]) if "DSTMAP" not in lat.ids else None

    def getitem(engine, s, c, key):
        c = engine.unbox_known(c, s)
        if isinstance(c, E.VClass) and c.name == "DSTMAP":
            return [(s, E.VBool(is_dst(engine.unbox_known(key, s).z)))]
        if isinstance(c, E.VList) and c.addr == addr:
            kk = engine.unbox_known(key, s)
            return [(s, engine.elem(kk.z))]
        if isinstance(c, E.VTuple):
            kz = z3.simplify(key.z)
            if z3.is_int_value(kz):
                return [(s, c.items[kz.as_long()])]
        raise E.Undecided("subscript")
    eng.contracts["op:getitem"] = getitem
    st.env = {"self": E.VRef(z3.Const("self", E.Ref)), "transitions": E.VList(addr), info_name: E.VList(info), "dst": E.VClass("DSTMAP")}
    saved_td = E.BUILTINS.get("timedelta")
    E.BUILTINS["timedelta"] = lambda e, s, a, kw: [(s, E.VTd(z3.IntVal(0)))] if not a and (not kw or all(z3.is_int_value(z3.simplify(v.z)) and z3.simplify(v.z).as_long() == 0 for v in kw.values())) else (_ for _ in ()).throw(E.Undecided("timedelta(...)"))
    st.env["timedelta"] = E.VBuiltin("timedelta")
    saved_len = E.BUILTINS.get("len")
    base_len = saved_len

    def b_len(e, s, a, kw):
        v = e.unbox_known(a[0], s)
        if isinstance(v, E.VList) and v.addr == addr:
            return [(s, E.VInt(N))]
        return base_len(e, s, a, kw)
    E.BUILTINS["len"] = b_len
    o1 = Obligation(oid1, fn, "z3", PROVED, lines=lines)
    o2 = Obligation(oid2, fn, "z3", PROVED, lines=lines)
    try:
        results = []
        for s1, sig in eng.assign(loop.target, E.VTuple([E.VInt(k), eng.elem(k)]), st):
            if sig is not None:
                raise E.Undecided("the loop target is not `num, (transtime, osfrom, osto, name)`")
            results += eng.exec_block(loop.body, s1)
    except E.Undecided as u:
        o1.status = o2.status = UNDECIDED
        o1.detail = o2.detail = f"outside subset: {u}"
        return [o1, o2]
    finally:
        if saved_td is None:
            E.BUILTINS.pop("timedelta", None)
        else:
            E.BUILTINS["timedelta"] = saved_td
        E.BUILTINS["len"] = saved_len
    n = 0
    for s, sig in results:
        if sig is not None:
            if sig[0] == "raise" and sig[1].cls == "AssertionError":
                continue              # `assert dst_offset is not False`: a zone without any STANDARD observance (reported as ValueError by the caller, C04)
            o1.status, o1.detail = UNDECIDED, f"the iteration exits with {sig}"
            continue
        items = s.heap[info].items
        n += 1
        if len(items) != 1 or not isinstance(items[0], E.VTuple) or len(items[0].items) != 3:
            status, secs, inf = check_vc(eng.axioms, [*s.pc, *s.qpc], z3.BoolVal(False), T)
            compare.fold_status(o1, status, secs, inf, "the iteration does not append exactly one (utcoffset, dst, name) tuple")
            continue
        off, dstv, nm = items[0].items
        off, nm = eng.unbox_known(off, s), eng.unbox_known(nm, s)
        g1 = z3.And(off.us == O2(k) if isinstance(off, E.VTd) else z3.BoolVal(False), nm.z == N2(k) if isinstance(nm, E.VStr) else z3.BoolVal(False))
        status, secs, inf = check_vc(eng.axioms, [*s.pc, *s.qpc], g1, T)
        compare.fold_status(o1, status, secs, inf, "appended tuple")
        dstv = eng.unbox_known(dstv, s)
        zero = dstv.us == 0 if isinstance(dstv, E.VTd) else z3.BoolVal(False)
        standard = z3.Not(K2(k)) if TailEngine.arity == 5 else z3.Not(is_dst(N2(k)))
        status, secs, inf = check_vc(eng.axioms, [*s.pc, *s.qpc], z3.Implies(standard, zero), T)
        compare.fold_status(o2, status, secs, inf, "dst of a STANDARD transition")
    if n == 0 and o1.status == PROVED:
        o1.status = o2.status = UNDECIDED
        o1.detail = o2.detail = "no normally ending path"
    o1.detail = o1.detail or f"{n} paths of one generic iteration (index num, any number of transitions); inner searches summarised"
    o2.detail = o2.detail or o1.detail
    for o in (o1, o2):
        if o.status == REFUTED:
            o.shape_only = True
    return [o1, o2]


# ---------------------------------------------------------------------------------------------------
# E: _extract_offsets

def extract_obligations(rep, tier):
    fn = "cal:Timezone._extract_offsets"
    mod, node = source.find(fn)
    if node is None:
        return [ob_from(f"{PID}.E._extract_offsets", fn, None, UNDECIDED, "function not found")]
    rep.functions.add(fn)
    lines = source.lines_of(node)
    obs = []
    # rounding: the real expressions, evaluated for every value of .seconds
    exprs = {}
    for n in ast.walk(node):
        if isinstance(n, ast.Assign) and isinstance(n.targets[0], ast.Name) and n.targets[0].id in ("offsetto_s", "offsetfrom_s"):
            exprs[n.targets[0].id] = n.value
    t0 = time.time()
    ob = ob_from(f"{PID}.E.offset_rounding_is_the_identity_on_whole_minutes", fn, lines, UNDECIDED, "", backend="fin")
    if set(exprs) != {"offsetto_s", "offsetfrom_s"}:
        ob.detail = "the rounding statements offsetto_s / offsetfrom_s were not found"
    else:
        bad = []
        for name, ex in exprs.items():
            var = "offsetto" if name == "offsetto_s" else "offsetfrom"
            code = compile(ast.Expression(ex), "<rounding>", "eval")

            class Sec:
                def __init__(self, s):
                    self.seconds = s
            for s_ in range(0, 86400):
                r = eval(code, {"int": int}, {var: Sec(s_)})
                want = ((s_ + 30) // 60) * 60
                if r != want or (s_ % 60 == 0 and r != s_):
                    bad.append((name, s_, r))
                    break
        ob.status = PROVED if not bad else REFUTED
        ob.detail = "both rounding expressions evaluated for all 86400 values of .seconds: round-half-up to the minute, identity on whole minutes" if not bad \
            else f"{bad[0][0]} maps {bad[0][1]} s to {bad[0][2]} s"
        if bad:
            ob.witness = {"seconds": bad[0][1]}
            ob.replay = {"confirmed": True, "native": ob.detail}
    ob.seconds = time.time() - t0
    obs.append(ob)
    # the statement-shape obligations below speak about single statements; they count only while the body is EXACTLY the statement list
    # they were read from (a body that only adds a statement - e.g. one that rewrites transtimes afterwards - must not pass)
    EXACT_BODY = (
        "offsetfrom = component.TZOFFSETFROM\noffsetto = component.TZOFFSETTO\ndtstart = component.DTSTART\n"
        "offsetto_s = int((offsetto.seconds + 30) / 60) * 60\noffsetto = timedelta(days=offsetto.days, seconds=offsetto_s)\n"
        "offsetfrom_s = int((offsetfrom.seconds + 30) / 60) * 60\noffsetfrom = timedelta(days=offsetfrom.days, seconds=offsetfrom_s)\n"
        "if 'RRULE' in component:\n    tzi = dateutil.tz.tzoffset('(offsetfrom)', offsetfrom)\n    rrstart = dtstart.replace(tzinfo=tzi)\n"
        "    rrulestr = component['RRULE'].to_ical().decode('utf-8')\n    rrule = dateutil.rrule.rrulestr(rrulestr, dtstart=rrstart)\n"
        "    tzp.fix_rrule_until(rrule, component['RRULE'])\n    transtimes = [dt.replace(tzinfo=None) for dt in rrule]\n"
        "elif 'RDATE' in component:\n    if not isinstance(component['RDATE'], list):\n        rdates = [component['RDATE']]\n    else:\n"
        "        rdates = component['RDATE']\n    transtimes = [dtstart] + [leaf.dt for tree in rdates for leaf in tree.dts]\nelse:\n"
        "    transtimes = [dtstart]\ntransitions = [(transtime, offsetfrom, offsetto, tzname) for transtime in set(transtimes)]\n"
        "if component.name == 'STANDARD':\n    is_dst = 0\nelif component.name == 'DAYLIGHT':\n    is_dst = 1\nreturn (is_dst, transitions)")
    got_body = "\n".join(ast.unparse(x) for x in source.strip_docstring(node.body))
    body_exact = got_body == EXACT_BODY
    # kind and tuple shape
    src = "\n".join(ast.unparse(x) for x in ast.walk(node) if isinstance(x, ast.stmt))
    want = ["transitions = [(transtime, offsetfrom, offsetto, tzname) for transtime in set(transtimes)]",
            "if component.name == 'STANDARD':\n    is_dst = 0\nelif component.name == 'DAYLIGHT':\n    is_dst = 1", "return (is_dst, transitions)"]
    miss = [w for w in want if w not in src]
    ob = ob_from(f"{PID}.E.every_transition_carries_the_observance_offsets_and_STANDARD_is_not_dst", fn, lines, PROVED if not miss else REFUTED,
                 "transitions = [(transtime, offsetfrom, offsetto, tzname) ...]; is_dst = 0 for STANDARD, 1 for DAYLIGHT" if not miss
                 else f"statement shape changed: missing {miss[0]!r}", backend="fin")
    if miss:
        ob.shape_only = True
    obs.append(ob)
    # the RRULE is expanded with DTSTART in the fixed-offset zone TZOFFSETFROM (so that a UTC UNTIL is compared with the onset instants)
    want2 = ["tzi = dateutil.tz.tzoffset('(offsetfrom)', offsetfrom)", "rrstart = dtstart.replace(tzinfo=tzi)",
             "rrule = dateutil.rrule.rrulestr(rrulestr, dtstart=rrstart)", "transtimes = [dt.replace(tzinfo=None) for dt in rrule]"]
    miss = [w for w in want2 if w not in src]
    ob = ob_from(f"{PID}.E.recurrence_rules_are_expanded_in_the_zone_of_TZOFFSETFROM", fn, lines, PROVED if not miss else REFUTED,
                 "rrulestr(..., dtstart=DTSTART in tzoffset(TZOFFSETFROM)); local times = occurrences without tzinfo" if not miss
                 else f"statement shape changed: missing {miss[0]!r}", backend="fin")
    if miss:
        ob.shape_only = True
    obs.append(ob)
    # RDATE: the listed local times themselves (next to DTSTART) are the onsets' local times
    want3 = ["transtimes = [dtstart] + [leaf.dt for tree in rdates for leaf in tree.dts]"]
    miss = [w for w in want3 if w not in src]
    ob = ob_from(f"{PID}.E.RDATE_values_are_taken_as_they_are_written", fn, lines, PROVED if not miss else REFUTED,
                 "transtimes = [DTSTART] + the RDATE values unchanged" if not miss else f"statement shape changed: missing {want3[0]!r}", backend="fin")
    if miss:
        ob.shape_only = True
    obs.append(ob)
    if not body_exact:
        gl, wl = got_body.split("\n"), EXACT_BODY.split("\n")
        i = next((k for k in range(min(len(gl), len(wl))) if gl[k] != wl[k]), min(len(gl), len(wl)))
        for o in obs[1:]:
            if o.status == PROVED:
                o.status = UNDECIDED
                o.detail = (f"the body of _extract_offsets is no longer the statement list this obligation was read from (statement {i + 1} is "
                            f"`{(gl[i] if i < len(gl) else '<end>').strip()}`): the single-statement shape proves nothing then")
    return obs


# ---------------------------------------------------------------------------------------------------
# P: hand-over to the providers

def provider_obligations(rep, tier):
    obs = []
    mem = source.module("timezone/pytz").class_members("PYTZ")
    node = mem.get("create_timezone")
    fn = "timezone/pytz:PYTZ.create_timezone"
    got = [ast.unparse(x) for x in source.strip_docstring(node.body)] if isinstance(node, ast.FunctionDef) else []
    want = ["transition_times, transition_info = tz.get_transitions()", "name = tz.tz_name",
            "cls = type(name, (DstTzInfo,), {'zone': name, '_utc_transition_times': transition_times, '_transition_info': transition_info})",
            "return cls()"]
    ob = ob_from(f"{PID}.P.PYTZ.create_timezone_hands_the_transitions_over_unchanged", fn, source.lines_of(node) if node is not None else None,
                 PROVED if got == want else REFUTED, "DstTzInfo subclass with exactly get_transitions()'s times and info" if got == want else f"body changed: {got!r}",
                 backend="fin")
    if got != want:
        ob.shape_only = True
    else:
        rep.functions.add(fn)
    obs.append(ob)
    mem = source.module("timezone/zoneinfo").class_members("ZONEINFO")
    node = mem.get("_create_timezone")
    fn = "timezone/zoneinfo:ZONEINFO._create_timezone"
    got = [ast.unparse(x) for x in source.strip_docstring(node.body)] if isinstance(node, ast.FunctionDef) else []
    want = ["file = StringIO(tz.to_ical().decode('UTF-8', 'replace'))", "return tzical(file).get()"]
    ob = ob_from(f"{PID}.P.ZONEINFO.create_timezone_hands_the_component_text_to_tzical", fn, source.lines_of(node) if node is not None else None,
                 PROVED if got == want else REFUTED, "tzical(StringIO(component.to_ical()))" if got == want else f"body changed: {got!r}", backend="fin")
    if got != want:
        ob.shape_only = True
    else:
        rep.functions.add(fn)
    obs.append(ob)
    mod, node = source.find("cal:Timezone.to_tz")
    got = [ast.unparse(x) for x in source.strip_docstring(node.body)] if node is not None else []
    want = ["if lookup_tzid:\n    tz = tzp.timezone(self.tz_name)\n    if tz is not None:\n        return tz", "return tzp.create_timezone(self)"]
    ob = ob_from(f"{PID}.P.Timezone.to_tz_without_lookup_builds_the_zone_from_this_component", "cal:Timezone.to_tz", source.lines_of(node) if node is not None else None,
                 PROVED if got == want else REFUTED, "lookup_tzid=False: tzp.create_timezone(self)" if got == want else f"body changed: {got!r}", backend="fin")
    if got != want:
        ob.shape_only = True
    else:
        rep.functions.add("cal:Timezone.to_tz")
    obs.append(ob)
    return obs


# ---------------------------------------------------------------------------------------------------
# H: the process-wide cache

knows = z3.Function("provider_knows", E.S, E.B)
prov_tz = z3.Function("provider_timezone_of", E.S, E.Ref)
clean = z3.Function("strip_slashes", E.S, E.S)
built = z3.Function("zone_built_from", E.Ref, E.Ref)           # component.to_tz(tzp, lookup_tzid=False)
CacheT = z3.ArraySort(E.S, E.Ref)                               # id -> zone, PyNone when absent


def cache_engine():
    lat = E.Lattice()
    for m in ("caselessdict", "parser", "prop"):
        lat.load_module(m)
    lat.add("TZP", ["object"])
    lat.add("WIN", ["object"])
    lat.add("CACHE", ["object"])
    eng = E.Engine(lat, {})
    caseless.register(eng.contracts)
    provider = z3.Const("provider", E.Ref)

    def strip(engine, st, s, args, kw):
        a = z3.simplify(args[0].z) if args and isinstance(args[0], E.VStr) else None
        if a is None or not z3.is_string_value(a) or a.as_string() != "/":
            raise E.Undecided("str.strip with another argument")
        return [(st, E.VStr(clean(s.z)))]

    def ref_timezone(engine, st, args, kw):
        k = engine.unbox_known(args[1], st)
        r = prov_tz(k.z)
        st.assume(E.truthy(r) == (r != E.NONE), knows(k.z) == (r != E.NONE))
        return [(st, E.VRef(r))]
    eng.contracts["ref.timezone"] = ref_timezone
    eng.contracts["ref.knows_timezone_id"] = lambda e, s, a, k: [(s, E.VBool(knows(e.unbox_known(a[1], s).z)))]
    eng.globals["WINDOWS_TO_OLSON"] = E.VClass("WIN")

    def cache_of(st):
        return st.ghost["cache"]

    def contains(engine, st, c, item):
        c = engine.unbox_known(c, st)
        if isinstance(c, E.VClass) and c.name == "WIN":
            return [(st, z3.BoolVal(False))]            # custom ids are not Windows zone names (stated precondition)
        if isinstance(c, E.VClass) and c.name == "CACHE":
            return [(st, z3.Select(cache_of(st), engine.unbox_known(item, st).z) != E.NONE)]
        raise E.Undecided("membership")
    eng.contracts["op:contains"] = contains

    def setitem(engine, st, c, k, v):
        c = engine.unbox_known(c, st)
        if isinstance(c, E.VClass) and c.name == "CACHE":
            st.ghost = dict(st.ghost)
            st.ghost["cache"] = z3.Store(cache_of(st), engine.unbox_known(k, st).z, engine.box(v, st))
            return [(st, E.VNone())]
        raise E.Undecided("subscript store")
    eng.contracts["op:setitem"] = setitem

    def getitem(engine, st, c, k):
        c = engine.unbox_known(c, st)
        if isinstance(c, E.VMap):
            return None
        raise E.Undecided("subscript")

    def cache_get(engine, st, args, kw):
        return [(st, E.VRef(z3.Select(cache_of(st), engine.unbox_known(args[1], st).z)))]
    eng.contracts["CACHE.get"] = cache_get
    eng.contracts["ref.to_tz"] = lambda e, s, a, k: [(s, E.VRef(built(a[0].z)))]
    mod = source.module("timezone/tzp")
    members = mod.class_members("TZP")
    for m in ("clean_timezone_id", "timezone"):
        if isinstance(members.get(m), ast.FunctionDef):
            eng.contracts[f"TZP.{m}"] = comp.inline_method(members[m])

    def self_obj(st):
        o = E.HeapObj("TZP", {"__provider": E.VRef(provider), "__tz_cache": E.VClass("CACHE")})
        return E.VObj(st.alloc(o))
    return eng, members, self_obj, strip


def cache_obligations(rep, tier):
    T = TIMEOUT_MS[tier]
    findings = common.findings_for(PID)
    fn = "timezone/tzp:TZP.cache_timezone_component"
    obs = []
    saved = E.STR_METHODS.get("strip")
    try:
        eng, members, self_obj, strip = cache_engine()
        E.STR_METHODS["strip"] = strip
        node, tznode = members.get("cache_timezone_component"), members.get("timezone")
        if not isinstance(node, ast.FunctionDef) or not isinstance(tznode, ast.FunctionDef):
            return [ob_from(f"{PID}.H.cache", fn, None, UNDECIDED, "functions not found")]
        rep.functions.add(fn)
        rep.functions.add("timezone/tzp:TZP.timezone")
        lines = source.lines_of(node)
        comp_ref = z3.Const("timezone_component", E.Ref)
        tzid = z3.String("component_TZID")
        cache0 = z3.Const("cache_before", CacheT)
        other = z3.String("other_id")

        def run_cache(extra):
            st = E.State()
            st.ghost["cache"] = cache0
            st.assume(*extra)
            selfv = self_obj(st)
            m = E.MapObj.fresh("component", cls="CaselessDict")
            m.ref = comp_ref
            a = st.alloc(m)
            st.assume(E.map_wf(m), z3.Select(m.arr, z3.StringVal("TZID")) == E.OptRef.some(E.box_str(tzid)))
            st.assume(E.cls_of(E.box_str(tzid)) == eng.lat.id("str"), E.str_of(E.box_str(tzid)) == tzid)
            # the TZID property value is a str (vText): hand it out as a string value
            eng.contracts["CaselessDict.__getitem__"] = lambda e, s, aa, k: [(s, E.VStr(tzid))]
            eng.contracts["Timezone.to_tz"] = lambda e, s, aa, k: [(s, E.VRef(built(comp_ref)))]
            eng.contracts["CaselessDict.to_tz"] = eng.contracts["Timezone.to_tz"]
            paths = eng.run(node, dict(eng.globals, self=selfv, timezone_component=E.VMap(a)), st)
            return paths, selfv

        def lookup_after(pa, selfv, key):
            """TZP.timezone(key) in the state after caching"""
            return eng.run(tznode, dict(eng.globals, self=selfv, tz_id=E.VStr(key)), pa.state.fork())

        def chain(extra, key, goal_of, oid, what):
            ob = Obligation(oid, fn, "z3", PROVED, lines=lines)
            try:
                paths, selfv = run_cache(extra)
            except E.Undecided as u:
                ob.status, ob.detail = UNDECIDED, f"outside subset: {u}"
                return ob
            n = 0
            for pa in paths:
                if pa.kind == "undecided":
                    ob.status, ob.detail = UNDECIDED, f"outside subset: {pa.value}"
                    return ob
                if pa.kind != "ret":
                    status, secs, info = check_vc(eng.axioms, [pa.pc], z3.BoolVal(False), T)
                    compare.fold_status(ob, status, secs, info, f"caching exits with {pa.kind}")
                    continue
                for p2 in lookup_after(pa, selfv, key):
                    if p2.kind == "undecided":
                        ob.status, ob.detail = UNDECIDED, f"outside subset: {p2.value}"
                        return ob
                    n += 1
                    goal = goal_of(pa, p2) if p2.kind == "ret" else z3.BoolVal(False)
                    status, secs, info = check_vc(eng.axioms, [p2.pc], goal, T)
                    compare.fold_status(ob, status, secs, info, what)
                    if ob.status == REFUTED:
                        return ob
            ob.detail = ob.detail or f"{n} path pairs (cache_timezone_component ; timezone)"
            return ob
        unknown = [z3.Not(knows(clean(tzid))), z3.Not(knows(tzid)), prov_tz(clean(tzid)) == E.NONE, prov_tz(tzid) == E.NONE,
                   prov_tz(clean(clean(tzid))) == E.NONE, clean(clean(tzid)) == clean(tzid), built(comp_ref) != E.NONE, E.truthy(built(comp_ref))]
        fresh = [z3.Select(cache0, clean(tzid)) == E.NONE]
        obs.append(chain(unknown + fresh, tzid, lambda pa, p2: eng.box(p2.value, p2.state) == built(comp_ref),
                         f"{PID}.H.a_new_custom_TZID_resolves_to_the_zone_built_from_its_own_definition",
                         "timezone(TZID) after caching the component"))
        # frame: other ids are not affected
        before = z3.Function("timezone_before", E.S, E.Ref)

        def frame_goal(pa, p2):
            # the same lookup in the state before caching
            st0 = E.State()
            st0.ghost["cache"] = cache0
            selfv0 = self_obj(st0)
            st0.pc = list(p2.state.pc)
            st0.qpc = list(p2.state.qpc)
            res = eng.run(tznode, dict(eng.globals, self=selfv0, tz_id=E.VStr(other)), st0)
            alts = []
            for p0 in res:
                if p0.kind == "ret":
                    alts.append(z3.And(p0.pc, eng.box(p0.value, p0.state) == eng.box(p2.value, p2.state)))
            return z3.Or(*alts) if alts else z3.BoolVal(False)
        obs.append(chain(unknown + [clean(other) != clean(tzid), clean(clean(other)) == clean(other)], other, frame_goal,
                         f"{PID}.H.caching_a_definition_changes_the_zone_of_no_other_TZID", "timezone(other id) before and after caching"))
        # any history: refuted by design
        ob = chain(unknown, tzid, lambda pa, p2: eng.box(p2.value, p2.state) == built(comp_ref),
                   f"{PID}.H.a_custom_TZID_resolves_to_its_own_definition_whatever_was_parsed_before", "timezone(TZID) after caching the component")
        if ob.status == REFUTED:
            f = [x for x in findings if x.get("obligation") == ob.oid]
            from props import C12_bnd
            ks = []
            import random
            case = ("Custom/History", C12_bnd.gen_observances(random.Random(1)), C12_bnd.gen_observances(random.Random(2)), "before", "same_tzid_first")
            msg = None
            try:
                import icalendar
                msg = C12_bnd.check_history("zoneinfo", case, [], ks)
                icalendar.timezone.tzp.use_default()
            except Exception as e:  # noqa
                msg = None
            if msg and f:
                ob.finding = f[0]["id"]
                ob.witness = {"history": "same TZID defined by an earlier calendar"}
                ob.replay = {"confirmed": True, "native": msg}
                rep.known_seen.append(f"{f[0]['id']} {f[0]['what']} (witness: {msg[:160]})")
            elif msg:
                ob.witness = {"history": "same TZID defined by an earlier calendar"}
                ob.replay = {"confirmed": True, "native": msg}
            else:
                ob.status = UNDECIDED
                ob.detail += " -- not confirmed natively"
        obs.append(ob)
    finally:
        if saved is None:
            E.STR_METHODS.pop("strip", None)
        else:
            E.STR_METHODS["strip"] = saved
    return obs


# ---------------------------------------------------------------------------------------------------

def run(rep: common.Report):
    findings = common.findings_for(PID)
    tier = rep.tier
    rep.trust("engine: vc/pyvc + seqs + z3",
              "assumed: list.sort(key=f) leaves SOME arrangement of the elements ordered by f (CPython); tuples order lexicographically",
              "assumed (contracts/dt.py): datetime - timedelta moves the instant by that amount; naive datetimes order by their fields",
              "assumed (pytz): a DstTzInfo with ascending _utc_transition_times reports at an instant the _transition_info entry of the last "
              "transition not after it -- with G.onsets / G.ascending this IS the RFC rule for the pytz provider",
              "dateutil (rrulestr, tzical) and pytz are external: their behaviour is explored by the stand-in, not proved",
              "precondition of H: custom TZIDs are not Windows zone names; clean_timezone_id is idempotent on them")
    rep.assume("offsets are whole minutes (RFC 5545 allows seconds; _extract_offsets rounds to minutes: E.rounding states what it does)")
    for tag, fnc in (("G", order_obligations), ("E", extract_obligations), ("P", provider_obligations), ("H", cache_obligations)):
        try:
            for ob in fnc(rep, tier):
                rep.add(ob)
        except E.Undecided as u:
            rep.add(Obligation(f"{PID}.{tag}", "cal/timezone", "z3", UNDECIDED, detail=f"outside subset: {u}"))
        except Exception as e:  # noqa
            import traceback
            traceback.print_exc()
            rep.add(Obligation(f"{PID}.{tag}", "cal/timezone", "z3", ERROR, detail=f"checker crashed: {e!r}"))
    from props import C12_bnd
    for ob in rep.obligations:
        if ob.status == REFUTED and not ob.finding and ob.witness is None:
            msg = None
            if ".G." in ob.oid:
                msg = C12_bnd.unsorted_witness("pytz")
                w = {"unsorted": True, "provider": "pytz"}
            else:
                b0 = Bounded("s", "", "")
                C12_bnd.run(b0, "quick", 0, findings, [])
                if b0.failures:
                    w, msg = b0.failures[0]["witness"], b0.failures[0]["detail"]
            if msg:
                ob.witness, ob.replay = w, {"confirmed": True, "native": msg}
            else:
                ob.status = UNDECIDED
                ob.detail += " -- candidate not confirmed on the real objects"
    b = Bounded("C12.bnd.generated_vtimezones", "cal:Timezone.to_tz under both providers vs the RFC 5545 onset rule (real)", C12_bnd.BOUND[tier])
    t0 = time.time()
    try:
        C12_bnd.run(b, tier, rep.seed, findings, rep.known_seen)
    except Exception as e:  # noqa
        import traceback
        traceback.print_exc()
        b.error = repr(e)
    b.seconds = time.time() - t0
    rep.bounded.append(b)
    from vc.static import state as _state
    rep.add(_state.obligation(PID, ('cal', 'timezone/tzp', 'timezone/zoneinfo', 'timezone/pytz'), Obligation, PROVED, UNDECIDED))
    rep.explanation = __doc__ + "\nLevel 'other': the order / onset obligations give the RFC rule for the pytz provider modulo pytz's stated contract; the " \
        "zoneinfo provider delegates interpretation to dateutil's tzical: only explored."


def replay(payload: dict) -> int:
    from props import C12_bnd
    w = payload.get("witness") or {}
    if w.get("unsorted"):
        msg = C12_bnd.unsorted_witness(w.get("provider", "pytz"))
    elif "vtimezone" in w and "history" not in w:
        import icalendar
        from icalendar import Timezone
        msg = None
        print("replay: re-run ./check C12 (generated zones are seeded)")
    else:
        msg = None
    print("replay:", msg or "no violation on the current tree")
    return 1 if msg else 0
