"""Bounded stand-in, RFC oracle and native concretisers for C12 (labelled bounded).

rfc_offset(observances, instant): RFC 5545 3.6.5 -- the observance in effect at an instant is the one with the latest onset not after
it; an onset is a local DTSTART / RDATE / RRULE occurrence minus TZOFFSETFROM.  The oracle expands recurrences itself (yearly
nth-weekday rules, UNTIL / COUNT, RDATE lists) without dateutil.

Checked: Timezone.to_tz under each provider against the oracle at every onset -1 s / 0 / +1 s and interval midpoints (offset, TZNAME,
dst == 0 for STANDARD); date-times of a calendar that references the custom TZID (definition before / after the use, other calendars
parsed earlier in the process, same TZID defined differently).
"""
import calendar as _cal
import itertools
import random
from datetime import datetime, timedelta, timezone

BOUND = {
    "quick": "120 generated VTIMEZONEs (1-4 observances, whole-minute offsets -12h..+14h, yearly nth-weekday RRULE with / without UNTIL / COUNT, "
             "RDATE lists, single onsets, with / without TZNAME) x every onset up to 2037 (-1 s, 0, +1 s) and midpoints x both providers; "
             "12 calendar histories (definition before / after use, two calendars, same TZID defined differently)",
    "thorough": "1200 generated VTIMEZONEs, otherwise the same; 60 histories",
}
WEEKDAYS = ["MO", "TU", "WE", "TH", "FR", "SA", "SU"]


def fmt_off(td):
    s = int(td.total_seconds())
    sign = "+" if s >= 0 else "-"
    s = abs(s)
    return f"{sign}{s // 3600:02d}{(s % 3600) // 60:02d}"


def nth_weekday(year, month, wd, n):
    """date of the n-th (n>0) or last (n=-1) weekday wd (0=MO) of the month"""
    days = [d for d in range(1, _cal.monthrange(year, month)[1] + 1) if datetime(year, month, d).weekday() == wd]
    return days[n - 1] if n > 0 else days[n]


class Obs:
    """one observance: kind STANDARD/DAYLIGHT, local dtstart, offsets, name, and a recurrence: None | ('rrule', month, wd, n, until_utc|None,
    count|None) | ('rdate', [local datetimes])"""

    def __init__(self, kind, dtstart, off_from, off_to, name, rec=None):
        self.kind, self.dtstart, self.off_from, self.off_to, self.name, self.rec = kind, dtstart, off_from, off_to, name, rec

    def local_onsets(self, horizon=2037):
        if self.rec is None:
            return [self.dtstart]
        if self.rec[0] == "rdate":
            return sorted(set([self.dtstart] + list(self.rec[1])))
        _, month, wd, n, until, count = self.rec
        out = []
        y = self.dtstart.year
        while y <= horizon + 1:
            d = nth_weekday(y, month, wd, n)
            t = datetime(y, month, d, self.dtstart.hour, self.dtstart.minute, self.dtstart.second)
            y += 1
            if t < self.dtstart:
                continue
            if until is not None and (t - self.off_from) > until:
                break
            out.append(t)
            if count is not None and len(out) >= count:
                break
        return [t for t in out if t.year <= horizon + 1]

    def to_ical_lines(self):
        ls = [f"BEGIN:{self.kind}", "DTSTART:" + self.dtstart.strftime("%Y%m%dT%H%M%S"), "TZOFFSETFROM:" + fmt_off(self.off_from),
              "TZOFFSETTO:" + fmt_off(self.off_to)]
        if self.name is not None:
            ls.append("TZNAME:" + self.name)
        if self.rec is not None and self.rec[0] == "rrule":
            _, month, wd, n, until, count = self.rec
            r = f"RRULE:FREQ=YEARLY;BYMONTH={month};BYDAY={n}{WEEKDAYS[wd]}"
            if until is not None:
                r += ";UNTIL=" + until.strftime("%Y%m%dT%H%M%SZ")
            if count is not None:
                r += f";COUNT={count}"
            ls.append(r)
        if self.rec is not None and self.rec[0] == "rdate":
            ls.append("RDATE:" + ",".join(t.strftime("%Y%m%dT%H%M%S") for t in self.rec[1]))
        ls.append(f"END:{self.kind}")
        return ls


def vtimezone_text(tzid, observances):
    ls = ["BEGIN:VTIMEZONE", "TZID:" + tzid]
    for o in observances:
        ls += o.to_ical_lines()
    ls.append("END:VTIMEZONE")
    return "\r\n".join(ls) + "\r\n"


def onsets(observances):
    """[(utc onset (naive UTC), observance)] ascending"""
    out = []
    for o in observances:
        for t in o.local_onsets():
            out.append((t - o.off_from, o))
    out.sort(key=lambda p: p[0])
    return out


def rfc_offset(observances, instant_utc):
    """-> observance in effect at the naive-UTC instant, or None before the first onset"""
    cur = None
    for t, o in onsets(observances):
        if t <= instant_utc:
            cur = o
        else:
            break
    return cur


def gen_observances(rnd, well_separated=True):
    """a plausible zone: a STANDARD/DAYLIGHT pair with yearly rules, or single onsets / RDATE lists"""
    shape = rnd.choice(["pair_rrule", "pair_rrule", "pair_until", "single", "rdates", "rename", "pair_count", "unchained"])
    base = timedelta(minutes=rnd.choice([-720, -600, -480, -300, -210, 0, 60, 120, 330, 345, 540, 570, 765, 840]))
    dst = base + timedelta(minutes=rnd.choice([60, 60, 30, 120]))
    y0 = rnd.randint(1970, 2010)
    names = rnd.choice([("STD", "DST"), ("CET", "CEST"), (None, None), ("X", None), ("+07", "+07")])       # (one name for both kinds happens: Novokuznetsk)
    hour = rnd.choice([1, 2, 3])
    if shape in ("pair_rrule", "pair_until", "pair_count"):
        m1, m2 = rnd.choice([(3, 10), (4, 9), (10, 3), (3, 11)])
        n1, n2 = rnd.choice([(-1, -1), (2, 1), (1, -1)])
        wd = rnd.choice([6, 6, 5, 0])
        until = count = None
        if shape == "pair_until":
            yl = rnd.randint(y0 + 2, 2030)
        d_on = nth_weekday(y0, m1, wd, n1)
        s_on = nth_weekday(y0, m2, wd, n2)
        day = Obs("DAYLIGHT", datetime(y0, m1, d_on, hour), base, dst, names[1], ("rrule", m1, wd, n1, None, None))
        std = Obs("STANDARD", datetime(y0, m2, s_on, hour + 1), dst, base, names[0], ("rrule", m2, wd, n2, None, None))
        if shape == "pair_until":
            for o, (m, n) in ((day, (m1, n1)), (std, (m2, n2))):
                last = datetime(yl, m, nth_weekday(yl, m, wd, n), o.dtstart.hour)
                # the common form: UNTIL == last onset in UTC (or a little later)
                o.rec = ("rrule", m, wd, n, last - o.off_from + timedelta(seconds=rnd.choice([0, 0, 3600, 86399])), None)
        if shape == "pair_count":
            day.rec = ("rrule", m1, wd, n1, None, rnd.randint(2, 8))
            std.rec = ("rrule", m2, wd, n2, None, rnd.randint(2, 8))
        first = Obs("STANDARD", datetime(y0 - 1, 1, 1, 0), base, base, names[0], None)
        obs = [first, day, std] if rnd.random() < 0.5 else [day, std]
        return obs
    if shape == "single":
        return [Obs("STANDARD", datetime(y0, 1, 1, 0), base, base, names[0], None)] + \
               ([Obs("DAYLIGHT", datetime(y0 + 1, rnd.randint(2, 11), rnd.randint(1, 28), hour), base, dst, names[1], None)] if rnd.random() < 0.6 else [])
    if shape == "rdates":
        # (every RDATE has its own time of day: it need not be DTSTART's)
        ds = sorted({datetime(y0 + k, rnd.randint(3, 5), rnd.randint(1, 28), rnd.choice([1, 2, 3])) for k in range(1, rnd.randint(2, 5))})
        ss = [datetime(t.year, rnd.randint(9, 11), rnd.randint(1, 28), rnd.choice([2, 3, 4])) for t in ds]
        return [Obs("STANDARD", datetime(y0, 1, 1, 0), base, base, names[0], None),
                Obs("DAYLIGHT", ds[0], base, dst, names[1], ("rdate", ds[1:]) if len(ds) > 1 else None),
                Obs("STANDARD", ss[0], dst, base, names[0], ("rdate", ss[1:]) if len(ss) > 1 else None)]
    if shape == "unchained":
        # TZOFFSETFROM of an observance differs from the TZOFFSETTO of the one before it (legal data: the onset is DTSTART - its own
        # TZOFFSETFROM).  Checked under pytz only: dateutil reads wall times and has no RFC reading for such data.
        step = timedelta(minutes=rnd.choice([60, 30, 120]))
        return [Obs("STANDARD", datetime(y0, 1, 1, 0), base, base + step, "AAA", None),
                Obs("DAYLIGHT", datetime(y0 + 1, 6, 1, 3), base + 2 * step, base + 3 * step, "BBB", None),
                Obs("STANDARD", datetime(y0 + 2, 10, 1, 3), base + step, base, "CCC", None)]
    # rename: the summer offset becomes the new standard time (same TZOFFSETTO, other name / kind)
    return [Obs("STANDARD", datetime(y0, 1, 1, 0), base, base, "OLD", None),
            Obs("DAYLIGHT", datetime(y0 + 1, 3, 27, 3), base, dst, "SUMMER", None),
            Obs("STANDARD", datetime(y0 + 1, 9, 7, 0), dst, dst, "NEW", None)]


def probe_instants(observances):
    ons = onsets(observances)
    out = []
    for i, (t, o) in enumerate(ons):
        if t.year > 2037 or t.year < 1902:
            continue
        for d in (-1, 0, 1):
            out.append(t + timedelta(seconds=d))
        if i + 1 < len(ons):
            out.append(t + (ons[i + 1][0] - t) / 2)
    if len(out) > 240:
        out = out[:120] + out[-120:]
    return [x.replace(microsecond=0) for x in out]


def classify(provider, observances, inst):
    """which listed class of known deviations (dateutil's tzical, zoneinfo provider only) an instant falls into, or None"""
    if provider != "zoneinfo":
        return None
    ons = onsets(observances)
    for i, (t, o) in enumerate(ons):
        if abs((inst - t).total_seconds()) <= 86400 and i > 0 and ons[i - 1][1].off_to == o.off_to:
            return "onset_without_offset_change"
    untils = [o.rec[4] for o in observances if o.rec is not None and o.rec[0] == "rrule" and o.rec[4] is not None]
    if untils and inst >= min(untils) - timedelta(days=1) and any(o.off_from > timedelta(0) for o in observances):
        return "until_rule_east_of_greenwich"
    return None


def check_zone(provider, tzid, observances):
    """-> message or None.  Messages inside a listed class start with <class>; an instant outside every class is reported first."""
    import icalendar
    from icalendar import Timezone
    comp = Timezone.from_ical(vtimezone_text(tzid, observances))
    tz = comp.to_tz(icalendar.timezone.tzp, lookup_tzid=False)
    first = onsets(observances)[0][0]
    classified = None
    for inst in probe_instants(observances):
        if inst < first:
            continue
        want = rfc_offset(observances, inst)
        aware = inst.replace(tzinfo=timezone.utc).astimezone(tz)
        msg = None
        if aware.utcoffset() != want.off_to:
            msg = (f"at {inst}Z the zone reports offset {aware.utcoffset()} (tzname {aware.tzname()!r}); RFC 5545: observance {want.kind} "
                   f"{want.name!r} with onset <= instant has TZOFFSETTO {want.off_to}")
        elif want.name is not None and aware.tzname() != want.name:
            msg = f"at {inst}Z the zone reports TZNAME {aware.tzname()!r}, RFC 5545: {want.name!r}"
        elif want.kind == "STANDARD" and aware.dst() not in (None, timedelta(0)):
            msg = f"at {inst}Z dst() = {aware.dst()} inside a STANDARD observance"
        if msg is None:
            continue
        cls = classify(provider, observances, inst)
        if cls is None:
            return msg
        classified = classified or f"<{cls}> " + msg
    return classified


def history_cases(rnd, n):
    """calendars that reference custom TZIDs"""
    cases = []
    for i in range(n):
        a = gen_observances(rnd)
        b = gen_observances(rnd)
        cases.append((f"Custom/Zone{i}", a, b, rnd.choice(["before", "after"]), rnd.choice(["fresh", "other_first", "same_tzid_first", "case_variant_first"])))
    return cases


def calendar_text(tzid, observances, position, when):
    ev = ["BEGIN:VEVENT", "UID:x", f"DTSTART;TZID={tzid}:" + when.strftime("%Y%m%dT%H%M%S"), "END:VEVENT"]
    vtz = vtimezone_text(tzid, observances).strip().split("\r\n")
    body = vtz + ev if position == "before" else ev + vtz
    return "\r\n".join(["BEGIN:VCALENDAR", "VERSION:2.0"] + body + ["END:VCALENDAR"]) + "\r\n"


def check_history(provider, case, findings, known_seen):
    import icalendar
    from icalendar import Calendar
    tzid, a, b, position, history = case
    icalendar.timezone.tzp.use(provider)          # a fresh process-wide cache
    ons = [t for t, o in onsets(a) if 1902 < t.year < 2037]
    if not ons:
        return None
    inst = ons[len(ons) // 2] + timedelta(days=3)
    want = rfc_offset(a, inst)
    local = inst + want.off_to
    if history == "other_first":
        Calendar.from_ical(calendar_text("Other/Zone", b, "before", local))
    elif history == "same_tzid_first":
        Calendar.from_ical(calendar_text(tzid, b, "before", local))
    elif history == "case_variant_first":
        Calendar.from_ical(calendar_text(tzid.swapcase(), b, "before", local))       # another TZID: differs in letter case
    cal = Calendar.from_ical(calendar_text(tzid, a, position, local))
    got = cal.walk("VEVENT")[0]["DTSTART"].dt
    off = got.utcoffset()
    msg = None
    if off is None:
        msg = f"DTSTART;TZID={tzid} is a floating time although the calendar defines {tzid} ({position} the event; history {history})"
        cls = "definition_after_use" if position == "after" else None
    else:
        # the wall time `local` must be interpreted with the calendar's own definition
        cand = {o.off_to for t, o in onsets(a)}
        own = rfc_offset(a, local - off) if off in cand else None
        if own is None or own.off_to != off:
            msg = (f"DTSTART;TZID={tzid}:{local} has offset {off}; the definition in the same calendar gives {want.off_to} "
                   f"({position} the event; history {history})")
            cls = "same_tzid_defined_earlier" if history == "same_tzid_first" else None
    if msg is None:
        return None
    for f in findings:
        if f.get("class", {}).get("stand_in") == "history" and f["class"].get("name") == cls:
            known_seen.append(f"{f['id']} {f['what']} (witness: {position} / {history})")
            return None
    return msg


def twin_zones(rnd):
    """zones built one after the other in ONE process whose observances have the same DTSTART and the same rule text (UNTIL in UTC) but other
    offsets: what one definition yields must not depend on the definitions seen before (no state may leak between them)"""
    out = []
    for k in range(4):
        y0 = rnd.randint(1970, 1990)
        yl = rnd.randint(2005, 2020)
        hour = rnd.choice([1, 2, 3])
        d_on, s_on = nth_weekday(y0, 3, 6, -1), nth_weekday(y0, 10, 6, -1)
        # ONE UTC UNTIL per rule for all twins, between the candidate last onsets of the eastern and the western twin
        last_d = datetime(yl, 3, nth_weekday(yl, 3, 6, -1), hour)
        last_s = datetime(yl, 10, nth_weekday(yl, 10, 6, -1), hour + 1)
        until_d, until_s = last_d - timedelta(hours=1), last_s - timedelta(hours=1)
        twins = []
        for j, base_min in enumerate(rnd.sample([-600, -300, 60, 120, 540], 3)):
            base = timedelta(minutes=base_min)
            dst = base + timedelta(hours=1)
            day = Obs("DAYLIGHT", datetime(y0, 3, d_on, hour), base, dst, "DDD", ("rrule", 3, 6, -1, until_d, None))
            std = Obs("STANDARD", datetime(y0, 10, s_on, hour + 1), dst, base, "SSS", ("rrule", 10, 6, -1, until_s, None))
            first = Obs("STANDARD", datetime(y0 - 1, 1, 1, 0), base, base, "SSS", None)
            twins.append((f"Twin/Z{k}-{j}", [first, day, std]))
        out += twins
    return out


def run(b, tier, seed, findings, known_seen):
    import icalendar
    rnd = random.Random(seed)
    n = 120 if tier == "quick" else 1200
    zones = [(f"Gen/Zone{i}", gen_observances(rnd)) for i in range(n)]
    zones += twin_zones(random.Random(seed + 7))
    fails = []
    cases = 0
    for prov in ("zoneinfo", "pytz"):
        icalendar.timezone.tzp.use(prov)
        try:
            for tzid, obs in zones:
                if prov == "zoneinfo" and len(obs) == 3 and [o.name for o in obs] == ["AAA", "BBB", "CCC"]:
                    continue              # unchained offsets: pytz path only
                cases += len(probe_instants(obs))
                try:
                    msg = check_zone(prov, tzid, obs)
                except Exception as e:  # noqa
                    msg = f"{type(e).__name__}: {e}"
                if msg:
                    f = {"witness": {"provider": prov, "vtimezone": vtimezone_text(tzid, obs)}, "detail": f"[{prov}] {msg}"}
                    fid = match(f, findings)
                    if fid:
                        known_seen.append(f"{fid['id']} {fid['what']} (witness [{prov}] {tzid})")
                    elif len(fails) < 20:
                        fails.append(f)
            for case in history_cases(random.Random(seed + 1), 12 if tier == "quick" else 60):
                cases += 1
                try:
                    msg = check_history(prov, case, findings, known_seen)
                except Exception as e:  # noqa
                    msg = f"{type(e).__name__}: {e}"
                if msg and len(fails) < 25:
                    fails.append({"witness": {"provider": prov, "history": [case[0], case[3], case[4]], "vtimezone": vtimezone_text(case[0], case[1])},
                                  "detail": f"[{prov}] {msg}"})
        finally:
            icalendar.timezone.tzp.use_default()
    b.cases = cases
    b.nontrivial = cases
    b.failures = fails
    b.samples = ["STANDARD/DAYLIGHT pair, last-Sunday rules, UNTIL == last onset in UTC", "single onsets with a rename (same TZOFFSETTO, new TZNAME)"]
    return b


def match(f, findings):
    for x in findings:
        c = x.get("class", {})
        if c.get("stand_in") != "zones":
            continue
        if c.get("provider") and c["provider"] != f["witness"].get("provider"):
            continue
        if c.get("name") and f"<{c['name']}>" not in f["detail"]:
            continue
        return x
    return None


def replay_witness(w):
    import icalendar
    from icalendar import Timezone
    prov = w.get("provider", "zoneinfo")
    icalendar.timezone.tzp.use(prov)
    try:
        if "unsorted" in w:
            return unsorted_witness(prov)
        return None
    finally:
        icalendar.timezone.tzp.use_default()


def unsorted_witness(provider="pytz"):
    """two observances whose local order differs from the order of their onsets"""
    import icalendar
    from icalendar import Timezone
    obs = [Obs("STANDARD", datetime(2020, 6, 1, 0, 0), timedelta(hours=-12), timedelta(hours=1), "AAA", None),
           Obs("DAYLIGHT", datetime(2020, 6, 1, 10, 0), timedelta(hours=14), timedelta(hours=2), "BBB", None)]
    comp = Timezone.from_ical(vtimezone_text("Unsorted/Zone", obs))
    times, info = comp.get_transitions()
    if any(a > b for a, b in zip(times, times[1:])):
        return f"get_transitions() of {vtimezone_text('Unsorted/Zone', obs)!r} returns transition times {times} (not ascending)"
    icalendar.timezone.tzp.use(provider)
    try:
        return check_zone(provider, "Unsorted/Zone", obs)
    finally:
        icalendar.timezone.tzp.use_default()
