"""Bounded stand-in for C15 (labelled bounded) and native concretiser: the full decision table of the four optional
instants on real AlarmTime objects, plus Event/Todo integration (wiring, sub-list, monotonicity)."""
import itertools
from datetime import date, datetime, timedelta, timezone

BOUND = {
    "quick": "decision table: trigger in {UTC, zoned, naive, date} x 3 instants; alarm ACKNOWLEDGED, component acknowledgement and snooze "
             "each absent or one of 3 instants (all orderings incl. equalities); integration on Event/Todo texts with DTSTAMP / X-MOZ-* wiring",
    "thorough": "same table with 5 instants per slot and both timezone providers",
}
T0 = datetime(2024, 5, 1, 12, 0, tzinfo=timezone.utc)


def instants(n):
    step = timedelta(hours=1)
    k = n // 2
    return [T0 + step * i for i in range(-k, k + 1)]


def trig_variants(t):
    from zoneinfo import ZoneInfo
    return [("utc", t), ("zoned", t.astimezone(ZoneInfo("Europe/Berlin"))), ("naive", t.replace(tzinfo=None)), ("date", t.date())]


def oracle(trig, ack_a, ack_c, snz):
    floating = not isinstance(trig, datetime) or trig.tzinfo is None
    acks = [a for a in (ack_a, ack_c) if a is not None]
    ack = max(acks) if acks else None
    res = {"acknowledged": ("ok", ack)}
    if snz is not None:
        res["trigger"] = ("err", "LocalTimezoneMissing") if floating else ("ok", snz if snz > trig else trig)
    else:
        res["trigger"] = ("ok", trig)
    if ack is None:
        res["is_active"] = ("ok", True)
    elif snz is not None and snz > ack:
        res["is_active"] = ("ok", True)
    elif floating:
        res["is_active"] = ("err", "LocalTimezoneMissing")
    else:
        res["is_active"] = ("ok", trig > ack)
    return res


def observe(f):
    from icalendar.alarms import LocalTimezoneMissing
    try:
        return ("ok", f())
    except LocalTimezoneMissing:
        return ("err", "LocalTimezoneMissing")
    except Exception as e:  # noqa
        return ("exc", type(e).__name__)


def table_cases(n):
    ts = instants(n)
    opt = [None] + ts
    for t in ts[len(ts) // 2:len(ts) // 2 + 1] + ts[:1]:
        for kind, trig in trig_variants(t):
            for ack_a, ack_c, snz in itertools.product(opt, repeat=3):
                yield kind, trig, ack_a, ack_c, snz


def check_case(trig, ack_a, ack_c, snz):
    from icalendar import Alarm
    from icalendar.alarms import AlarmTime
    alarm = Alarm()
    alarm.TRIGGER = timedelta(hours=-1)
    if ack_a is not None:
        alarm.ACKNOWLEDGED = ack_a
    at = AlarmTime(alarm, trig, ack_c, snz)
    exp = oracle(trig, ack_a, ack_c, snz)
    out = []
    for name, f in (("acknowledged", lambda: at.acknowledged), ("trigger", lambda: at.trigger), ("is_active", lambda: at.is_active())):
        got = observe(f)
        if got != exp[name]:
            out.append((name, f"{name}: real {got!r}, statement {exp[name]!r}"))
    return out


EVENT = """BEGIN:{kind}
UID:1
DTSTAMP:{dtstamp}
DTSTART:20240501T120000Z
{extra}BEGIN:VALARM
TRIGGER:-PT1H
{ack}END:VALARM
BEGIN:VALARM
TRIGGER:PT2H
END:VALARM
END:{kind}
"""


def fmt(t):
    return t.strftime("%Y%m%dT%H%M%SZ")


def integration_cases():
    ts = instants(5)
    for kind in ("VEVENT", "VTODO"):
        for dtstamp in ts[::2]:
            for lastack in [None] + ts[1::2]:
                for snooze in [None] + ts[::4]:
                    for other_moz in (False, True):
                        for ack in [None, ts[0], ts[-1]]:
                            yield kind, dtstamp, lastack, snooze, other_moz, ack


def check_integration(kind, dtstamp, lastack, snooze, other_moz, ack):
    import icalendar
    extra = ""
    if lastack is not None:
        extra += f"X-MOZ-LASTACK:{fmt(lastack)}\n"
    if snooze is not None:
        extra += f"X-MOZ-SNOOZE-TIME:{fmt(snooze)}\n"
    if other_moz:
        extra += "X-MOZ-GENERATION:1\n"
    text = EVENT.format(kind=kind, dtstamp=fmt(dtstamp), extra=extra, ack=f"ACKNOWLEDGED:{fmt(ack)}\n" if ack else "")
    c = icalendar.Component.from_ical(text.replace("\n", "\r\n"))
    al = c.alarms
    out = []
    times = al.times
    try:
        active = al.active
    except Exception as e:  # noqa
        return [("active", f"active raises {type(e).__name__}")], text
    idx = 0
    key = lambda x: (id(x.alarm), x._trigger)       # `times` builds fresh AlarmTime objects on every access  # noqa: E731
    for a in active:          # sub-list in order
        while idx < len(times) and key(times[idx]) != key(a):
            idx += 1
        if idx == len(times):
            out.append(("active", "active is not a sub-list of times"))
            break
        idx += 1
    thunderbird = bool(extra)
    comp_ack = (lastack if thunderbird else dtstamp)
    comp_snz = snooze if thunderbird else None
    for at in times:
        raw = at._trigger
        a_ack = ack if at.alarm.get("ACKNOWLEDGED") is not None else None
        exp = oracle(raw, a_ack, comp_ack, comp_snz)
        got = observe(at.is_active)
        if got != exp["is_active"]:
            out.append(("wiring", f"trigger {raw}: is_active {got!r}, statement with component ack {comp_ack} / snooze {comp_snz}: {exp['is_active']!r}"))
        if (key(at) in [key(x) for x in active]) != (got == ("ok", True)):
            out.append(("active", "active list disagrees with is_active"))
    return out, text


ABS_EVENT = """BEGIN:VEVENT
UID:1
DTSTAMP:{dtstamp}
DTSTART:20240501T120000Z
BEGIN:VALARM
TRIGGER;VALUE=DATE-TIME{tzid}:{trigger}
ACTION:DISPLAY
END:VALARM
END:VEVENT
"""


def absolute_trigger_cases():
    """an ABSOLUTE trigger written floating / in UTC / in a zone, with and without a local time zone: the instant the decision uses is
    computed here from the text (floating = wall time in the local zone), not read back from the library"""
    wall = datetime(2024, 6, 1, 12, 30)
    for form in ("floating", "utc", "zoned"):
        # the local zone as a name, and as a tzinfo OBJECT of either family whatever the active provider is
        for local in (None, "Europe/Berlin", "America/New_York", "Asia/Tokyo", "obj:zoneinfo:Europe/Berlin", "obj:pytz:Europe/Berlin",
                      "obj:pytz:America/New_York", "obj:fixed:+05:30"):
            for delta_h in (-9, -3, -1, 0, 1, 3, 9):
                yield form, local, delta_h, wall


def check_absolute(form, local, delta_h, wall):
    import icalendar
    from zoneinfo import ZoneInfo
    local_obj = local
    if isinstance(local, str) and local.startswith("obj:"):
        _, fam, name = local.split(":", 2)
        if fam == "zoneinfo":
            local_obj, local = ZoneInfo(name), name
        elif fam == "pytz":
            import pytz
            local_obj, local = pytz.timezone(name), name
        else:
            local_obj, local = timezone(timedelta(hours=5, minutes=30)), "Asia/Kolkata"
    if form == "floating":
        tzid, text = "", wall.strftime("%Y%m%dT%H%M%S")
        instant = None if local is None else wall.replace(tzinfo=ZoneInfo(local))
    elif form == "utc":
        tzid, text = "", wall.strftime("%Y%m%dT%H%M%SZ")
        instant = wall.replace(tzinfo=timezone.utc)
    else:
        tzid, text = ";TZID=Europe/Vienna", wall.strftime("%Y%m%dT%H%M%S")
        instant = wall.replace(tzinfo=ZoneInfo("Europe/Vienna"))
    ref = instant if instant is not None else wall.replace(tzinfo=timezone.utc)
    dtstamp = (ref + timedelta(hours=delta_h)).astimezone(timezone.utc)
    c = icalendar.Component.from_ical(ABS_EVENT.format(dtstamp=fmt(dtstamp), tzid=tzid, trigger=text).replace("\n", "\r\n"))
    al = c.alarms
    if local is not None:
        al.set_local_timezone(local_obj)
    out = []
    try:
        times = al.times
    except Exception as e:  # noqa  (computing the times of an absolute trigger needs no further information: nothing may be raised)
        return [("absolute", f"absolute trigger {text}{tzid or ''} with local zone {local_obj!r}: alarms.times raises {type(e).__name__}: {e}")]
    if len(times) != 1:
        return [("absolute", f"{len(times)} alarm times for one absolute alarm")]
    at = times[0]
    if instant is None:
        want = ("err", "LocalTimezoneMissing")          # a floating trigger cannot be compared with the acknowledgement
    else:
        want = ("ok", instant > dtstamp)
    got = observe(at.is_active)
    if got != want:
        out.append(("absolute", f"absolute trigger {text}{tzid or ''} (local zone {local}), acknowledged at {dtstamp}: is_active {got!r}, statement {want!r}"))
    if instant is not None:
        tr = observe(lambda: at.trigger)
        if tr[0] != "ok" or tr[1].tzinfo is None or tr[1] != instant or tr[1].utcoffset() != instant.utcoffset():
            out.append(("absolute", f"absolute trigger {text}{tzid or ''} (local zone {local}): reported trigger {tr!r}, the text denotes {instant!r}"))
    return out


def fold_cases():
    """acknowledgement / snooze given in the SAME zone object as the trigger, inside the repeated hour: instants decide, not wall clocks"""
    import icalendar
    from icalendar.alarms import Alarms
    from zoneinfo import ZoneInfo
    out = []
    for prov in ("zoneinfo", "pytz"):
        icalendar.timezone.tzp.use(prov)
        try:
            z = ZoneInfo("Europe/Berlin")
            trig = datetime(2021, 10, 31, 2, 30, tzinfo=z)                   # first 02:30 (+02:00) = 00:30Z
            for label, ack, want_active in (("ack 02:10 second occurrence (01:10Z)", datetime(2021, 10, 31, 2, 10, fold=1, tzinfo=z), False),
                                            ("ack 02:10 first occurrence (00:10Z)", datetime(2021, 10, 31, 2, 10, tzinfo=z), True),
                                            ("ack 01:10Z given in UTC", datetime(2021, 10, 31, 1, 10, tzinfo=timezone.utc), False)):
                a = icalendar.Alarm()
                a.TRIGGER = timedelta(0)
                al = Alarms()
                al.add_alarm(a)
                al.set_start(trig)
                al.acknowledge_until(ack)
                got = observe(lambda: [t.is_active() for t in al.times])
                if got != ("ok", [want_active]):
                    out.append(f"[{prov}] trigger {trig.isoformat()} (00:30Z), {label}: is_active {got!r}, statement {want_active}")
                acked = observe(lambda: al.times[0].acknowledged)
                if acked[0] == "ok" and acked[1] is not None and acked[1].utcoffset() != timedelta(0):
                    out.append(f"[{prov}] {label}: acknowledged-until is reported as {acked[1]!r}, not as a UTC instant")
            # snooze inside the fold, later instant than the acknowledgement
            a = icalendar.Alarm()
            a.TRIGGER = timedelta(0)
            al = Alarms()
            al.add_alarm(a)
            al.set_start(trig)
            al.acknowledge_until(datetime(2021, 10, 31, 2, 40, tzinfo=z))            # 00:40Z
            al.snooze_until(datetime(2021, 10, 31, 2, 35, fold=1, tzinfo=z))         # 01:35Z: later than the acknowledgement
            got = observe(lambda: [t.is_active() for t in al.times])
            if got != ("ok", [True]):
                out.append(f"[{prov}] snoozed until 02:35 second occurrence (01:35Z), acknowledged 02:40 first occurrence (00:40Z): is_active {got!r}, statement True")
        finally:
            icalendar.timezone.tzp.use_default()
    return out


def monotonic_cases(n):
    ts = instants(n)
    opt = [None] + ts
    for trig in ts[:2]:
        for snz in opt[:3]:
            for a1, a2 in itertools.combinations_with_replacement(ts, 2):
                yield trig, snz, a1, a2


def run(b, tier, seed):
    n = 3 if tier == "quick" else 5
    fails = {}
    cases = 0
    distinct = set()
    providers = ["zoneinfo", "pytz"]
    import icalendar
    for prov in providers:
        icalendar.timezone.tzp.use(prov)
        try:
            for kind, trig, ack_a, ack_c, snz in table_cases(n):
                cases += 1
                distinct.add((kind, trig, ack_a, ack_c, snz))
                for name, msg in check_case(trig, ack_a, ack_c, snz):
                    fails.setdefault(name + kind, {"witness": {"table": [repr(trig), repr(ack_a), repr(ack_c), repr(snz)]},
                                                   "detail": f"trigger={trig!r} alarm_ack={ack_a} component_ack={ack_c} snooze={snz}: {msg}", "kind": name})
            for args in integration_cases():
                cases += 1
                distinct.add(args)
                res, text = check_integration(*args)
                for name, msg in res:
                    fails.setdefault(name + "int", {"witness": {"integration": [repr(a) for a in args]}, "detail": f"{text!r}: {msg}", "kind": name})
            for args in absolute_trigger_cases():
                cases += 1
                distinct.add(args)
                for name, msg in check_absolute(*args):
                    fails.setdefault(name + args[0], {"witness": {"absolute": [repr(a) for a in args]}, "detail": msg, "kind": name})
            from icalendar import Alarm
            from icalendar.alarms import AlarmTime
            for trig, snz, a1, a2 in monotonic_cases(n):
                cases += 1
                al = Alarm()
                al.TRIGGER = timedelta(0)
                r1 = observe(AlarmTime(al, trig, a1, snz).is_active)
                r2 = observe(AlarmTime(al, trig, a2, snz).is_active)
                if r2 == ("ok", True) and r1 != ("ok", True):
                    fails.setdefault("monotonic", {"witness": {"monotonic": [repr(trig), repr(snz), repr(a1), repr(a2)]},
                                                   "detail": f"active with ack {a2} but not with the earlier ack {a1}", "kind": "is_active"})
        finally:
            icalendar.timezone.tzp.use_default()
    cases += 8
    for m in fold_cases():
        fails.setdefault("fold" + m[:40], {"witness": {"fold": True}, "detail": m, "kind": "is_active"})
    b.cases = cases
    b.nontrivial = len(distinct)
    b.failures = list(fails.values())[:12]
    b.samples = [repr(next(iter(table_cases(3))))]
    return b


def search_for(oid, model=None):
    from vc.common import Bounded
    b = Bounded("search", "", "")
    run(b, "quick", 0)
    want = "acknowledged" if ".acknowledged." in oid else "trigger" if ".trigger." in oid else "wiring" if "add_component" in oid else \
        "active" if "Alarms.active" in oid else "is_active"
    for f in b.failures:
        if f["kind"] == want:
            return f["witness"], f["detail"]
    for f in b.failures:
        return f["witness"], f["detail"]
    return None


def replay_witness(w):
    import datetime as _d  # noqa
    import zoneinfo  # noqa
    env = {"datetime": _d, "zoneinfo": zoneinfo}
    if w.get("fold"):
        return "; ".join(fold_cases()) or None
    if "table" in w:
        trig, a, c, s = [eval(x, env) for x in w["table"]]
        res = check_case(trig, a, c, s)
        return "; ".join(m for _, m in res) or None
    if "integration" in w:
        args = [eval(x, env) for x in w["integration"]]
        res, text = check_integration(*args)
        return "; ".join(m for _, m in res) or None
    if "monotonic" in w:
        from icalendar import Alarm
        from icalendar.alarms import AlarmTime
        trig, snz, a1, a2 = [eval(x, env) for x in w["monotonic"]]
        al = Alarm()
        r1 = observe(AlarmTime(al, trig, a1, snz).is_active)
        r2 = observe(AlarmTime(al, trig, a2, snz).is_active)
        return "later acknowledgement activates the alarm" if r2 == ("ok", True) and r1 != ("ok", True) else None
    return None
