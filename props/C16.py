"""C16 -- start/end/duration of events and todos obey RFC rules after any edit history.

Functions under contract (real bodies re-read from /repo/src/icalendar/cal.py on every run):
  create_single_property.{p_get,p_set,p_del}  (instantiated for every descriptor found in the class bodies),
  _get_duration / _set_duration / _del_duration, Event/Todo._get_start_end_duration, start/end/duration getters and
  setters, Journal.start/end/duration, tools.is_date.

Obligations
  helper contracts (derived from the code, proved against the bodies):   <descriptor>.fget/fset/fdel.same_as_spec
  statement level (taken from the property statement):
    <Cls>.<mutator>.excl_preserved     not (END in self and DURATION in self) is preserved by every setter/deleter
                                       from every state that satisfies it  => holds in every reachable state
    <Cls>.<mutator>.effect             the set property is present with the value, every other member of the exclusive
                                       group is absent, all other keys unchanged (whole-view postcondition)
    <Cls>.duration.is_end_minus_start  duration == end - start (same state)
    <Cls>.end.start_plus_DURATION      DURATION set and no END property  => end == start + DURATION
    <Cls>.end.default                  only a start: end == start + 1 day for a date, == start for a date-time
    <Cls>.{start,end,duration}.raises_only_documented   only InvalidCalendar / IncompleteComponent, for EVERY state of
                                       the map (lists, wrong value classes, both END and DURATION, ...)
Callers see callees only through contracts (descriptor specs, CaselessDict contracts proved in C17, assumed
date arithmetic in contracts/dt.py); `_get_start_end_duration` and `is_date` are inlined (listed).
"""
from __future__ import annotations

import time

import z3

from contracts import comp, dt, caseless
from vc import common
from vc.common import Obligation, Bounded, PROVED, REFUTED, UNDECIDED, ERROR
from vc.pyvc import compare, source
from vc.pyvc import engine as E
from vc.pyvc.discharge import TIMEOUT_MS, check_unsat

LEVEL = "proof"
PID = "C16"
T0 = z3.Int("T0")
DOCUMENTED = ["InvalidCalendar", "IncompleteComponent"]
END = {"Event": "DTEND", "Todo": "DUE"}


def make_engine():
    lat = E.Lattice()
    for m in ("caselessdict", "parser", "prop", "cal", "alarms"):
        lat.load_module(m)
    eng = E.Engine(lat, {})
    classes = comp.Classes("cal")
    comp.install(eng, classes)
    dt.register(eng.contracts)
    tools = source.module("tools")
    eng.globals["is_date"] = E.VFunc(tools.functions["is_date"], eng.globals, None, "is_date")
    eng.globals["to_unicode"] = E.VBuiltin("to_unicode")
    E.BUILTINS["to_unicode"] = E.to_unicode_contract
    for fn in ("_get_duration", "_set_duration", "_del_duration"):
        if fn in classes.mod.functions:
            eng.globals[fn] = E.VFunc(classes.mod.functions[fn], eng.globals, None, fn)
    return eng, classes


def comp_state(eng, cls, tag="old"):
    st = E.State()
    st.now = T0
    m = E.MapObj.fresh(tag, cls=cls)
    addr = st.alloc(m)
    st.assume(E.map_wf(m, now=T0))
    return st, addr


def K(s):
    return z3.StringVal(s)


def present(m, name):
    return E.map_present(m, K(name))


def value_param(name="value"):
    return E.VRef(z3.Const(name, E.Ref))


def type_invariant(eng, m, cls):
    """Stored values come from add / parse / the setters: instances of value classes or lists of them -- never raw
    Python dates / timedeltas (item assignment of raw values is outside the stated quantifier)."""
    L = eng.lat
    raw = ["date", "timedelta", "time", "tuple", "int", "str", "NoneType", "float"]
    hyps = []
    for name in ("DTSTART", "DURATION", END.get(cls, "DTEND")):
        r = E.OptRef.val(m.arr[K(name)])
        hyps.append(z3.Implies(present(m, name), z3.Not(L.isinstance_z(r, raw))))
        # class invariants of the value classes (their constructors): vDDDTypes.dt is a datetime/date/timedelta/time/
        # tuple, vDuration.td is a timedelta
        hyps.append(z3.Implies(z3.And(present(m, name), L.isinstance_z(r, ["vDDDTypes"])),
                               z3.And(eng.has_attr_z(r, "dt"), L.isinstance_z(eng.attr_z(r, "dt"), comp.ALLOWED_DDD))))
        hyps.append(z3.Implies(z3.And(present(m, name), L.isinstance_z(r, ["vDuration"])),
                               z3.And(eng.has_attr_z(r, "td"), L.isinstance_z(eng.attr_z(r, "td"), ["timedelta"]))))
    return hyps


def closure_env(eng, classes, d: comp.Descriptor):
    """The closure of one create_single_property(...) instantiation, rebuilt from the real call's arguments."""
    mod, outer = source.find("cal:create_single_property")
    env = dict(eng.globals)
    env.update({"prop": E.VStr(z3.StringVal(d.prop)),
                "value_attr": E.VNone() if d.value_attr is None else E.VStr(z3.StringVal(d.value_attr)),
                "value_type": E.VTuple([E.VClass(n) for n in d.value_type]), "vProp": E.VClass(d.vProp)})
    nodes = {}
    for n in ("p_get", "p_set", "p_del"):
        node = source.nested(outer, n) if outer is not None else None
        nodes[n] = node
        if node is not None:
            env[n] = E.VFunc(node, env, None, n)
    return env, nodes


def run_real(eng, node, env_extra, st):
    env = dict(env_extra)
    return eng.run(node, env, st)


def spec_paths(results):
    return [E.Path(s, "raise" if isinstance(v, E.VExc) else "ret", v) for s, v in results]


# ---------------------------------------------------------------------------------------------------

def descriptor_obligations(eng, classes, cls, name, tier):
    """closure bodies == the descriptor contracts that callers use"""
    d = classes.member(eng.lat, cls, name)
    obs = []
    tmo = TIMEOUT_MS[tier]
    if d is None or d.kind != "single":
        return [Obligation(f"{PID}.{cls}.{name}.descriptor", f"cal:{cls}.{name}", "z3", UNDECIDED,
                           detail="descriptor is no longer a create_single_property instantiation")]
    env, nodes = closure_env(eng, classes, d)
    fn = "cal:create_single_property"
    for slot, nname, spec in (("fget", "p_get", comp.spec_p_get(d)), ("fset", "p_set", comp.spec_p_set(d, classes)),
                              ("fdel", "p_del", comp.spec_p_del(d))):
        node = nodes[nname]
        oid = f"{PID}.{cls}.{name}.{slot}.same_as_spec"
        if node is None:
            obs.append(Obligation(oid, f"{fn}.{nname}", "z3", UNDECIDED, detail="closure not found"))
            continue
        st, addr = comp_state(eng, cls)
        st2, addr2 = comp_state(eng, cls)
        e = dict(env)
        e["self"] = E.VMap(addr)
        args2 = [E.VMap(addr2)]
        if slot == "fset":
            e["value"] = value_param()
            args2.append(value_param())
        try:
            impl = eng.run(node, e, st)
            sp = spec_paths(spec(eng, st2, args2, {}))
        except E.Undecided as u:
            obs.append(Obligation(oid, f"{fn}.{nname}", "z3", UNDECIDED, detail=str(u), lines=source.lines_of(node)))
            continue
        obs.append(compare.same_as(eng, oid, f"{fn}.{nname}[{cls}.{name}]", source.lines_of(node), impl, sp,
                                   [(addr, addr2)], tmo))
    return obs


def duration_fn_obligations(eng, classes, cls, tier):
    obs = []
    tmo = TIMEOUT_MS[tier]
    for fname, spec, has_value in (("_get_duration", comp.spec_get_duration, False), ("_set_duration", comp.spec_set_duration, True),
                                   ("_del_duration", comp.spec_del_duration, False)):
        node = classes.mod.functions.get(fname)
        oid = f"{PID}.{cls}.{fname}.same_as_spec"
        if node is None:
            obs.append(Obligation(oid, f"cal:{fname}", "z3", UNDECIDED, detail="function not found"))
            continue
        st, addr = comp_state(eng, cls)
        st2, addr2 = comp_state(eng, cls)
        e = dict(eng.globals)
        e["self"] = E.VMap(addr)
        args2 = [E.VMap(addr2)]
        if has_value:
            e["value"] = value_param()
            args2.append(value_param())
        try:
            impl = eng.run(node, e, st)
            sp = spec_paths(spec(eng, st2, args2, {}))
        except E.Undecided as u:
            obs.append(Obligation(oid, f"cal:{fname}", "z3", UNDECIDED, detail=str(u)))
            continue
        obs.append(compare.same_as(eng, oid, f"cal:{fname}[{cls}]", source.lines_of(node), impl, sp, [(addr, addr2)], tmo))
    return obs


def excl(m, cls):
    return z3.Not(z3.And(present(m, END[cls]), present(m, "DURATION")))


def mutator_obligations(eng, classes, cls, tier):
    """Every setter / deleter preserves `not (END and DURATION)`; whole-view effect of the setters."""
    tmo = TIMEOUT_MS[tier]
    obs = []
    end = END[cls]
    muts = [("DTSTART", "fset"), ("DTSTART", "fdel"), (end, "fset"), (end, "fdel"), ("DURATION", "fset"), ("DURATION", "fdel"),
            ("start", "fset"), ("end", "fset")]
    for name, slot in muts:
        oid = f"{PID}.{cls}.{name}.{slot}"
        st, addr = comp_state(eng, cls)
        m0 = E.MapObj.fresh("old", cls=cls)
        # no assumption on the initial state: the effect clauses hold from EVERY state (also states with both END and
        # DURATION produced by add / parse); Excl-preservation is then the special case of an Excl initial state
        selfv = E.VMap(addr)
        value = value_param()
        L = eng.lat
        try:
            d = classes.member(eng.lat, cls, name)
            if d is None:
                raise E.Undecided(f"{cls}.{name} not found")
            # run the REAL top-level function: closure body, module-level function or property def
            if d.kind == "single":
                env, nodes = closure_env(eng, classes, d)
                node = nodes[{"fset": "p_set", "fdel": "p_del"}[slot]]
                e = dict(env)
            elif d.kind == "property_fns":
                fn = {"fset": d.fset, "fdel": d.fdel}[slot]
                node = classes.mod.functions[fn]
                e = dict(eng.globals)
            else:
                node = {"fset": d.fset, "fdel": d.fdel}[slot]
                e = dict(eng.globals)
                if node is None:
                    raise E.Undecided(f"{cls}.{name} has no {slot}")
            params = [a.arg for a in node.args.args]
            e[params[0]] = selfv
            if len(params) > 1:
                e[params[1]] = value
            paths = eng.run(node, e, st)
        except E.Undecided as u:
            obs.append(Obligation(oid + ".excl_preserved", f"cal:{cls}.{name}", "z3", UNDECIDED, detail=str(u)))
            continue
        lines = source.lines_of(node)
        fnname = f"cal:{cls}.{name}.{slot}"
        obs.append(compare.ensures(eng, oid + ".excl_preserved", fnname, lines, paths,
                                   lambda pa: z3.Implies(excl(m0, cls), excl(pa.state.heap[addr], cls)), tmo, kinds=("ret", "raise")))
        obs.append(compare.ensures(eng, oid + ".wf_preserved", fnname, lines, paths,
                                   lambda pa: E.map_wf(pa.state.heap[addr]), tmo, kinds=("ret", "raise")))
        if slot == "fset":
            target = {"start": "DTSTART", "end": end}.get(name, name)
            # _set_duration removes DTEND and DUE whatever the component kind (derived from the code; harmless for the statement)
            group = ["DTEND", "DUE", "DURATION"] if target == "DURATION" else ([end, "DURATION"] if target == end else [])
            vtypes = ["timedelta"] if target == "DURATION" else ["date"]

            def effect(pa, target=target, group=group, vtypes=vtypes):
                m1 = pa.state.heap[addr]
                isnone = value.z == E.NONE
                stored = E.OptRef.val(m1.arr[K(target)])
                attr = "td" if target == "DURATION" else "dt"
                # expected whole view: old view with target := stored object, other group members removed
                exp_arr = z3.Store(m0.arr, K(target), E.OptRef.some(stored))
                for o in group:
                    if o != target:
                        exp_arr = z3.Store(exp_arr, K(o), E.OptRef.none)
                set_ok = z3.And(present(m1, target), eng.has_attr_z(stored, attr), eng.attr_z(stored, attr) == value.z,
                                m1.arr == exp_arr)
                del_ok = m1.arr == z3.Store(m0.arr, K(target), E.OptRef.none)
                return z3.If(isnone, del_ok, z3.Implies(L.isinstance_z(value.z, vtypes), set_ok))
            obs.append(compare.ensures(eng, oid + ".effect", fnname, lines, paths, effect, tmo))
            obs.append(compare.raises_only(eng, oid + ".raises_only_TypeError", fnname, lines, paths, ["TypeError"], tmo))
    return obs


# known findings: classes of states, as hypotheses that exclude them
def finding_classes(eng, m, cls):
    L = eng.lat
    end = END[cls]

    def val(name):
        r = E.OptRef.val(m.arr[K(name)])
        return z3.If(eng.has_attr_z(r, "dt"), eng.attr_z(r, "dt"), r)
    s, e_ = val("DTSTART"), val(end)
    return {
        "naive-aware-mix": z3.And(present(m, "DTSTART"), present(m, end), L.isinstance_z(s, ["datetime"]),
                                  L.isinstance_z(e_, ["datetime"]), dt.aware(s) != dt.aware(e_)),
    }


def getter_obligations(eng, classes, cls, tier, findings):
    tmo = TIMEOUT_MS[tier]
    obs = []
    end = END[cls]
    results = {}
    for name in ("start", "end", "duration"):
        d = classes.member(eng.lat, cls, name)
        oid = f"{PID}.{cls}.{name}"
        if d is None or d.kind != "property_def":
            obs.append(Obligation(oid + ".raises_only_documented", f"cal:{cls}.{name}", "z3", UNDECIDED, detail="property not found"))
            continue
        st, addr = comp_state(eng, cls)
        m0 = E.MapObj.fresh("old", cls=cls)
        st.assume(*type_invariant(eng, m0, cls))
        e = dict(eng.globals)
        e["self"] = E.VMap(addr)
        paths = eng.run(d.fget, e, st)
        results[name] = (paths, addr)
        lines = source.lines_of(d.fget)
        fnname = f"cal:{cls}.{name}"
        ob = compare.raises_only(eng, oid + ".raises_only_documented", fnname, lines, paths, DOCUMENTED, tmo)
        if ob.status == REFUTED:
            # is the refutation confined to a listed known-finding class?  re-decide under requires /\ not class
            fc = finding_classes(eng, m0, cls)
            for f in findings:
                if f.get("obligation") != ob.oid or f.get("class") not in fc:
                    continue
                ob2 = compare.raises_only(eng, ob.oid, fnname, lines, paths, DOCUMENTED, tmo, extra_hyps=[z3.Not(fc[f["class"]])])
                if ob2.status == PROVED:
                    still = NATIVE_WITNESSES[f["id"]]()
                    ob2.seconds += ob.seconds
                    ob2.detail = f"proved outside known finding {f['id']} (class {f['class']}); inside it: {ob.detail[:160]}"
                    if still:
                        ob2.finding_seen = f["id"]
                        ob = ob2
                        ob.known = f"{f['id']} {f['what']} (native witness still fails: {still})"
                    else:
                        ob2.detail += " -- listed witness no longer fails natively"
                        ob = ob2
                    break
        obs.append(ob)
        obs.append(compare.ensures(eng, oid + ".view_unchanged", fnname, lines, paths,
                                   lambda pa: E.same_view(pa.state.heap[addr], m0), tmo, kinds=("ret", "raise")))
    m0 = E.MapObj.fresh("old", cls=cls)

    def stored_dt(name):
        r = E.OptRef.val(m0.arr[K(name)])
        return z3.If(eng.has_attr_z(r, "dt"), eng.attr_z(r, "dt"), r)

    def stored_dur():
        r = E.OptRef.val(m0.arr[K("DURATION")])
        return z3.If(eng.lat.isinstance_z(r, ["vDDDTypes"]), eng.attr_z(r, "dt"), eng.attr_z(r, "td"))
    if "start" in results:
        paths, addr = results["start"]
        obs.append(compare.ensures(eng, f"{PID}.{cls}.start.is_DTSTART", f"cal:{cls}.start", "", paths,
                                   lambda pa: z3.And(present(m0, "DTSTART"), eng.box(pa.value, pa.state) == stored_dt("DTSTART")), tmo))
    if "end" in results:
        paths, addr = results["end"]
        L = eng.lat

        def c_end(pa):
            r = eng.box(pa.value, pa.state)
            s = stored_dt("DTSTART")
            D = stored_dur()
            dur_set = z3.And(present(m0, "DURATION"), L.isinstance_z(E.OptRef.val(m0.arr[K("DURATION")]), ["vDDDTypes", "vDuration"]))
            is_d = z3.And(L.isinstance_z(s, ["date"]), z3.Not(L.isinstance_z(s, ["datetime"])))
            return z3.And(
                z3.Implies(present(m0, end), r == stored_dt(end)),
                z3.Implies(z3.And(z3.Not(present(m0, end)), dur_set), r == dt.dt_add(s, E.td_us(D))),
                z3.Implies(z3.And(z3.Not(present(m0, end)), z3.Not(present(m0, "DURATION"))),
                           r == z3.If(is_d, dt.dt_add(s, z3.IntVal(dt.DAY)), s)))
        obs.append(compare.ensures(eng, f"{PID}.{cls}.end.END_or_start_plus_DURATION_or_default", f"cal:{cls}.end", "", paths, c_end, tmo))
    if "duration" in results:
        paths, addr = results["duration"]
        L = eng.lat

        def c_dur(pa):
            v = eng.unbox_known(pa.value, pa.state)
            us = v.us if isinstance(v, E.VTd) else E.td_us(eng.box(v, pa.state))
            s = stored_dt("DTSTART")
            D = stored_dur()
            is_d = z3.And(L.isinstance_z(s, ["date"]), z3.Not(L.isinstance_z(s, ["datetime"])))
            dur_set = z3.And(present(m0, "DURATION"), L.isinstance_z(E.OptRef.val(m0.arr[K("DURATION")]), ["vDDDTypes", "vDuration"]))
            e_val = z3.If(present(m0, end), stored_dt(end),
                          z3.If(dur_set, dt.dt_add(s, E.td_us(D)), z3.If(is_d, dt.dt_add(s, z3.IntVal(dt.DAY)), s)))
            return us == dt.dt_diff(e_val, s)
        obs.append(compare.ensures(eng, f"{PID}.{cls}.duration.is_end_minus_start", f"cal:{cls}.duration", "", paths, c_dur, tmo))
    return obs


# ---------------------------------------------------------------------------------------------------
# native witnesses of the listed known findings (return a description if the witness still fails, else None)

def _w_naive_aware(cls_name):
    def f():
        from datetime import datetime, timezone
        import icalendar
        c = getattr(icalendar, cls_name)()
        c.add("DTSTART", datetime(2024, 1, 1, 10))
        c.add(END[cls_name], datetime(2024, 1, 1, 11, tzinfo=timezone.utc))
        try:
            c.duration
        except (icalendar.cal.InvalidCalendar, icalendar.cal.IncompleteComponent):
            return None
        except Exception as e:  # noqa
            return f"{cls_name} with naive DTSTART and aware {END[cls_name]}: .duration raises {type(e).__name__}"
        return None
    return f


NATIVE_WITNESSES = {"C16-F1-Event": _w_naive_aware("Event"), "C16-F1-Todo": _w_naive_aware("Todo")}


def run(rep: common.Report):
    eng, classes = make_engine()
    findings = common.findings_for(PID)
    rep.trust(
        "proved elsewhere: CaselessDict method contracts (C17), used for self.get/self.pop/self[...] on the component view",
        "assumed: vDDDTypes / vDuration constructors return a fresh object whose .dt/.td is the argument (contracts/comp.py)",
        "assumed: date/datetime/timedelta arithmetic facts of contracts/dt.py (cross-checked natively each run); results stay "
        "inside year 1..9999 (no OverflowError)",
        "assumed: reading .dt/.td of a stored value object does not raise",
        "inlined (not under separate contract): Event/Todo._get_start_end_duration, tools.is_date",
        "engine: vc/pyvc + z3 5.1.0")
    rep.assume("stored property values are value-class instances or lists (states produced by add / parse / setters), never "
               "raw dates or timedeltas", "same modelling assumptions as C17 for the map view")
    for cls in ("Event", "Todo"):
        groups = []
        for name in ("DTSTART", END[cls]):
            groups.append(lambda c=cls, n=name: descriptor_obligations(eng, classes, c, n, rep.tier))
        groups.append(lambda c=cls: duration_fn_obligations(eng, classes, c, rep.tier))
        groups.append(lambda c=cls: mutator_obligations(eng, classes, c, rep.tier))
        groups.append(lambda c=cls: getter_obligations(eng, classes, c, rep.tier, findings))
        for g in groups:
            try:
                obs = g()
            except Exception as e:  # noqa
                import traceback
                traceback.print_exc()
                obs = [Obligation(f"{PID}.{cls}.engine", f"cal:{cls}", "z3", ERROR, detail=repr(e))]
            for ob in obs:
                if getattr(ob, "known", None):
                    rep.known_seen.append(ob.known)
                if ob.status == REFUTED:
                    concretise(ob)
                rep.add(ob)
    cc = dt.crosscheck(rep.seed)
    rep.crosschecks.append(cc)
    if not cc["ok"]:
        rep.error(f"assumed-contract cross-check failed: {cc['name']}: {cc['failures']}")
    from props import C16_bnd
    b = Bounded("C16.bnd.edit_histories", "cal:Event/Todo start end duration DTSTART DTEND DUE DURATION descriptors",
                C16_bnd.BOUND[rep.tier])
    t0 = time.time()
    try:
        C16_bnd.run(b, rep.tier, rep.seed, findings)
        for k in b.__dict__.pop("known_seen", []):
            rep.known_seen.append(k)
    except Exception as e:  # noqa
        import traceback
        traceback.print_exc()
        b.error = repr(e)
    b.seconds = time.time() - t0
    rep.bounded.append(b)
    rep.extra["solver_seconds_path_pruning"] = round(eng.solver_time, 3)
    rep.explanation = __doc__


def concretise(ob: Obligation):
    """Find a native input for a refuted obligation in the bounded stand-in's domain."""
    from props import C16_bnd
    w = C16_bnd.search_for(ob.oid)
    if w:
        ob.witness, ob.replay = w[0], {"confirmed": True, "native": w[1]}
    elif getattr(ob, "shape_only", False):
        ob.status = UNDECIDED
        ob.detail += " -- no native input confirms the shape, so this is not a refutation"
    else:
        ob.replay = {"confirmed": False, "native": "no failing input found in the bounded domain"}


def replay(payload: dict) -> int:
    from props import C16_bnd
    w = payload.get("witness")
    if not w:
        print("replay: no concrete input recorded; verifier output:", payload.get("verifier_output"))
        return 1
    msg = C16_bnd.replay_witness(w)
    print("replay:", msg or "no violation on the current tree")
    return 1 if msg else 0
