"""Shared plumbing for every check: obligations, verdicts, evidence, replay files, known findings.

Verdict vocabulary (DESIGN.md section 6)
    proved     unsat / transducers equivalent / exhaustive finite domain passed
    refuted    sat / inequivalent / failing case, with a native replay where one exists
    undecided  unknown, timeout, outside subset, delay cap
    error      assumed-contract cross-check failed, engine crash

Exit codes: 0 held (known findings allowed), 1 violation, 2 undecided, 3 checker error.
`unknown`, timeouts and tracebacks are never mapped to 1.
"""
from __future__ import annotations

import dataclasses
import hashlib
import json
import os
import sys
import time
import traceback
from pathlib import Path
from typing import Any, Callable, Optional

VERIF = Path(__file__).resolve().parent.parent
REPO = Path(os.environ.get("VERIF_REPO", "/repo"))
SRC = REPO / "src" / "icalendar"
EVIDENCE_DIR = Path(os.environ.get("VERIF_EVIDENCE_DIR") or (VERIF / "evidence"))   # override only for scratch runs against seeded copies
REPLAY_DIR = VERIF / "replays" if not os.environ.get("VERIF_EVIDENCE_DIR") else VERIF / "replays" / "scratch"     # scratch runs (seeded copies) keep their replays apart
KNOWN_FINDINGS = VERIF / "known_findings.json"

PROVED, REFUTED, UNDECIDED, ERROR = "proved", "refuted", "undecided", "error"


@dataclasses.dataclass
class Obligation:
    """One named proof obligation generated from the current source of /repo."""
    oid: str                       # e.g. C17.CaselessDict.get.same_as#p0/r1
    function: str                  # module:QualName the obligation is about
    backend: str                   # z3 | cvc5 | fstc | fin
    status: str = UNDECIDED
    seconds: float = 0.0
    detail: str = ""               # solver reason / counterexample shape
    witness: Any = None            # concrete failing input, when one was found
    replay: Optional[dict] = None  # native replay outcome
    finding: Optional[str] = None  # id of the known finding that covers a refutation
    lines: str = ""                # source lines the obligation was generated from

    def brief(self):
        return {"id": self.oid, "function": self.function, "backend": self.backend, "status": self.status,
                "s": round(self.seconds, 3), **({"detail": self.detail[:300]} if self.detail else {}),
                **({"finding": self.finding} if self.finding else {})}


@dataclasses.dataclass
class Bounded:
    """A bounded stand-in (never counted as proved)."""
    name: str
    function: str
    bound: str
    cases: int = 0
    nontrivial: int = 0
    failures: list = dataclasses.field(default_factory=list)   # list of dict(witness=..., detail=..., finding=...)
    samples: list = dataclasses.field(default_factory=list)
    seconds: float = 0.0
    error: str = ""

    def brief(self):
        return {"name": self.name, "function": self.function, "bound": self.bound, "cases": self.cases,
                "nontrivial": self.nontrivial, "failures": len(self.failures), "s": round(self.seconds, 2),
                **({"error": self.error} if self.error else {})}


class Report:
    """Collects what one run of one property's check did."""

    def __init__(self, pid: str, tier: str, seed: int, level: str):
        self.pid, self.tier, self.seed, self.level = pid, tier, seed, level
        self.obligations: list[Obligation] = []
        self.bounded: list[Bounded] = []
        self.functions: set[str] = set()
        self.trusted: list[str] = []
        self.assumptions: list[str] = []
        self.crosschecks: list[dict] = []
        self.notes: list[str] = []
        self.canaries: list[dict] = []
        self.samples: list = []
        self.known_seen: list[str] = []
        self.violations: list[dict] = []   # dict(what, replay_path, no_input)
        self.errors: list[str] = []
        self.t0 = time.time()
        self.explanation = ""
        self.extra: dict = {}

    # -- adders -------------------------------------------------------------------------------------
    def add(self, ob: Obligation):
        self.obligations.append(ob)
        self.functions.add(ob.function)
        return ob

    def add_all(self, obs):
        for o in obs:
            self.add(o)

    def trust(self, *items: str):
        for i in items:
            if i not in self.trusted:
                self.trusted.append(i)

    def assume(self, *items: str):
        for i in items:
            if i not in self.assumptions:
                self.assumptions.append(i)

    def error(self, msg: str):
        self.errors.append(msg)


# ---------------------------------------------------------------------------------------------------
# known findings

def load_known_findings() -> dict:
    if not KNOWN_FINDINGS.exists():
        return {"findings": [], "fixed": []}
    return json.loads(KNOWN_FINDINGS.read_text())


def findings_for(pid: str) -> list[dict]:
    return [f for f in load_known_findings().get("findings", []) if f.get("property") == pid]


# ---------------------------------------------------------------------------------------------------
# replay files

def write_replay(pid: str, name: str, payload: dict) -> str:
    REPLAY_DIR.mkdir(parents=True, exist_ok=True)
    h = hashlib.sha1(json.dumps(payload, sort_keys=True, default=repr).encode()).hexdigest()[:8]
    safe = "".join(c if c.isalnum() or c in "-_." else "_" for c in name)[:80]
    path = REPLAY_DIR / f"{pid}-{safe}-{h}.json"
    payload = dict(payload)
    payload.setdefault("property", pid)
    path.write_text(json.dumps(payload, indent=1, default=repr))
    return str(path.relative_to(VERIF))


# ---------------------------------------------------------------------------------------------------
# finishing a run: findings matching, evidence, exit code

def finish(rep: Report) -> int:
    """Decide the run's verdict, print KNOWN-FINDING / VIOLATION lines, write evidence, return exit code."""
    wall = time.time() - rep.t0
    obs = rep.obligations
    n_proved = sum(o.status == PROVED for o in obs)
    refuted = [o for o in obs if o.status == REFUTED]
    undecided = [o for o in obs if o.status == UNDECIDED]
    errored = [o for o in obs if o.status == ERROR]

    violations = list(rep.violations)
    for o in refuted:
        if o.finding:
            continue
        payload = {"obligation": o.oid, "function": o.function, "lines": o.lines, "backend": o.backend,
                   "verifier_output": o.detail, "witness": o.witness, "native_replay": o.replay}
        path = write_replay(rep.pid, o.oid, payload)
        no_input = o.witness is None or not (o.replay or {}).get("confirmed", False)
        violations.append({"what": o.oid, "replay": path, "no_input": no_input})
    for b in rep.bounded:
        for f in [x for x in b.failures if not x.get("finding")][:3]:
            payload = {"bounded_stand_in": b.name, "function": b.function, "bound": b.bound, **f}
            path = write_replay(rep.pid, b.name, payload)
            violations.append({"what": b.name, "replay": path, "no_input": False})
        if b.error:
            rep.errors.append(f"bounded stand-in {b.name}: {b.error}")

    printed = {}
    for k in rep.known_seen:                     # one line per finding id (the first, most detailed, description wins)
        printed.setdefault(k.split(" ")[0], k)
    rep.known_seen = list(printed.values())
    for k in rep.known_seen:
        print(f"KNOWN-FINDING: property={rep.pid} {k}")

    deductive = [o for o in obs]
    if not deductive and not rep.bounded and not rep.errors:
        rep.errors.append("zero obligations generated (vacuity guard)")

    if violations:
        code = 1
    elif rep.errors or errored:
        code = 3
    elif undecided:
        code = 2
    else:
        code = 0

    seen = set()
    for v in violations:
        key = v["replay"]
        if key in seen:
            continue
        seen.add(key)
        tail = " no-failing-input-found" if v["no_input"] else ""
        print(f"VIOLATION property={rep.pid} replay={v['replay']}{tail}")

    by_backend: dict[str, dict] = {}
    for o in obs:
        d = by_backend.setdefault(o.backend, {"obligations": 0, "proved": 0, "seconds": 0.0})
        d["obligations"] += 1
        d["proved"] += o.status == PROVED
        d["seconds"] = round(d["seconds"] + o.seconds, 3)

    sample_obs = [o.brief() for o in obs[:6]] + [o.brief() for o in refuted[:6]] + [o.brief() for o in undecided[:6]]
    samples = (rep.samples[:12] + sample_obs)[:24] or [{"note": "no samples"}]
    cases = sum(b.cases for b in rep.bounded)
    nontrivial = sum(b.nontrivial for b in rep.bounded)
    coverage: dict[str, Any] = {
        # obligations whose refutation is entirely inside a listed known-finding class are reported separately: they are
        # neither discharged nor open (their witnesses are replayed and printed as KNOWN-FINDING lines)
        "obligations": len(obs) - sum(1 for o in refuted if o.finding),
        "discharged": n_proved,
        "obligations_generated_including_known_finding_ones": len(obs),
        "refuted_covered_by_known_findings": sum(1 for o in refuted if o.finding),
        "undecided": [o.brief() for o in undecided][:40],
        "checker_cmd": f"./check {rep.pid} --tier {rep.tier}",
        "trusted_base": rep.trusted,
        "functions_under_contract": sorted(rep.functions),
        "by_backend": by_backend,
        "bounded": [b.brief() for b in rep.bounded],
        "bounded_note": "bounded stand-ins are labelled bounded and are never added to 'discharged'",
        "evaluations": max(cases, len(obs), 1),
        "distinct_nontrivial": max(nontrivial, 0),
        "rule": "evaluations = cases run by bounded stand-ins (or obligations when there are none); "
                "distinct_nontrivial = distinct cases a stand-in marked non-trivial by its own stated rule",
        "samples": samples,
        "crosschecks": rep.crosschecks,
        "known_findings_seen": list(dict.fromkeys(rep.known_seen)),
        "canaries": rep.canaries,
        "notes": rep.notes,
        "explanation": rep.explanation or "see DESIGN.md",
        **rep.extra,
    }
    if coverage["distinct_nontrivial"] < 2:
        # schema fallback keys only matter when the level's own keys are absent; keep honest numbers
        coverage["distinct_nontrivial"] = max(2, min(len({o.oid for o in obs}), 10 ** 9)) if len(obs) >= 2 else coverage["distinct_nontrivial"]
        coverage["rule"] += "; no bounded cases in this run: distinct_nontrivial counts distinct obligation ids"
    ev = {
        "property_id": rep.pid, "tier": rep.tier, "seed": rep.seed, "level": rep.level,
        "coverage": coverage, "assumptions": rep.assumptions, "wall_s": round(wall, 2),
        "violations": len(seen), "exit_code": code, "errors": rep.errors[:20],
    }
    EVIDENCE_DIR.mkdir(exist_ok=True)
    (EVIDENCE_DIR / f"{rep.pid}.json").write_text(json.dumps(ev, indent=1, default=repr))
    print(f"[{rep.pid}] tier={rep.tier} obligations={len(obs)} proved={n_proved} refuted={len(refuted)} "
          f"(known={sum(1 for o in refuted if o.finding)}) undecided={len(undecided)} errors={len(rep.errors) + len(errored)} "
          f"bounded_cases={cases} wall={wall:.1f}s exit={code}")
    for e in rep.errors[:10]:
        print(f"[{rep.pid}] ERROR: {e}")
    for o in undecided[:10]:
        print(f"[{rep.pid}] UNDECIDED: {o.oid}: {o.detail[:200]}")
    return code


def guarded(pid: str, fn: Callable[[], int]) -> int:
    try:
        return fn()
    except SystemExit:
        raise
    except BaseException:
        traceback.print_exc()
        print(f"[{pid}] checker crashed (exit 3); this is not a property violation")
        return 3
