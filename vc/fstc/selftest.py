"""Exhaustive cross-checks of the fstc library against CPython.

Run:  python -m vc.fstc.selftest [--len N] [--seed S] [--random K]

Every construction is compared with the corresponding native Python operation
on ALL strings up to length N over small alphabets; the decision procedures
are compared with brute force.  Exit status is non-zero on any disagreement.
"""
from __future__ import annotations

import argparse
import itertools
import random
import re
import sys
import time

from . import (DFA, FST, compose, compose_all, concat_const, crosscheck_regex_sub,
               dfa_all, dfa_contains_any, dfa_from_regex, differing_inputs_dfa, domain_dfa,
               equivalent, functional, identity, image_subset, regex_split_fst,
               regex_sub_fst, relabel, replace_chain, replace_fst, restrict, segmentwise,
               union)

BS = "\\"

ALPHA_CHAR = [BS, "n", "N", ";", ",", "\r", "\n", "x"]
ESCAPE_CHAR = [(BS + "N", "\n"), (BS, BS + BS), (";", BS + ";"), (",", BS + ","),
               ("\r\n", BS + "n"), ("\n", BS + "n")]
UNESCAPE_CHAR = [(BS + "N", BS + "n"), ("\r\n", "\n"), (BS + "n", "\n"), (BS + ",", ","),
                 (BS + ";", ";"), (BS + BS, BS)]
NORMALISE = [(BS + "N", "\n"), ("\r\n", "\n")]

ALPHA_STRING = [BS, ",", ":", ";", "%", "2", "C", "3", "A", "B", "5", "x"]
ESCAPE_STRING = [(BS + ",", "%2C"), (BS + ":", "%3A"), (BS + ";", "%3B"), (BS + BS, "%5C")]
UNESCAPE_STRING = [("%2C", ","), ("%3A", ":"), ("%3B", ";"), ("%5C", BS)]

ALPHA_FOLD = ["\r", "\n", " ", "\t", "x", "y"]
FOLD_RE = r"(\r?\n)+[ \t]"
NEWLINE_RE = r"\r?\n"
MARK = "|"


# ---------------------------------------------------------------------------
# harness
# ---------------------------------------------------------------------------

class Tally:
    def __init__(self):
        self.checks = 0
        self.failures = 0
        self.section_checks = 0
        self.section_start = time.time()
        self.section_name = None
        self.t0 = time.time()

    def section(self, name):
        self.end_section()
        self.section_name = name
        self.section_checks = 0
        self.section_fail0 = self.failures
        self.section_start = time.time()
        print("== %s" % name, flush=True)

    def end_section(self):
        if self.section_name is not None:
            print("   -> %d checks, %d failures, %.2f s" % (
                self.section_checks, self.failures - self.section_fail0,
                time.time() - self.section_start), flush=True)
        self.section_name = None

    def ok(self, n=1):
        self.checks += n
        self.section_checks += n

    def fail(self, msg):
        self.checks += 1
        self.section_checks += 1
        self.failures += 1
        if self.failures <= 40:
            print("   FAIL: %s" % msg, flush=True)

    def expect(self, cond, msg):
        if cond:
            self.ok()
        else:
            self.fail(msg)
        return cond


def native_chain(pairs):
    def f(s):
        for o, n in pairs:
            s = s.replace(o, n)
        return s
    return f


def all_strings(alphabet, maxlen):
    for k in range(maxlen + 1):
        for tup in itertools.product(alphabet, repeat=k):
            yield "".join(tup)


def bounded_len(alphabet, maxlen, budget=400_000):
    """Largest L <= maxlen with |alphabet|^L <= budget (at least 2)."""
    L = maxlen
    while L > 2 and len(alphabet) ** L > budget:
        L -= 1
    return L


def check_fst(t, fst, native, maxlen, label):
    """fst.apply(s) == {native(s)} (or empty when native returns None) for all s."""
    n = bad = 0
    for s, outs in fst.enumerate(maxlen):
        n += 1
        want = native(s)
        if (outs != {want}) if want is not None else bool(outs):
            bad += 1
            if bad <= 3:
                t.fail("%s: input %r native %r fst %r" % (label, s, want, sorted(outs)))
    t.ok(n - bad)
    if bad > 3:
        t.failures += bad - 3
    return n, bad


def check_dfa(t, dfa, predicate, maxlen, label):
    """dfa.accepts(s) == predicate(s) for all s (DFS sharing the DFA state)."""
    n = bad = 0
    alphabet = dfa.alphabet
    trans, acc = dfa.trans, dfa.accepting
    stack = [("", dfa.init)]
    while stack:
        s, q = stack.pop()
        n += 1
        if (q in acc) != bool(predicate(s)):
            bad += 1
            if bad <= 3:
                t.fail("%s: string %r dfa %r native %r" % (label, s, q in acc, bool(predicate(s))))
        if len(s) < maxlen:
            row = trans[q]
            for a in alphabet:
                stack.append((s + a, row[a]))
    t.ok(n - bad)
    if bad > 3:
        t.failures += bad - 3
    return n, bad


# ---------------------------------------------------------------------------
# 1. replace
# ---------------------------------------------------------------------------

def test_replace(t, N, rng, nrandom):
    t.section("1a. replace_fst vs str.replace (alphabet abc, len <= %d)" % N)
    abc = ["a", "b", "c"]
    olds = ["a", "b", "aa", "ab", "ba", "aba", "abc", "aab", "abab", "aaa", "abca", "abcab", "cc", ""]
    news = ["", "a", "b", "c", "aa", "ab", "ba", "aba", "abc", "aaa", "abab", "cabc"]
    pairs = 0
    for old in olds:
        for new in news:
            pairs += 1
            f = replace_fst(old, new, abc)
            check_fst(t, f, lambda s, o=old, n=new: s.replace(o, n), N, "replace(%r,%r)" % (old, new))
            if old:
                t.expect(f.is_deterministic(), "replace_fst(%r,%r) should be deterministic" % (old, new))
                t.expect(f.explore() == len(old), "replace_fst(%r,..) has %d states" % (old, f.explore()))
    print("   %d (old,new) pairs" % pairs)

    t.section("1b. random replace chains (2-6 steps) vs native (alphabet abc, len <= %d)" % N)
    for k in range(nrandom):
        chain = random_chain(rng, abc, rng.randint(2, 6), 3, 3)
        check_fst(t, replace_chain(chain, abc), native_chain(chain), N, "chain %r" % (chain,))
    print("   %d random chains" % nrandom)

    t.section("1c. real chains: escape_char / unescape_char / normalise (8 symbols, len <= %d)" % N)
    for name, chain in [("escape_char", ESCAPE_CHAR), ("unescape_char", UNESCAPE_CHAR),
                        ("normalise", NORMALISE)]:
        f = replace_chain(chain, ALPHA_CHAR)
        n, bad = check_fst(t, f, native_chain(chain), N, name)
        print("   %-14s %8d strings, %d states, %d disagreements" % (name, n, f.explore(), bad))
    try:  # the real library functions, when importable (optional)
        from icalendar.parser import escape_char, unescape_char  # type: ignore
    except Exception:  # pragma: no cover
        print("   (icalendar not importable: real functions not cross-checked)")
    else:
        L = min(N, 6)
        for name, chain, real in [("escape_char", ESCAPE_CHAR, escape_char),
                                  ("unescape_char", UNESCAPE_CHAR, unescape_char)]:
            n, bad = check_fst(t, replace_chain(chain, ALPHA_CHAR), real, L, "icalendar." + name)
            print("   icalendar.parser.%-14s %8d strings (len <= %d), %d disagreements" % (name, n, L, bad))

    L = min(N, 5)
    t.section("1d. real chains: escape_string / unescape_string (12 symbols, len <= %d)" % L)
    for name, chain in [("escape_string", ESCAPE_STRING), ("unescape_string", UNESCAPE_STRING)]:
        f = replace_chain(chain, ALPHA_STRING)
        n, bad = check_fst(t, f, native_chain(chain), L, name)
        print("   %-16s %8d strings, %d states, %d disagreements" % (name, n, f.explore(), bad))

    t.section("1e. alphabet violations raise ValueError")
    for thunk, label in [
        (lambda: replace_fst("a", "z", abc), "new outside alphabet"),
        (lambda: replace_fst("z", "a", abc), "old outside alphabet"),
        (lambda: relabel({"a": "z"}, abc), "relabel value outside alphabet"),
        (lambda: concat_const("z", identity(abc), ""), "prefix outside alphabet"),
        (lambda: FST.from_function(abc, 0, lambda q, a: (0, "z"), lambda q: "").apply("a"),
         "from_function output outside alphabet"),
        (lambda: identity(abc).apply("z"), "input outside alphabet"),
        (lambda: regex_sub_fst("a", "z", abc), "repl outside alphabet"),
        (lambda: regex_sub_fst("a*", "b", abc), "pattern matches empty string"),
    ]:
        try:
            thunk()
        except ValueError:
            t.ok()
        else:
            t.fail("%s: no ValueError" % label)


def random_chain(rng, alphabet, steps, maxold, maxnew):
    chain = []
    for _ in range(steps):
        old = "".join(rng.choice(alphabet) for _ in range(rng.randint(1, maxold)))
        new = "".join(rng.choice(alphabet) for _ in range(rng.randint(0, maxnew)))
        chain.append((old, new))
    return chain


# ---------------------------------------------------------------------------
# 2. combinators
# ---------------------------------------------------------------------------

def test_combinators(t, N, rng, nrandom):
    t.section("2a. compose vs function composition")
    esc, une = native_chain(ESCAPE_CHAR), native_chain(UNESCAPE_CHAR)
    E, U = replace_chain(ESCAPE_CHAR, ALPHA_CHAR), replace_chain(UNESCAPE_CHAR, ALPHA_CHAR)
    n, bad = check_fst(t, compose(E, U), lambda s: une(esc(s)), N, "unescape_char(escape_char(s))")
    print("   unescape.escape: %d strings, %d states" % (n, compose(E, U).explore()))
    L = min(N, 6)
    n, bad = check_fst(t, compose(U, E), lambda s: esc(une(s)), L, "escape_char(unescape_char(s))")
    print("   escape.unescape: %d strings (len <= %d), %d states" % (n, L, compose(U, E).explore()))
    abc = ["a", "b", "c"]
    for k in range(nrandom // 2):
        c1 = random_chain(rng, abc, rng.randint(1, 3), 3, 3)
        c2 = random_chain(rng, abc, rng.randint(1, 3), 3, 3)
        f1, f2 = native_chain(c1), native_chain(c2)
        check_fst(t, compose(replace_chain(c1, abc), replace_chain(c2, abc)),
                  lambda s: f2(f1(s)), N, "compose %r ; %r" % (c1, c2))
    # composition with non-deterministic operands (regex_sub) on both sides
    A = ALPHA_FOLD + [MARK]
    fold = re.compile(FOLD_RE)
    nl = re.compile(NEWLINE_RE)
    F = regex_sub_fst(FOLD_RE, "", A)
    S = regex_sub_fst(NEWLINE_RE, MARK, A)
    L = min(N, 6)
    check_fst(t, compose(F, S), lambda s: nl.sub(MARK, fold.sub("", s)), L, "unfold ; splitlines")
    check_fst(t, compose(S, F), lambda s: fold.sub("", nl.sub(MARK, s)), L, "splitlines ; unfold")
    J = relabel({MARK: "\r\n "}, A)
    check_fst(t, compose(J, F), lambda s: fold.sub("", s.replace(MARK, "\r\n ")), L, "join ; unfold")

    t.section("2b. segmentwise / relabel / concat_const")
    ab = ["a", "b", "c"]
    for chain in [[("aa", "b")], [("ab", ""), ("ba", "c")], [("a", "aa")], [("aba", "c"), ("cc", "a")]]:
        f = native_chain(chain)
        seg = segmentwise(replace_chain(chain, ab), MARK)
        check_fst(t, seg, lambda s: MARK.join(f(x) for x in s.split(MARK)), N, "segmentwise %r" % (chain,))
    # segmentwise over a partial function: lists with a segment outside the domain are undefined
    even_a = dfa_from_regex(r"(b|c|a[bc]*a)*", ab, "fullmatch")
    part = restrict(replace_chain([("aa", "c")], ab), even_a)
    nat = native_chain([("aa", "c")])
    def seg_partial(s):
        segs = s.split(MARK)
        if any(x.count("a") % 2 for x in segs):
            return None
        return MARK.join(nat(x) for x in segs)
    check_fst(t, segmentwise(part, MARK), seg_partial, N, "segmentwise(partial)")
    abm = ab + [MARK]
    check_fst(t, relabel({MARK: "ab", "c": ""}, abm), lambda s: s.replace(MARK, "ab").replace("c", ""),
              N, "relabel")
    check_fst(t, relabel({"a": MARK}, abm), lambda s: MARK.join(s.split("a")), N, "split on 'a'")
    for chain in [[("aa", "b")], [("ab", "ba")], []]:
        f = native_chain(chain)
        check_fst(t, concat_const("ab", replace_chain(chain, ab), "ca"),
                  lambda s: "ab" + f(s) + "ca", N, "concat_const %r" % (chain,))
    check_fst(t, concat_const("", replace_chain([("ab", "c")], ab), ""), native_chain([("ab", "c")]), N,
              "concat_const empty")

    t.section("2c. restrict / union (A if RE.search(x) else B)")
    cases = [(r"ab", [("a", "b")], [("b", "a")]),
             (r"a+b", [("aa", "a")], [("b", "")]),
             (r"c[ab]c", [("ab", "ba")], []),
             (r"(ab|ba)c", [("a", "")], [("c", "ab"), ("bb", "a")])]
    for pat, ca, cb in cases:
        rx = re.compile(pat)
        fa, fb = native_chain(ca), native_chain(cb)
        Ldfa = dfa_from_regex(pat, ab, "search")
        A_, B_ = replace_chain(ca, ab), replace_chain(cb, ab)
        check_fst(t, restrict(A_, Ldfa), lambda s: fa(s) if rx.search(s) else None, N, "restrict %r" % pat)
        ite = union(restrict(A_, Ldfa), restrict(B_, Ldfa.complement()))
        check_fst(t, ite, lambda s: fa(s) if rx.search(s) else fb(s), N, "if-then-else %r" % pat)
        t.expect(functional(ite).status == "equivalent", "if-then-else %r should be functional" % pat)
    # union with overlapping domains and different outputs is a genuine relation
    rel = union(replace_fst("a", "b", ab), identity(ab))
    t.expect(rel.apply("a") == {"a", "b"} and rel.apply("") == {""} and rel.apply("c") == {"c"},
             "union relation semantics")


# ---------------------------------------------------------------------------
# 3. regex -> DFA
# ---------------------------------------------------------------------------

DURATION_RE = r"([-+]?)P(?:(\d+)W)?(?:(\d+)D)?(?:T(?:(\d+)H)?(?:(\d+)M)?(?:(\d+)S)?)?$"

REGEX_CASES = [
    (r"[\w.-]+", ["a", "Z", "_", "5", ".", "-", ";", " "]),
    (r'[\x00-\x08\x0a-\x1f\x7F",:;]', ["\x00", "\x08", "\t", "\n", "\x1f", "\x7f", '"', ",", ":", ";", "a", " "]),
    ("[,;: ’']", [",", ";", ":", " ", "’", "'", "a"]),
    (FOLD_RE, ALPHA_FOLD),
    (NEWLINE_RE, ALPHA_FOLD),
    (DURATION_RE, ["-", "+", "P", "T", "W", "D", "H", "M", "S", "1", "x"]),
    (DURATION_RE, ["P", "1", "D", "T", "M", "\n"]),      # '$' with a newline in the alphabet
    (r"a$", ["a", "\n", "b"]),
    (r"(a|b\n)+$", ["a", "\n", "b"]),
    (r"a\Z", ["a", "\n", "b"]),
    (r"^ab", ["a", "b", "c"]),
    (r"\Aab$", ["a", "b", "\n"]),
    (r"a|ab", ["a", "b", "c"]),
    (r"(a|b)*abb", ["a", "b", "c"]),
    (r"a{2,3}b?", ["a", "b", "c"]),
    (r"(ab){2}c{0,2}", ["a", "b", "c"]),
    (r"(?:ab){1,}", ["a", "b", "c"]),
    (r"[^a]+", ["a", "b", "c"]),
    (r".", ["a", "\n", "b"]),
    (r"a.b", ["a", "\n", "b"]),
    (r"\d+\s\w", ["1", " ", "a", "-", "\t"]),
    (r"\D\S\W", ["1", " ", "a", "-", "\t"]),
    (r"[^\W\d]", ["1", " ", "a", "-", "_"]),
    (r"(?P<n>a+)b", ["a", "b", "c"]),
    (r"a*?b", ["a", "b", "c"]),
    (r"a+?", ["a", "b"]),
    (r"", ["a", "b"]),
    (r"(|a)b", ["a", "b"]),
    (r"\.\\\-", [".", "\\", "-", "a"]),
    (r"[a-c]+[^b-z]", ["a", "b", "c", "d", "A"]),
]

REGEX_UNSUPPORTED = [r"(a)\1", r"a(?=b)", r"a(?!b)", r"(?<=a)b", r"\bab", r"(?i)ab", r"a$b", r"(a$|b)c",
                     r"a^", r"(?s).", r"(?>a+)b", r"a++b", r"(?m)a$", r"(a)(?(1)b|c)"]


def test_regex(t, N):
    t.section("3a. dfa_from_regex vs re.fullmatch/search/match")
    for pat, alphabet in REGEX_CASES:
        rx = re.compile(pat)
        L = bounded_len(alphabet, N)
        sizes = []
        total = 0
        for mode, fn in [("fullmatch", rx.fullmatch), ("search", rx.search), ("match", rx.match)]:
            d = dfa_from_regex(pat, alphabet, mode)
            n, bad = check_dfa(t, d, lambda s, fn=fn: fn(s) is not None, L, "%r %s" % (pat, mode))
            sizes.append(d.n_states)
            total += n
        print("   %-62r len<=%d  states f/s/m=%s  %d checks" % (pat[:60], L, "/".join(map(str, sizes)), total))
    # compiled pattern objects are accepted too
    d = dfa_from_regex(re.compile(r"ab+"), ["a", "b"], "fullmatch")
    t.expect(d.accepts("abb") and not d.accepts("a"), "compiled pattern")

    t.section("3b. unsupported regex syntax raises NotImplementedError")
    for pat in REGEX_UNSUPPORTED:
        try:
            dfa_from_regex(pat, ["a", "b", "c", "\n"], "search")
        except NotImplementedError:
            t.ok()
        else:
            t.fail("pattern %r was accepted" % pat)
    try:
        dfa_from_regex(re.compile("ab", re.I), ["a", "b"], "search")
    except NotImplementedError:
        t.ok()
    else:
        t.fail("compiled pattern with flags was accepted")

    t.section("3c. DFA algebra vs brute force")
    abc = ["a", "b", "c"]
    L = min(N, 6)
    d1 = dfa_from_regex(r"(a|b)*abb", abc, "search")
    d2 = dfa_from_regex(r"c[ab]", abc, "search")
    r1, r2 = re.compile(r"(a|b)*abb"), re.compile(r"c[ab]")
    check_dfa(t, d1.complement(), lambda s: not r1.search(s), L, "complement")
    check_dfa(t, d1.intersect(d2), lambda s: bool(r1.search(s)) and bool(r2.search(s)), L, "intersect")
    check_dfa(t, d1.union(d2), lambda s: bool(r1.search(s)) or bool(r2.search(s)), L, "union")
    check_dfa(t, d1.difference(d2), lambda s: bool(r1.search(s)) and not r2.search(s), L, "difference")
    check_dfa(t, d1.union(d2).minimize(), lambda s: bool(r1.search(s)) or bool(r2.search(s)), L, "minimize")
    check_dfa(t, dfa_contains_any(["ab", "bca", "cc"], abc),
              lambda s: "ab" in s or "bca" in s or "cc" in s, L, "contains_any")
    check_dfa(t, dfa_contains_any([], abc), lambda s: False, 3, "contains_any([])")
    check_dfa(t, dfa_all(abc), lambda s: True, 3, "dfa_all")
    t.expect(d1.intersect(d1.complement()).is_empty(), "L & ~L is empty")
    t.expect(d1.intersect(d1.complement()).shortest_accepted() is None, "shortest of empty")
    for d, rx in [(d1, r1), (d2, r2), (d1.intersect(d2), None)]:
        w = d.shortest_accepted()
        brute = next(s for s in all_strings(abc, 8) if d.accepts(s))
        t.expect(w is not None and len(w) == len(brute) and d.accepts(w), "shortest_accepted %r" % (w,))
    eq, w = d1.equivalent_to(dfa_from_regex(r"abb", abc, "search"))
    t.expect(eq and w is None, "(a|b)*abb searched == abb searched")
    eq, w = d1.equivalent_to(d2)
    t.expect(not eq and d1.accepts(w) != d2.accepts(w), "equivalent_to witness")


# ---------------------------------------------------------------------------
# 4. regex_sub
# ---------------------------------------------------------------------------

def test_regex_sub(t, N):
    t.section("4a. regex_sub_fst vs re.sub: the two real patterns must agree 100%% (len <= %d)" % N)
    A = ALPHA_FOLD
    f = regex_sub_fst(FOLD_RE, "", A)
    n, bad, first = crosscheck_regex_sub(FOLD_RE, "", A, N, f)
    t.ok(n - bad)
    if bad:
        t.failures += bad
        print("   FAIL first: %r" % (first,))
    print("   %-16r -> ''    : %d strings, %d FST states, %d disagreements" % (FOLD_RE, n, f.explore(), bad))
    Am = ALPHA_FOLD + [MARK]
    f = regex_split_fst(NEWLINE_RE, MARK, Am)
    n, bad, first = crosscheck_regex_sub(NEWLINE_RE, MARK, Am, N, f)
    t.ok(n - bad)
    if bad:
        t.failures += bad
        print("   FAIL first: %r" % (first,))
    print("   %-16r -> MARK  : %d strings, %d FST states, %d disagreements" % (NEWLINE_RE, n, f.explore(), bad))
    # the split really is re.split on marker-free input
    rx = re.compile(NEWLINE_RE)
    cnt = 0
    for s in all_strings(ALPHA_FOLD, min(N, 5)):
        cnt += 1
        if f.apply1(s) != MARK.join(rx.split(s)):
            t.fail("regex_split_fst vs re.split on %r" % s)
    t.ok(cnt)
    for name, fst in [("fold", regex_sub_fst(FOLD_RE, "", A)), ("split", f)]:
        r = functional(fst)
        t.expect(r.status == "equivalent", "regex_sub_fst %s must be functional: %s" % (name, r))

    t.section("4b. other patterns (leftmost-longest may legitimately differ from Python's backtracking)")
    abc = ["a", "b", "c"]
    for pat, repl, must_agree in [(r"a+b", "c", True), (r"(ab)+", "c", True), (r"ab|a", "c", True),
                                  (r"a|ab", "c", False), (r"(a|ab)(c|bcd)?", "x", False),
                                  (r"a*b|a", "", False), (r"[ab]+c?", "cc", True), (r"ab?", "b", True),
                                  (r"(a|b)*abb", "a", True), (r"a(ba)*|ab", "c", False)]:
        alphabet = abc + (["d", "x"] if "d" in pat else [])
        L = min(N, 7 if len(alphabet) == 3 else 5)
        n, bad, first = crosscheck_regex_sub(pat, repl, alphabet, L)
        fun = functional(regex_sub_fst(pat, repl, alphabet)).status
        print("   %-18r -> %-4r: %6d strings, %5d disagreements with re.sub%s; functional: %s" % (
            pat, repl, n, bad, "" if not first else "  e.g. %r" % (first,), fun))
        t.expect(fun == "equivalent", "regex_sub_fst(%r) must be functional" % pat)
        if must_agree:
            t.expect(bad == 0, "pattern %r expected to agree with re.sub" % pat)
        else:
            t.ok()
            # leftmost-longest reference implementation (independent of the FST)
            rx = re.compile(pat)
            f = regex_sub_fst(pat, repl, alphabet)
            cnt = 0
            for s in all_strings(alphabet, min(L, 5)):
                cnt += 1
                if f.apply1(s) != leftmost_longest_sub(rx, repl, s):
                    t.fail("regex_sub_fst(%r) vs leftmost-longest reference on %r" % (pat, s))
            t.ok(cnt)


def leftmost_longest_sub(rx, repl, s):
    """Reference leftmost-longest substitution using only re.fullmatch."""
    out = []
    i = 0
    while i < len(s):
        best = None
        for j in range(len(s), i, -1):
            if rx.fullmatch(s, i, j):
                best = j
                break
        if best is None:
            out.append(s[i])
            i += 1
        else:
            out.append(repl)
            i = best
    return "".join(out)


# ---------------------------------------------------------------------------
# 5. equivalence
# ---------------------------------------------------------------------------

def brute_first_difference(f, g, alphabet, N, domain=None):
    """Shortest string (in all_strings order) with f(s) != g(s), or None."""
    for s in all_strings(alphabet, N):
        if domain is not None and not domain(s):
            continue
        if f(s) != g(s):
            return s
    return None


def check_verdict(t, r, f, g, alphabet, N, label, domain=None):
    """Compare a Result with brute force over all strings <= N."""
    brute = brute_first_difference(f, g, alphabet, N, domain)
    if r.status == "equivalent":
        t.expect(brute is None, "%s: verdict equivalent but %r differs (%r vs %r)" % (
            label, brute, f(brute) if brute is not None else None, g(brute) if brute is not None else None))
    elif r.status == "differ":
        w = r.witness
        real = (domain is None or domain(w)) and f(w) != g(w)
        t.expect(real, "%s: witness %r does not differ natively" % (label, w))
        t.expect(r.left == f(w) and r.right == g(w), "%s: reported outputs %r/%r vs native %r/%r" % (
            label, r.left, r.right, f(w), g(w)))
        if brute is not None:
            t.expect(len(w) == len(brute), "%s: witness %r is not shortest (brute force: %r)" % (label, w, brute))
        else:
            t.expect(len(w) > N, "%s: witness %r shorter than N but brute force found nothing" % (label, w))
    else:
        t.ok()
    return brute


def test_equivalence(t, N, rng, nrandom):
    t.section("5a. unescape_char . escape_char vs normaliser")
    E, U = replace_chain(ESCAPE_CHAR, ALPHA_CHAR), replace_chain(UNESCAPE_CHAR, ALPHA_CHAR)
    NORM = replace_chain(NORMALISE, ALPHA_CHAR)
    esc, une, norm = native_chain(ESCAPE_CHAR), native_chain(UNESCAPE_CHAR), native_chain(NORMALISE)
    t0 = time.time()
    r = equivalent(compose(E, U), NORM)
    dt = time.time() - t0
    print("   status=%s witness=%r left=%r right=%r states=%d shortest=%s (%.3f s)" % (
        r.status, r.witness, r.left, r.right, r.states, r.shortest, dt))
    t.expect(r.status == "differ" and r.witness == BS + "n", "round trip must differ on backslash-n: %s" % r)
    t.expect(r.shortest, "witness must be flagged shortest")
    t.expect(une(esc(BS + "n")) != norm(BS + "n"), "native confirmation")
    t.expect(r.left == une(esc(BS + "n")) and r.right == norm(BS + "n"), "native outputs match the report")
    brute = [s for s in all_strings(ALPHA_CHAR, 2) if une(esc(s)) != norm(s)]
    print("   brute force: differing inputs of length <= 2: %r" % (brute,))
    t.expect(brute == [BS + "n"], "backslash-n is the unique shortest difference")
    try:
        from icalendar.parser import escape_char, unescape_char  # type: ignore
        t.expect(unescape_char(escape_char(r.witness)) == r.left, "real icalendar functions give the same output")
        print("   icalendar: unescape_char(escape_char(%r)) = %r" % (r.witness, unescape_char(escape_char(r.witness))))
    except ImportError:  # pragma: no cover
        pass
    # on the complement of the known-bad class the round trip is provably the normaliser
    good = dfa_contains_any([BS + "n", BS + "N", BS + ";", BS + ",", BS + BS], ALPHA_CHAR).complement()
    r2 = equivalent(compose(E, U), NORM, domain=good)
    print("   restricted to inputs without backslash-{n,N,;,,,backslash}: %s (%d states)" % (r2.status, r2.states))
    check_verdict(t, r2, lambda s: une(esc(s)), norm, ALPHA_CHAR, min(N, 5), "restricted round trip",
                  domain=good.accepts)
    # escape . unescape . escape == escape  (a true, non-trivial equivalence)
    r3 = equivalent(compose_all([E, U, E]), compose(NORM, E))
    print("   escape.unescape.escape vs escape.normalise: %s witness=%r" % (r3.status, r3.witness))
    check_verdict(t, r3, lambda s: esc(une(esc(s))), lambda s: esc(norm(s)), ALPHA_CHAR, min(N, 5), "e.u.e")
    # string codec over the 12-symbol alphabet
    ES, US = replace_chain(ESCAPE_STRING, ALPHA_STRING), replace_chain(UNESCAPE_STRING, ALPHA_STRING)
    es, us = native_chain(ESCAPE_STRING), native_chain(UNESCAPE_STRING)
    t0 = time.time()
    r4 = equivalent(compose(ES, US), identity(ALPHA_STRING))
    print("   unescape_string.escape_string vs identity: %s witness=%r left=%r (%.3f s, %d states)" % (
        r4.status, r4.witness, r4.left, time.time() - t0, r4.states))
    check_verdict(t, r4, lambda s: us(es(s)), lambda s: s, ALPHA_STRING, min(N, 4), "string codec")

    t.section("5b. random pairs of replace chains vs brute force (len <= %d)" % N)
    verdicts = {"equivalent": 0, "differ": 0, "undecided": 0}
    tmax = 0.0
    for k in range(nrandom):
        alphabet = ["a", "b"] if rng.random() < 0.5 else ["a", "b", "c"]
        big = k % 3 == 0     # every third case: longer chains and patterns
        c1 = random_chain(rng, alphabet, rng.randint(1, 4 if big else 3), 3 if big else 2, 3 if big else 2)
        mode = rng.random()
        if mode < 0.35:      # insert one extra step (sometimes redundant)
            c2 = list(c1)
            c2.insert(rng.randint(0, len(c2)), random_chain(rng, alphabet, 1, 2, 2)[0])
        elif mode < 0.5:     # swap two steps
            c2 = list(c1)
            rng.shuffle(c2)
        elif mode < 0.6:     # split a step through an intermediate symbol
            c2 = list(c1)
            o, n = c2[0]
            c2[0:1] = [(o, n)] if not n else [(o, n), (n, n)]
        else:
            c2 = random_chain(rng, alphabet, rng.randint(1, 3), 2, 2)
        t0 = time.time()
        r = equivalent(replace_chain(c1, alphabet), replace_chain(c2, alphabet), max_states=200_000)
        tmax = max(tmax, time.time() - t0)
        verdicts[r.status] += 1
        check_verdict(t, r, native_chain(c1), native_chain(c2), alphabet, N, "%r vs %r" % (c1, c2))
    print("   %d pairs: %r; slowest decision %.2f s" % (nrandom, verdicts, tmax))
    t.expect(verdicts["equivalent"] >= 5 and verdicts["differ"] >= 5, "both verdicts should occur: %r" % verdicts)

    t.section("5b'. hand-picked equivalences, domains, if-then-else")
    abc = ["a", "b", "c"]
    fixed = [
        ([("a", "b"), ("a", "c")], [("a", "b")], "equivalent"),
        ([("a", "b"), ("b", "c")], [("a", "c"), ("b", "c")], "equivalent"),
        ([("ab", "ab")], [], "equivalent"),
        ([("aba", "aba"), ("bb", "bb")], [], "equivalent"),
        ([("a", "aa"), ("aa", "a")], [], "equivalent"),
        ([("aa", "a"), ("a", "aa")], [], "differ"),
        ([("ab", "c"), ("c", "ab")], [("c", "ab")], "equivalent"),
        ([("ab", "ba")], [("ba", "ab")], "differ"),
        ([("aa", "a")], [], "differ"),
        ([("aa", "b")], [("aa", "b"), ("aa", "c")], "equivalent"),
    ]
    for c1, c2, want in fixed:
        r = equivalent(replace_chain(c1, abc), replace_chain(c2, abc))
        t.expect(r.status == want, "%r vs %r: expected %s got %s" % (c1, c2, want, r))
        check_verdict(t, r, native_chain(c1), native_chain(c2), abc, N, "%r vs %r" % (c1, c2))
    # regex_sub vs replace
    r = equivalent(regex_sub_fst("ab", "c", abc), replace_fst("ab", "c", abc))
    t.expect(r.status == "equivalent", "sub('ab','c') == replace('ab','c'): %s" % r)
    Am = ALPHA_FOLD + [MARK]
    r = equivalent(regex_sub_fst(NEWLINE_RE, MARK, Am), replace_chain([("\r\n", MARK), ("\n", MARK)], Am))
    t.expect(r.status == "equivalent", r"sub('\r?\n', M) == replace('\r\n', M).replace('\n', M): %s" % r)
    r = equivalent(regex_sub_fst(NEWLINE_RE, MARK, Am), replace_chain([("\n", MARK), ("\r" + MARK, MARK)], Am))
    t.expect(r.status == "differ" and r.witness == "\r" + MARK, "wrong order variant differs on CR MARK: %s" % r)
    r = equivalent(regex_sub_fst("a+", "a", abc), replace_fst("aa", "a", abc))
    t.expect(r.status == "differ" and r.witness == "aaa", "sub('a+','a') vs replace('aa','a'): %s" % r)
    # random domains
    pats = [r"ab", r"c", r"a+b", r"[ab]c", r"(ab|ba)", r"aa|bb|cc", r"c.*c"]
    for k in range(nrandom // 2):
        c1 = random_chain(rng, abc, rng.randint(1, 2), 2, 2)
        c2 = random_chain(rng, abc, rng.randint(1, 2), 2, 2) if rng.random() < 0.5 else list(c1[:1])
        pat = rng.choice(pats)
        dom = dfa_from_regex(pat, abc, rng.choice(["search", "match", "fullmatch"]))
        if rng.random() < 0.6:
            dom = dom.complement()
        r = equivalent(replace_chain(c1, abc), replace_chain(c2, abc), domain=dom, max_states=200_000)
        check_verdict(t, r, native_chain(c1), native_chain(c2), abc, N,
                      "%r vs %r on domain %r" % (c1, c2, pat), domain=dom.accepts)
    # partial functions: domain disagreement is a difference
    d_ab = dfa_from_regex("ab", abc, "search")
    d_ba = dfa_from_regex("ba", abc, "search")
    r = equivalent(restrict(identity(abc), d_ab), restrict(identity(abc), d_ba))
    t.expect(r.status == "differ" and r.witness in ("ab", "ba") and (r.left is None) != (r.right is None),
             "domain disagreement: %s" % r)
    r = equivalent(restrict(identity(abc), d_ab), restrict(identity(abc), d_ba), domain=d_ab.intersect(d_ba))
    t.expect(r.status == "equivalent", "agreement on the common domain: %s" % r)
    r = equivalent(restrict(replace_fst("a", "b", abc), d_ab), identity(abc), domain=d_ab)
    t.expect(r.status == "differ" and r.witness == "ab" and r.left == "bb" and r.right == "ab", "restricted differ: %s" % r)
    # an output difference shorter than the shortest domain difference must win
    r = equivalent(restrict(replace_fst("a", "b", abc), dfa_contains_any(["ccc"], abc).complement()), identity(abc))
    t.expect(r.status == "differ" and r.witness == "a", "shortest over both kinds of difference: %s" % r)
    # if-then-else
    ite = union(restrict(replace_fst("a", "b", abc), d_ab), restrict(identity(abc), d_ab.complement()))
    rx = re.compile("ab")
    nat = lambda s: s.replace("a", "b") if rx.search(s) else s
    r = equivalent(ite, replace_fst("ab", "bb", abc))
    check_verdict(t, r, nat, lambda s: s.replace("ab", "bb"), abc, N, "ite vs replace")
    t.expect(r.status == "differ", "ite vs replace('ab','bb'): %s" % r)
    r = equivalent(ite, ite)
    t.expect(r.status == "equivalent", "ite == ite")

    t.section("5c. unfolding undoes folding (join with CRLF SPACE)")
    A = ALPHA_FOLD + [MARK]
    join_fold = relabel({MARK: "\r\n "}, A)
    unfold = regex_sub_fst(FOLD_RE, "", A)
    lhs = compose(join_fold, unfold)
    rhs = relabel({MARK: ""}, A)
    no_nl = dfa_contains_any(["\n"], A).complement()
    fold_rx = re.compile(FOLD_RE)
    nat_l = lambda s: fold_rx.sub("", s.replace(MARK, "\r\n "))
    nat_r = lambda s: s.replace(MARK, "")
    t0 = time.time()
    r = equivalent(lhs, rhs, domain=no_nl)
    print("   segments without LF : %s (%d states, %s) %.3f s" % (r.status, r.states, r.stats, time.time() - t0))
    t.expect(r.status == "equivalent", "unfold(join(chunks)) == concat(chunks) when chunks have no LF: %s" % r)
    check_verdict(t, r, nat_l, nat_r, A, min(N, 6), "5c restricted", domain=no_nl.accepts)
    t0 = time.time()
    r = equivalent(lhs, rhs)
    print("   segments with LF    : %s witness=%r left=%r right=%r (%d states) %.3f s" % (
        r.status, r.witness, r.left, r.right, r.states, time.time() - t0))
    t.expect(r.status == "differ", "with LF allowed the statement is false: %s" % r)
    check_verdict(t, r, nat_l, nat_r, A, min(N, 6), "5c unrestricted")
    # the exact set of bad inputs, as a DFA
    bad = differing_inputs_dfa(lhs, rhs, max_states=5_000)
    if bad is None:
        print("   differing_inputs_dfa: not computable (delays unbounded: LHS withholds a run of LFs)")
        t.ok()
    else:
        n, b = check_dfa(t, bad, lambda s: nat_l(s) != nat_r(s), min(N, 6), "differing_inputs_dfa 5c")
        print("   differing_inputs_dfa: %d states, checked on %d strings, shortest %r" % (
            bad.n_states, n, bad.shortest_accepted()))

    empty = differing_inputs_dfa(lhs, rhs, domain=no_nl)
    t.expect(empty is not None and empty.is_empty(), "differing_inputs_dfa on the good domain is empty")

    t.section("5d. functionality")
    ab = ["a", "b"]
    nonfun = FST.from_function(ab, 0, lambda q, a: [(0, a), (0, "b")] if a == "a" else (0, a), lambda q: "")
    r = functional(nonfun)
    t.expect(r.status == "differ" and r.witness == "a" and {r.left, r.right} == {"a", "b"}, "non-functional: %s" % r)
    # non-functional only through the flush, and only on long inputs
    def step(q, a):
        return [(min(q + 1, 3), a)]
    nf2 = FST.from_function(ab, 0, step, lambda q: ["", "a"] if q == 3 else "")
    r = functional(nf2)
    t.expect(r.status == "differ" and len(r.witness) == 3, "flush ambiguity: %s" % r)
    t.expect(functional(nf2, domain=dfa_from_regex(".{0,2}", ab, "fullmatch")).status == "equivalent",
             "functional on the short inputs")
    # ambiguous (two runs) but functional
    amb = FST.from_function(ab, 0, lambda q, a: [(0, a), (1, a)], lambda q: "")
    t.expect(functional(amb).status == "equivalent", "ambiguous but functional")
    # guesses resolved later: 'a' -> 'b' iff the input ends in b (non-sequential function)
    def gstep(q, a):
        if q == "x":      # guess "ends in b": rewrite a to b
            return [("x", "b"), ("xb", "b")] if a == "b" else [("x", "b")]
        if q == "y":
            return [("y", a), ("ya", a)] if a == "a" else [("y", a)]
        if q == "i":
            return [(s, o) for st in ("x", "y") for (s, o) in gstep(st, a)]
        return []
    guess = FST.from_function(ab, "i", gstep, lambda q: "" if q in ("xb", "ya", "i") else None)
    t.expect(functional(guess).status == "equivalent", "guessing transducer is functional")
    check_fst(t, guess, lambda s: s.replace("a", "b") if s.endswith("b") else s, N, "guessing transducer")
    ends_b = dfa_from_regex(r".*b", ab, "fullmatch")
    ite = union(restrict(replace_fst("a", "b", ab), ends_b), restrict(identity(ab), ends_b.complement()))
    r = equivalent(guess, ite)
    t.expect(r.status == "equivalent", "guessing transducer == if-then-else: %s" % r)
    r = equivalent(guess, identity(ab))
    t.expect(r.status == "differ" and r.witness == "ab" and r.left == "bb", "guess vs identity: %s" % r)
    r = equivalent(nonfun, nonfun)
    t.expect(r.status == "differ", "equivalent() refuses a non-functional operand: %s" % r.status)
    for name, f in [("escape_char", E), ("roundtrip", compose(E, U))]:
        t.expect(functional(f).status == "equivalent", "%s functional" % name)

    t.section("5e. unbounded delay: inequivalent pairs terminate with 'differ', caps give 'undecided'")
    r = equivalent(replace_fst("aa", "a", ab), identity(ab))
    t.expect(r.status == "differ" and r.witness == "aa" and r.left == "a" and r.right == "aa", "aa->a vs id: %s" % r)
    r = equivalent(replace_fst("a", "", ab), identity(ab))
    t.expect(r.status == "differ" and r.witness == "a", "a->'' vs id: %s" % r)
    r = equivalent(replace_fst("a", "aa", ab), replace_fst("a", "aaa", ab))
    t.expect(r.status == "differ" and r.witness == "a", "a->aa vs a->aaa: %s" % r)
    # differ only at the very end, after arbitrarily long agreement of prefixes
    halve = replace_chain([("aa", "a")], ab)
    r = equivalent(compose(halve, relabel({"a": "aa"}, ab)), identity(ab))
    check_verdict(t, r, lambda s: s.replace("aa", "a").replace("a", "aa"), lambda s: s, ab, N, "halve-double")
    t.expect(r.status == "differ" and r.witness == "a", "halve;double vs id: %s" % r)
    t0 = time.time()
    full = compose_all([E, replace_chain([(BS + BS, BS)], ALPHA_CHAR)])
    r = equivalent(full, identity(ALPHA_CHAR))
    print("   escape_char;halve-backslashes vs identity: %s witness=%r (%.3f s)" % (r.status, r.witness, time.time() - t0))
    t.expect(r.status == "differ", "must terminate with differ")
    # equivalent pair that needs a delay: caps turn it into 'undecided', never into a wrong verdict
    lazy_id = replace_fst("ab", "ab", ab)
    t.expect(equivalent(lazy_id, identity(ab)).status == "equivalent", "delayed identity")
    r = equivalent(lazy_id, identity(ab), delay_cap=0)
    t.expect(r.status == "undecided" and "cap" in r.reason, "delay_cap=0 -> undecided: %s" % r)
    r = equivalent(lazy_id, identity(ab), max_states=1)
    t.expect(r.status == "undecided", "max_states=1 -> undecided: %s" % r)
    # with a tiny cap the refutation may be out of reach ('undecided' is acceptable, a wrong verdict is not);
    # a refutation that is found wins over a cap hit elsewhere
    r = equivalent(replace_fst("aa", "a", ab), identity(ab), delay_cap=0)
    t.expect(r.status in ("undecided", "differ"), "cap 0: %s" % r)
    if r.status == "differ":    # via the delay-conflict fallback; real, but not flagged shortest
        t.expect(not r.shortest and r.left != r.right and r.left == r.witness.replace("aa", "a")
                 and r.right == r.witness, "fallback witness must be real: %s" % r)
        print("   cap 0 fallback: witness=%r shortest=%s" % (r.witness, r.shortest))
    r = equivalent(replace_fst("aa", "a", ab), identity(ab), delay_cap=1)
    t.expect(r.status == "differ" and r.witness == "aa", "refutation wins over the cap: %s" % r)
    r = equivalent(replace_fst("aaaa", "b", ab), identity(ab), delay_cap=2)
    t.expect(r.status in ("undecided", "differ") and not r.shortest, "pending text longer than the cap: %s" % r)
    print("   replace('aaaa','b') vs id with delay_cap=2: %s witness=%r (%s)" % (r.status, r.witness, r.reason))
    r = equivalent(replace_fst("aaaa", "b", ab), identity(ab))
    t.expect(r.status == "differ" and r.witness == "aaaa", "default cap: %s" % r)
    # the delay-conflict fallback: inputs a* b^5; T copies the a's, S drops them.  With cap 0 the BFS
    # cannot follow any 'a', but two different delays at the initial product state still yield a witness.
    def mk(copy):
        return FST.from_function(
            ab, 0,
            lambda q, a: ((0, a if copy else "") if q == 0 and a == "a" else
                          (q + 1, "") if a == "b" and q < 5 else []),
            lambda q: "" if q == 5 else None)
    r = equivalent(mk(True), mk(False), delay_cap=0)
    print("   delay-conflict fallback: %s witness=%r shortest=%s" % (r.status, r.witness, r.shortest))
    t.expect(r.status == "differ" and r.witness == "abbbbb" and r.left == "a" and r.right == "" and not r.shortest,
             "fallback: %s" % r)
    r = equivalent(mk(True), mk(False))
    t.expect(r.status == "differ" and r.witness == "abbbbb" and r.shortest, "same without cap: %s" % r)
    r = equivalent(mk(True), mk(True), delay_cap=0)
    t.expect(r.status == "equivalent", "no delay, no cap problem: %s" % r)
    try:
        bool(r)
    except TypeError:
        t.ok()
    else:
        t.fail("Result must not be usable as a boolean")


def random_table_fst(rng, alphabet, nstates, branching, p_missing=0.1, p_nonfinal=0.2):
    """A random explicit transducer: each (state, symbol) has `branching` transitions
    (each missing with probability p_missing)."""
    outs = ["", "", "a", "b", "ab", "ba", "aa"]
    table = {}
    for q in range(nstates):
        for a in alphabet:
            ts = []
            for _ in range(branching):
                if rng.random() >= p_missing:
                    ts.append((rng.randrange(nstates), rng.choice(outs)))
            table[(q, a)] = ts
    fin = {q: (None if rng.random() < p_nonfinal else rng.choice(outs)) for q in range(nstates)}
    return FST.from_function(alphabet, 0, lambda q, a: table[(q, a)], lambda q: fin[q], name="random"), table, fin


def brute_relation_difference(T, S, alphabet, N, domain=None):
    for s in all_strings(alphabet, N):
        if domain is not None and not domain.accepts(s):
            continue
        if T.apply(s) != S.apply(s):
            return s
    return None


def test_random_transducers(t, N, rng, nrandom):
    t.section("5f. random table transducers: functional() and equivalent() vs brute force over apply()")
    ab = ["a", "b"]
    L = min(N, 7)
    verd = {"equivalent": 0, "differ": 0, "undecided": 0}
    for k in range(nrandom):
        T, _, _ = random_table_fst(rng, ab, rng.randint(1, 3), rng.choice([1, 2, 2]))
        r = functional(T, max_states=100_000)
        verd[r.status] += 1
        brute = next((s for s in all_strings(ab, L) if len(T.apply(s)) > 1), None)
        if r.status == "equivalent":
            t.expect(brute is None, "functional() says yes but %r has outputs %r" % (brute, T.apply(brute) if brute is not None else None))
        elif r.status == "differ":
            outs = T.apply(r.witness)
            t.expect(len(outs) > 1 and r.left in outs and r.right in outs and r.left != r.right,
                     "functional() witness %r outputs %r" % (r.witness, outs))
            if brute is not None:
                t.expect(len(brute) == len(r.witness), "functional() witness %r not shortest (%r)" % (r.witness, brute))
            else:
                t.expect(len(r.witness) > L, "functional() witness %r missed by brute force" % (r.witness,))
        else:
            t.ok()
    print("   functional(): %r" % verd)
    t.expect(verd["equivalent"] >= 5 and verd["differ"] >= 5, "both verdicts should occur")

    verd = {"equivalent": 0, "differ": 0, "undecided": 0}
    kinds = {}
    doms = [None, dfa_from_regex("ab", ab, "search"), dfa_from_regex("ab", ab, "search").complement(),
            dfa_from_regex("(a|b)(a|b)(a|b)+", ab, "fullmatch"), dfa_from_regex("b*a?b*", ab, "fullmatch")]
    for k in range(nrandom):
        T, table, fin = random_table_fst(rng, ab, rng.randint(1, 3), 1)
        kind = rng.choice(["independent", "delayed", "mutated", "ite", "ite-same", "self"])
        if kind == "independent":
            S, _, _ = random_table_fst(rng, ab, rng.randint(1, 3), 1)
        elif kind == "delayed":       # T followed by an identity that withholds text: equivalent to T
            x = rng.choice(["ab", "ba", "aab", "aba", "bb"])
            S = compose(T, replace_fst(x, x, ab))
        elif kind == "self":
            S = compose(replace_fst("ab", "ab", ab), T)
        else:
            table2 = dict(table)
            key = rng.choice(sorted(table2))
            table2[key] = [(rng.randrange(3) % max(1, len(fin)), rng.choice(["", "a", "b", "ab"]))]
            T2 = FST.from_function(ab, 0, lambda q, a, tb=table2: tb[(q, a)], lambda q, f=fin: f[q])
            if kind == "mutated":
                S = T2
            else:
                Ld = dfa_from_regex(rng.choice(["ab", "ba", "aa", "b"]), ab, rng.choice(["search", "match"]))
                S = union(restrict(T, Ld), restrict(T2 if kind == "ite" else T, Ld.complement()))
        dom = rng.choice(doms)
        r = equivalent(T, S, domain=dom, max_states=100_000)
        verd[r.status] += 1
        kinds[(kind, r.status)] = kinds.get((kind, r.status), 0) + 1
        brute = brute_relation_difference(T, S, ab, L, dom)
        label = "random %s pair #%d" % (kind, k)
        if r.status == "equivalent":
            t.expect(brute is None, "%s: verdict equivalent but %r differs" % (label, brute))
        elif r.status == "differ":
            w = r.witness
            t.expect((dom is None or dom.accepts(w)) and T.apply(w) != S.apply(w), "%s: witness %r is not real" % (label, w))
            if brute is not None:
                t.expect(len(w) == len(brute), "%s: witness %r not shortest (%r)" % (label, w, brute))
            else:
                t.expect(len(w) > L, "%s: witness %r missed by brute force" % (label, w))
        else:
            t.ok()
        if kind in ("delayed", "self", "ite-same"):
            t.expect(r.status == "equivalent", "%s must be equivalent: %s" % (label, r))
    print("   equivalent(): %r" % verd)
    print("   by kind: %s" % ", ".join("%s/%s=%d" % (k[0], k[1], v) for k, v in sorted(kinds.items())))


# ---------------------------------------------------------------------------
# 6. image_subset, 7. differing_inputs_dfa
# ---------------------------------------------------------------------------

def test_image(t, N):
    t.section("6. image_subset")
    E = replace_chain(ESCAPE_CHAR, ALPHA_CHAR)
    esc = native_chain(ESCAPE_CHAR)
    no_lf = dfa_contains_any(["\n"], ALPHA_CHAR).complement()
    r = image_subset(E, no_lf)
    print("   escape_char image has no LF: %s (%d configurations)" % (r.status, r.states))
    t.expect(r.status == "equivalent", "no LF in image: %s" % r)
    # every ';' is preceded by a backslash (3-state DFA: ok / just saw a backslash / bad)
    semi_ok = DFA.from_function(
        ALPHA_CHAR, "ok",
        lambda q, a: "bad" if q == "bad" or (a == ";" and q != "bs") else ("bs" if a == BS else "ok"),
        lambda q: q != "bad")
    rx = re.compile(r"(?<!\\);")
    check_dfa(t, semi_ok, lambda s: not rx.search(s), min(N, 5), "semicolon DFA vs lookbehind regex")
    r = image_subset(E, semi_ok)
    print("   escape_char image has no unescaped ';': %s (%d configurations)" % (r.status, r.states))
    t.expect(r.status == "equivalent", "no naked ';': %s" % r)
    L = min(N, 5)
    cnt = 0
    for s in all_strings(ALPHA_CHAR, L):
        cnt += 1
        o = esc(s)
        if "\n" in o or rx.search(o):
            t.fail("brute force contradicts image_subset on %r" % s)
    t.ok(cnt)
    # false statements
    no_cr = dfa_contains_any(["\r"], ALPHA_CHAR).complement()
    r = image_subset(E, no_cr)
    print("   escape_char image has no CR (false): %s witness=%r output=%r" % (r.status, r.witness, r.left))
    t.expect(r.status == "differ" and r.witness == "\r" and r.left == "\r" and "\r" in esc(r.witness), "CR witness: %s" % r)
    r = image_subset(E, no_cr, domain=no_cr)
    t.expect(r.status == "equivalent", "no CR in, no CR out: %s" % r)
    U = replace_chain(UNESCAPE_CHAR, ALPHA_CHAR)
    r = image_subset(compose(E, U), dfa_contains_any([BS + "\n"], ALPHA_CHAR).complement())
    print("   round trip never yields backslash LF (false): %s witness=%r output=%r" % (r.status, r.witness, r.left))
    t.expect(r.status == "differ" and r.witness == BS + "n", "round trip image witness: %s" % r)
    brute = next(s for s in all_strings(ALPHA_CHAR, 3) if BS + "\n" in native_chain(UNESCAPE_CHAR)(esc(s)))
    t.expect(len(brute) == len(r.witness), "image witness is shortest")
    # non-deterministic transducer
    A = ALPHA_FOLD
    unfold = regex_sub_fst(FOLD_RE, "", A)
    fold_rx = re.compile(FOLD_RE)
    # unfolding is idempotent: the unfolded text never contains a fold again (true, perhaps surprisingly:
    # a match starts leftmost, so the symbol before it is never LF, and it swallows every LF before the blank)
    r = image_subset(unfold, dfa_from_regex(FOLD_RE, A, "search").complement())
    print("   unfolded text contains no fold (true): %s (%d configurations)" % (r.status, r.states))
    brute = next((s for s in all_strings(A, min(N, 6)) if fold_rx.search(fold_rx.sub("", s))), None)
    t.expect(r.status == "equivalent" and brute is None, "unfold image: %s / brute %r" % (r, brute))
    r = equivalent(compose(unfold, unfold), unfold)
    t.expect(r.status == "equivalent", "unfold is idempotent: %s" % r)
    # false: the unfolded text contains no LF followed by x
    r = image_subset(unfold, dfa_contains_any(["\nx"], A).complement())
    print("   unfolded text contains no LF x (false): %s witness=%r output=%r" % (r.status, r.witness, r.left))
    t.expect(r.status == "differ" and r.witness == "\nx" and r.left == "\nx", "unfold image witness: %s" % r)
    # false with a longer witness: output never contains 'xy' (fold between x and y is removed)
    r = image_subset(unfold, dfa_contains_any(["xy"], A).complement(),
                     domain=dfa_contains_any(["xy"], A).complement())
    brute = next(s for s in all_strings(A, 4) if "xy" not in s and "xy" in fold_rx.sub("", s))
    print("   no 'xy' in, no 'xy' out (false): %s witness=%r output=%r" % (r.status, r.witness, r.left))
    t.expect(r.status == "differ" and len(r.witness) == len(brute) == 4 and "xy" in fold_rx.sub("", r.witness),
             "unfold image witness with domain: %s" % r)


def test_differing(t, N, rng, nrandom):
    t.section("7. differing_inputs_dfa / domain_dfa vs brute force")
    abc = ["a", "b", "c"]
    done = none = 0
    for k in range(nrandom // 2):
        c1 = random_chain(rng, abc, rng.randint(1, 2), 2, 2)
        c2 = random_chain(rng, abc, rng.randint(1, 2), 2, 2) if rng.random() < 0.6 else c1[:1]
        f, g = native_chain(c1), native_chain(c2)
        d = differing_inputs_dfa(replace_chain(c1, abc), replace_chain(c2, abc), max_states=20_000)
        if d is None:
            none += 1
            t.ok()
            continue
        done += 1
        check_dfa(t, d, lambda s: f(s) != g(s), min(N, 6), "differing_inputs %r vs %r" % (c1, c2))
    print("   %d computed, %d not computable (unbounded delay)" % (done, none))
    d_ab = dfa_from_regex("ab", abc, "search")
    part = restrict(replace_fst("a", "b", abc), d_ab)
    dd = differing_inputs_dfa(part, identity(abc))
    t.expect(dd is not None, "partial vs total computable")
    if dd is not None:
        # differs everywhere: either undefined (no 'ab') or rewritten (has an 'a')
        check_dfa(t, dd, lambda s: True, 5, "partial vs identity differs everywhere")
    check_dfa(t, domain_dfa(part), lambda s: "ab" in s, 6, "domain_dfa")
    check_dfa(t, domain_dfa(regex_sub_fst("a+b", "c", abc)), lambda s: True, 6, "regex_sub is total")


# ---------------------------------------------------------------------------

def main(argv=None):
    ap = argparse.ArgumentParser(description=__doc__)
    ap.add_argument("--len", type=int, default=6, dest="N", help="maximal string length (default 6)")
    ap.add_argument("--seed", type=int, default=20261002)
    ap.add_argument("--random", type=int, default=300, help="number of random cases per random test")
    args = ap.parse_args(argv)
    rng = random.Random(args.seed)
    t = Tally()
    print("fstc selftest: N=%d seed=%d random=%d python=%s" % (
        args.N, args.seed, args.random, sys.version.split()[0]), flush=True)
    tests = [
        lambda: test_replace(t, args.N, rng, args.random),
        lambda: test_combinators(t, args.N, rng, args.random),
        lambda: test_regex(t, args.N),
        lambda: test_regex_sub(t, args.N),
        lambda: test_equivalence(t, args.N, rng, args.random),
        lambda: test_random_transducers(t, args.N, rng, args.random),
        lambda: test_image(t, args.N),
        lambda: test_differing(t, args.N, rng, args.random),
    ]
    for test in tests:
        try:
            test()
        except Exception:  # a crash inside a test is a failure, keep going
            import traceback
            traceback.print_exc()
            t.fail("exception in section %r" % t.section_name)
    t.end_section()
    print("TOTAL: %d checks, %d failures, %.1f s" % (t.checks, t.failures, time.time() - t.t0))
    if t.failures:
        print("SELFTEST FAILED")
        return 1
    print("SELFTEST PASSED")
    return 0


if __name__ == "__main__":
    sys.exit(main())
