"""Extraction of rational string functions from the REAL source (DESIGN.md 4.2), every run.

An abstract interpreter over a function's AST whose values are transducers from the function's (single string) input
to the value of an expression.  Supported fragment ("outside fragment" => Outside exception => undecided, never a
violation):
    x.replace(c1, c2)                  constants c1 (non-empty), c2
    f(x)                               f another function of the same module that is itself in the fragment
    x.encode(..) / x.decode(..) / to_unicode(x) / str(x) / cls(x)      identity at the text level (stated assumption:
                                       UTF-8 encode/decode are inverse on surrogate-free text; utf-8-sig BOM handled elsewhere)
    name = <expr>                      straight-line assignment
    if isinstance(text, str): A  elif isinstance(text, bytes): B       the str branch
    assert ...                         dropped (asserts about the argument's type)
    if RE.search(v): return E1(v) ; return E2(v)     RE a module-level compiled pattern: union of the two branches
                                       restricted to L(RE) / its complement, composed after the transducer of v
    f'...{v}...' / c + v + c           concatenation with constants
"""
from __future__ import annotations

import ast
import copy

from vc.pyvc import source
from vc.fstc import fst as F
from vc.fstc import regex as R


class Outside(Exception):
    pass


IDENTITY_CALLS = {"to_unicode", "str", "cls", "vText", "from_unicode"}
IDENTITY_METHODS = {"encode", "decode"}


class _SubstConst(ast.NodeTransformer):
    def __init__(self, consts):
        self.consts = consts

    def visit_Name(self, n):
        if n.id in self.consts and isinstance(n.ctx, ast.Load):
            return ast.copy_location(ast.Constant(self.consts[n.id]), n)
        return n


class Extractor:
    def __init__(self, modname: str, alphabet: list[str], imports=None, marker=None):
        self.mod = source.module(modname)
        self.alphabet = list(alphabet)
        self.imports = imports or {}       # name -> Extractor of the module it is imported from
        self.marker = marker               # list marker symbol (for .split / join on marker-encoded lists)
        self.cache: dict[str, F.FST] = {}
        self.used: list[str] = []          # functions read from the source (for evidence)
        self.notes: list[str] = []

    # -- module-level regexes -------------------------------------------------------------------------
    def regex_source(self, name: str) -> str:
        node = self.mod.assigns.get(name)
        if not (isinstance(node, ast.Call) and isinstance(node.func, ast.Attribute) and node.func.attr == "compile" and node.args):
            raise Outside(f"{name} is not a module-level re.compile(...)")
        try:
            pat = ast.literal_eval(node.args[0])
        except Exception:
            raise Outside(f"{name}: pattern is not a literal")
        if len(node.args) > 1 or node.keywords:
            raise Outside(f"{name}: compiled with flags")
        if isinstance(pat, bytes):
            pat = pat.decode("latin-1")
        return pat

    # -- functions ------------------------------------------------------------------------------------
    def function(self, qual: str) -> F.FST:
        if qual in self.cache:
            return self.cache[qual]
        node = self.mod.lookup(qual)
        if not isinstance(node, ast.FunctionDef):
            raise Outside(f"{qual} not found")
        params = [a.arg for a in node.args.args if a.arg not in ("self", "cls")]
        if not params and node.args.args and node.args.args[0].arg == "self":
            params = ["self"]                 # a method of a str subclass: the receiver is the text
        if not params:
            raise Outside(f"{qual} has no string parameter")
        self.used.append(f"{self.mod.name}:{qual} (lines {source.lines_of(node)})")
        env = {params[0]: F.identity(self.alphabet)}
        if node.args.args and node.args.args[0].arg == "self":
            env["self"] = F.identity(self.alphabet)      # str subclasses: self is the text
        res = self.block(source.strip_docstring(node.body), env, params[0])
        if res is None:
            raise Outside(f"{qual}: no return reached")
        self.cache[qual] = res
        return res

    def block(self, stmts, env, param):
        env = dict(env)
        for i, st in enumerate(stmts):
            if isinstance(st, ast.Assert):
                continue
            if isinstance(st, ast.Expr) and isinstance(st.value, ast.Constant):
                continue
            if isinstance(st, ast.Assign) and len(st.targets) == 1 and isinstance(st.targets[0], ast.Name):
                tbl = self.const_table(st.value, env) if isinstance(st.value, (ast.IfExp, ast.Tuple, ast.List, ast.Name)) and not (isinstance(st.value, ast.Name) and st.value.id in env) else None
                if tbl is not None:
                    env[("table", st.targets[0].id)] = tbl
                    continue
                env[st.targets[0].id] = self.expr(st.value, env)
                continue
            if isinstance(st, ast.Return):
                if st.value is None:
                    raise Outside("bare return")
                return self.expr(st.value, env)
            if isinstance(st, ast.For) and not st.orelse:
                # `for a, b in TABLE: body` over a constant table of string tuples (module-level literal, possibly chosen by an
                # isinstance(x, str) conditional): unrolled with the loop variables bound to the constants
                table = self.const_table(st.iter, env)
                names = [t.id for t in st.target.elts] if isinstance(st.target, ast.Tuple) and all(isinstance(t, ast.Name) for t in st.target.elts) \
                    else ([st.target.id] if isinstance(st.target, ast.Name) else None)
                if table is None or names is None:
                    raise Outside(f"loop outside fragment: for {ast.unparse(st.target)} in {ast.unparse(st.iter)[:40]}")
                for row in table:
                    row = row if isinstance(row, tuple) else (row,)
                    if len(row) != len(names):
                        raise Outside("loop target does not match the table rows")
                    consts = dict(zip(names, row))
                    for inner in st.body:
                        if not (isinstance(inner, ast.Assign) and len(inner.targets) == 1 and isinstance(inner.targets[0], ast.Name)):
                            raise Outside("loop body is not a sequence of simple assignments")
                        env[inner.targets[0].id] = self.expr(_SubstConst(consts).visit(copy.deepcopy(inner.value)), env)
                continue
            if isinstance(st, ast.If):
                kind = self.test_kind(st.test, param)
                if kind is None:
                    cond = self.condition(st.test)
                    if cond is not None:
                        kind = ("cond",) + cond
                if kind == "is_str":
                    return self.block(st.body + stmts[i + 1:], env, param)
                if kind == "is_bytes" or kind == "not_text":
                    return self.block(st.orelse + stmts[i + 1:], env, param)
                if kind and kind[0] in ("search", "cond"):
                    if kind[0] == "search":
                        _, rname, var = kind
                        dfa = R.dfa_from_regex(self.regex_source(rname), self.alphabet, "search")
                    else:
                        _, var, dfa = kind
                    if var not in env:
                        raise Outside("test on an unknown variable")
                    base = env[var]
                    sub_env = dict(env)
                    sub_env[var] = F.identity(self.alphabet)
                    for k in list(sub_env):
                        if k != var:
                            sub_env.pop(k)        # the branches may only mention the tested variable
                    a = self.block(st.body + stmts[i + 1:], sub_env, param)
                    b = self.block(st.orelse + stmts[i + 1:], sub_env, param)
                    if a is None or b is None:
                        raise Outside("branch without return")
                    return F.compose(base, F.union(F.restrict(a, dfa), F.restrict(b, dfa.complement())))
                raise Outside(f"if-test outside fragment: {ast.unparse(st.test)}")
            raise Outside(f"statement outside fragment: {type(st).__name__} (line {st.lineno})")
        return None

    def not_a_string_class(self, name):
        """a class defined in the repository's prop / parser modules none of whose bases (transitively) is str or bytes"""
        from vc.pyvc import source as _src
        seen, todo = set(), [name]
        found = False
        while todo:
            c = todo.pop()
            if c in ("str", "bytes"):
                return False
            if c in seen:
                continue
            seen.add(c)
            for mn in ("prop", "parser", "caselessdict"):
                m = _src.module(mn)
                if c in m.classes:
                    found = found or c == name
                    todo += m.bases(c)
                    break
            else:
                if c not in ("object", "TimeBase", "list", "dict", "OrderedDict", "CaselessDict", "int", "float", "tuple"):
                    return False
        return found

    def test_kind(self, test, param):
        if isinstance(test, ast.Call) and isinstance(test.func, ast.Name) and test.func.id == "isinstance" and len(test.args) == 2:
            t = test.args[1]
            if isinstance(t, ast.Name) and t.id == "str":
                return "is_str"
            if isinstance(t, ast.Name) and t.id == "bytes":
                return "is_bytes"
            # isinstance(x, C) for a class C of the repository that is not a str / bytes subclass: false on text input
            if isinstance(t, ast.Name) and self.not_a_string_class(t.id):
                return "not_text"
        if (isinstance(test, ast.Call) and isinstance(test.func, ast.Attribute) and test.func.attr == "search"
                and isinstance(test.func.value, ast.Name) and len(test.args) == 1 and isinstance(test.args[0], ast.Name)):
            return ("search", test.func.value.id, test.args[0].id)
        return None

    def condition(self, test):
        """a regular condition on ONE string variable -> (variable, DFA) or None.
        atoms: v.startswith(c), v.endswith(c), c in v, c not in v, len(v) <op> k, RE.search(v); and / or / not."""
        import re as _re
        A = self.alphabet

        def cls(chars=None):
            return "(?:" + "|".join(_re.escape(a) for a in A) + ")"

        def atom(t):
            if isinstance(t, ast.Call) and isinstance(t.func, ast.Attribute) and isinstance(t.func.value, ast.Name) and len(t.args) == 1:
                v = t.func.value.id
                if t.func.attr in ("startswith", "endswith") and isinstance(t.args[0], ast.Constant) and isinstance(t.args[0].value, str):
                    c = _re.escape(t.args[0].value)
                    pat = f"{c}{cls()}*" if t.func.attr == "startswith" else f"{cls()}*{c}"
                    return v, R.dfa_from_regex(pat, A, "fullmatch")
                if t.func.attr == "search" and isinstance(t.args[0], ast.Name):
                    return t.args[0].id, R.dfa_from_regex(self.regex_source(t.func.value.id), A, "search")
            if isinstance(t, ast.Compare) and len(t.ops) == 1:
                l, op, r = t.left, t.ops[0], t.comparators[0]
                # v[0] == c / v[-1] == c  (an empty v would raise IndexError: only sound under a length guard, which
                # the conjunction must contain; the resulting language is "non-empty and first/last character is c")
                if (isinstance(l, ast.Subscript) and isinstance(l.value, ast.Name) and isinstance(op, (ast.Eq, ast.NotEq))
                        and isinstance(r, ast.Constant) and isinstance(r.value, str) and len(r.value) == 1):
                    try:
                        idx = ast.literal_eval(l.slice)
                    except Exception:
                        idx = None
                    if idx in (0, -1):
                        c = _re.escape(r.value)
                        d = R.dfa_from_regex(f"{c}{cls()}*" if idx == 0 else f"{cls()}*{c}", A, "fullmatch")
                        return l.value.id, (d if isinstance(op, ast.Eq) else d.complement().intersect(R.dfa_from_regex(f"{cls()}+", A, "fullmatch")))
                if isinstance(op, (ast.In, ast.NotIn)) and isinstance(l, ast.Constant) and isinstance(l.value, str) and isinstance(r, ast.Name):
                    d = R.dfa_contains_any([l.value], A)
                    return r.id, (d if isinstance(op, ast.In) else d.complement())
                if (isinstance(l, ast.Call) and isinstance(l.func, ast.Name) and l.func.id == "len" and len(l.args) == 1
                        and isinstance(l.args[0], ast.Name) and isinstance(r, ast.Constant) and isinstance(r.value, int)):
                    k = r.value
                    lo, hi = {ast.GtE: (k, None), ast.Gt: (k + 1, None), ast.LtE: (0, k), ast.Lt: (0, k - 1), ast.Eq: (k, k)}.get(type(op), (None, None))
                    if lo is None and hi is None:
                        return None
                    hi_s = "" if hi is None else str(max(hi, 0))
                    return l.args[0].id, R.dfa_from_regex(f"{cls()}{{{max(lo, 0)},{hi_s}}}", A, "fullmatch")
            return None

        def go(t):
            if isinstance(t, ast.BoolOp):
                parts = [go(x) for x in t.values]
                if any(p is None for p in parts) or len({p[0] for p in parts}) != 1:
                    return None
                d = parts[0][1]
                for _, e in parts[1:]:
                    d = d.intersect(e) if isinstance(t.op, ast.And) else d.union(e)
                return parts[0][0], d
            if isinstance(t, ast.UnaryOp) and isinstance(t.op, ast.Not):
                p = go(t.operand)
                return None if p is None else (p[0], p[1].complement())
            return atom(t)
        try:
            return go(test)
        except NotImplementedError:
            return None

    def const_table(self, node, env):
        """a constant tuple / list of string tuples: a literal, a module-level name bound to one, a local name assigned from one, or
        `A if isinstance(x, str) else B` (text input: A)"""
        if isinstance(node, ast.IfExp):
            k = self.test_kind(node.test, None)
            if k == "is_str":
                return self.const_table(node.body, env)
            if k in ("is_bytes", "not_text"):
                return self.const_table(node.orelse, env)
            return None
        if isinstance(node, ast.Name):
            if ("table", node.id) in env:
                return env[("table", node.id)]
            val = self.mod.assigns.get(node.id)
            return None if val is None else self.const_table(val, env)
        try:
            v = ast.literal_eval(node)
        except Exception:  # noqa
            return None
        if isinstance(v, (tuple, list)) and all(isinstance(r, str) or (isinstance(r, tuple) and all(isinstance(x, str) for x in r)) for r in v):
            return list(v)
        return None

    def const(self, node):
        if isinstance(node, ast.Constant) and isinstance(node.value, (str, bytes)):
            v = node.value
            return v.decode("latin-1") if isinstance(v, bytes) else v
        raise Outside(f"non-constant argument: {ast.unparse(node)}")

    def expr(self, e, env) -> F.FST:
        if isinstance(e, ast.Name):
            if e.id in env:
                return env[e.id]
            raise Outside(f"unknown name {e.id}")
        if isinstance(e, ast.Call):
            f = e.func
            if isinstance(f, ast.Attribute):
                if f.attr == "replace" and len(e.args) == 2 and not e.keywords:
                    base = self.expr(f.value, env)
                    old, new = self.const(e.args[0]), self.const(e.args[1])
                    if old == "":
                        raise Outside("replace of the empty string")
                    return F.compose(base, F.replace_fst(old, new, self.alphabet))
                if f.attr in IDENTITY_METHODS:
                    return self.expr(f.value, env)
                if f.attr == "split" and len(e.args) == 1 and not e.keywords and self.marker is not None:
                    sep = self.const(e.args[0])
                    if len(sep) != 1:
                        raise Outside("split on a multi-character separator")
                    # the resulting list, marker-encoded: every separator becomes the list marker
                    return F.compose(self.expr(f.value, env), F.relabel({sep: self.marker}, self.alphabet))
            if isinstance(f, ast.Name) and len(e.args) >= 1:
                if f.id in IDENTITY_CALLS:
                    return self.expr(e.args[0], env)
                if f.id in self.mod.functions:
                    return F.compose(self.expr(e.args[0], env), self.function(f.id))
                if f.id in self.imports:
                    return F.compose(self.expr(e.args[0], env), self.imports[f.id].function(f.id))
            raise Outside(f"call outside fragment: {ast.unparse(e)[:60]}")
        if isinstance(e, ast.JoinedStr):
            parts = []
            for v in e.values:
                if isinstance(v, ast.Constant):
                    parts.append(("c", v.value))
                elif isinstance(v, ast.FormattedValue) and v.conversion == -1 and v.format_spec is None:
                    parts.append(("v", self.expr(v.value, env)))
                else:
                    raise Outside("f-string with conversion / format spec")
            vs = [p for p in parts if p[0] == "v"]
            if len(vs) != 1:
                raise Outside("f-string with several interpolations")
            idx = parts.index(vs[0])
            prefix = "".join(p[1] for p in parts[:idx])
            suffix = "".join(p[1] for p in parts[idx + 1:])
            return F.concat_const(prefix, vs[0][1], suffix)
        if isinstance(e, ast.BinOp) and isinstance(e.op, ast.Add):
            if isinstance(e.left, ast.Constant):
                return F.concat_const(self.const(e.left), self.expr(e.right, env), "")
            if isinstance(e.right, ast.Constant):
                return F.concat_const("", self.expr(e.left, env), self.const(e.right))
        raise Outside(f"expression outside fragment: {ast.unparse(e)[:60]}")


def join_of_map(ex: "Extractor", qual: str, item_fn: F.FST, items_attr: str, marker: str):
    """Recognise  `return SEP.join([x.to_ical() for x in self.<items_attr>])`  and return the transducer on marker-encoded
    lists: item_fn per segment, marker -> SEP.  item_fn must be built over the alphabet WITHOUT the marker."""
    node = ex.mod.lookup(qual)
    if not isinstance(node, ast.FunctionDef):
        raise Outside(f"{qual} not found")
    body = source.strip_docstring(node.body)
    ok = len(body) == 1 and isinstance(body[0], ast.Return) and isinstance(body[0].value, ast.Call)
    if ok:
        call = body[0].value
        ok = (isinstance(call.func, ast.Attribute) and call.func.attr == "join" and isinstance(call.func.value, ast.Constant)
              and len(call.args) == 1 and isinstance(call.args[0], (ast.ListComp, ast.GeneratorExp)))
    if ok:
        comp = call.args[0]
        g = comp.generators
        ok = (len(g) == 1 and not g[0].ifs and isinstance(g[0].target, ast.Name) and ast.unparse(g[0].iter) == f"self.{items_attr}"
              and ast.unparse(comp.elt) == f"{g[0].target.id}.to_ical()")
    if not ok:
        raise Outside(f"{qual} is not SEP.join(x.to_ical() for x in self.{items_attr})")
    sep = call.func.value.value
    sep = sep.decode("latin-1") if isinstance(sep, bytes) else sep
    ex.used.append(f"{ex.mod.name}:{qual} (lines {source.lines_of(node)})")
    return F.compose(F.segmentwise(item_fn, marker, ex.alphabet), F.relabel({marker: sep}, ex.alphabet))


def crosscheck(fst: F.FST, native, alphabet, maxlen: int):
    """Exhaustive comparison of an extracted transducer with the real Python function on all strings <= maxlen.
    -> (checked, first disagreement or None)"""
    n = 0
    for s, outs in fst.enumerate(maxlen):
        n += 1
        try:
            want = native(s)
        except Exception as e:  # noqa
            want = ("raises", type(e).__name__)
        got = next(iter(outs)) if len(outs) == 1 else (None if not outs else tuple(sorted(outs)))
        if got != want:
            return n, (s, got, want)
    return n, None
