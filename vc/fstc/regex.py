"""Deterministic finite automata over a caller-supplied alphabet, and a
compiler from a fragment of Python ``re`` syntax to such automata.

Everything here is *relative to an explicit finite alphabet* (a list of distinct
one-character strings).  A DFA describes a set of strings over exactly that
alphabet; strings containing other symbols are out of scope and raise
``ValueError``.

Trusted-base notes
------------------
* ``DFA`` is always *total* (every state has a successor on every symbol); this
  makes ``complement`` a plain flip of the accepting set.
* ``dfa_from_regex`` parses with CPython's own parser (``re._parser``), so the
  *syntax* is exactly Python's.  The *semantics* we give to the syntax tree is
  the textbook language semantics (Thompson NFA, subset construction).  For
  the boolean questions ``fullmatch/search/match(...) is not None`` this
  coincides with Python's backtracking matcher on the supported fragment
  (backtracking explores every alternative, so "is there a match" is a pure
  language question).  Unsupported syntax raises ``NotImplementedError``;
  nothing is silently approximated.
* Membership of an alphabet symbol in ``\\d \\w \\s`` (and negations) is decided by
  asking Python's ``re`` itself about that single symbol.
"""
from __future__ import annotations

import re
from collections import deque

try:  # Python >= 3.11
    from re import _parser as _sre_parse
    from re import _constants as _sre_c
except ImportError:  # pragma: no cover - older interpreters
    import sre_parse as _sre_parse  # type: ignore
    import sre_constants as _sre_c  # type: ignore

__all__ = [
    "DFA",
    "StateLimitExceeded",
    "check_alphabet",
    "dfa_from_regex",
    "dfa_contains_any",
    "dfa_all",
    "dfa_none",
]


class StateLimitExceeded(RuntimeError):
    """Raised when a lazy construction discovers more states than allowed."""


def check_alphabet(alphabet):
    """Validate an alphabet (distinct single-character strings); return it as a list."""
    alphabet = list(alphabet)
    if not alphabet:
        raise ValueError("alphabet must not be empty")
    for a in alphabet:
        if not isinstance(a, str) or len(a) != 1:
            raise ValueError("alphabet symbols must be single-character strings: %r" % (a,))
    if len(set(alphabet)) != len(alphabet):
        raise ValueError("alphabet symbols must be distinct")
    return alphabet


# ---------------------------------------------------------------------------
# DFA
# ---------------------------------------------------------------------------

class DFA:
    """A total deterministic finite automaton.

    States are the integers ``0 .. n-1``; ``trans[q][a]`` is the successor of
    state ``q`` on symbol ``a``; ``init`` the initial state; ``accepting`` a
    frozenset of states.
    """

    def __init__(self, alphabet, trans, init, accepting):
        self.alphabet = check_alphabet(alphabet)
        self.trans = [dict(row) for row in trans]
        self.init = init
        self.accepting = frozenset(accepting)
        n = len(self.trans)
        if not (0 <= init < n):
            raise ValueError("initial state out of range")
        for q, row in enumerate(self.trans):
            if set(row) != set(self.alphabet):
                raise ValueError("DFA transition function must be total (state %d)" % q)
            for a, q2 in row.items():
                if not (0 <= q2 < n):
                    raise ValueError("transition target out of range")
        for q in self.accepting:
            if not (0 <= q < n):
                raise ValueError("accepting state out of range")
        self._live = None

    # -- construction -------------------------------------------------------

    @classmethod
    def from_function(cls, alphabet, init, step, accepting, limit=1_000_000):
        """Explore the deterministic system ``step(state, sym) -> state`` from
        ``init`` (states are arbitrary hashables) and number the reachable
        states in BFS order.  ``accepting(state) -> bool``."""
        alphabet = check_alphabet(alphabet)
        index = {init: 0}
        raw = [init]
        trans = []
        i = 0
        while i < len(raw):
            q = raw[i]
            row = {}
            for a in alphabet:
                q2 = step(q, a)
                j = index.get(q2)
                if j is None:
                    j = len(raw)
                    if j >= limit:
                        raise StateLimitExceeded("DFA exploration exceeded %d states" % limit)
                    index[q2] = j
                    raw.append(q2)
                row[a] = j
            trans.append(row)
            i += 1
        acc = [k for k, q in enumerate(raw) if accepting(q)]
        return cls(alphabet, trans, 0, acc)

    # -- basic queries ------------------------------------------------------

    @property
    def n_states(self):
        return len(self.trans)

    def step(self, q, a):
        try:
            return self.trans[q][a]
        except KeyError:
            raise ValueError("symbol %r not in alphabet" % (a,)) from None

    def run(self, q, s):
        """State reached from ``q`` after reading the string ``s``."""
        trans = self.trans
        try:
            for a in s:
                q = trans[q][a]
        except KeyError:
            raise ValueError("string %r contains a symbol outside the alphabet" % (s,)) from None
        return q

    def accepts(self, s):
        return self.run(self.init, s) in self.accepting

    def live_states(self):
        """Set of states from which an accepting state is reachable (in >= 0 steps)."""
        if self._live is None:
            pred = [[] for _ in self.trans]
            for q, row in enumerate(self.trans):
                for q2 in row.values():
                    pred[q2].append(q)
            live = set(self.accepting)
            todo = list(live)
            while todo:
                q = todo.pop()
                for p in pred[q]:
                    if p not in live:
                        live.add(p)
                        todo.append(p)
            self._live = frozenset(live)
        return self._live

    def is_empty(self):
        return self.init not in self.live_states()

    def shortest_accepted(self):
        """A shortest accepted string (first in alphabet order among BFS ties), or None."""
        if self.init in self.accepting:
            return ""
        parent = {self.init: None}
        queue = deque([self.init])
        while queue:
            q = queue.popleft()
            for a in self.alphabet:
                q2 = self.trans[q][a]
                if q2 in parent:
                    continue
                parent[q2] = (q, a)
                if q2 in self.accepting:
                    out = []
                    cur = q2
                    while parent[cur] is not None:
                        cur, sym = parent[cur]
                        out.append(sym)
                    return "".join(reversed(out))
                queue.append(q2)
        return None

    # -- boolean operations -------------------------------------------------

    def _same_alphabet(self, other):
        if set(self.alphabet) != set(other.alphabet):
            raise ValueError("DFAs are over different alphabets")

    def complement(self):
        """Complement relative to alphabet* (sound because the DFA is total)."""
        acc = [q for q in range(len(self.trans)) if q not in self.accepting]
        return DFA(self.alphabet, self.trans, self.init, acc)

    def product(self, other, op):
        """Reachable product automaton; accepting iff ``op(acc_self, acc_other)``."""
        self._same_alphabet(other)
        t1, t2 = self.trans, other.trans
        a1, a2 = self.accepting, other.accepting
        return DFA.from_function(
            self.alphabet,
            (self.init, other.init),
            lambda pq, a: (t1[pq[0]][a], t2[pq[1]][a]),
            lambda pq: bool(op(pq[0] in a1, pq[1] in a2)),
        )

    def intersect(self, other):
        return self.product(other, lambda x, y: x and y)

    def union(self, other):
        return self.product(other, lambda x, y: x or y)

    def difference(self, other):
        return self.product(other, lambda x, y: x and not y)

    def symmetric_difference(self, other):
        return self.product(other, lambda x, y: x != y)

    def equivalent_to(self, other):
        """``(True, None)`` if both accept the same language, else ``(False, w)``
        with ``w`` a shortest string accepted by exactly one of them."""
        w = self.symmetric_difference(other).shortest_accepted()
        return (w is None, w)

    def is_subset_of(self, other):
        w = self.difference(other).shortest_accepted()
        return (w is None, w)

    # -- minimisation -------------------------------------------------------

    def minimize(self):
        """Language-equivalent minimal total DFA (Moore partition refinement on
        the reachable part), states renumbered in BFS order from the initial
        state, so two minimal DFAs of the same language over the same alphabet
        *order* are structurally identical."""
        alphabet = self.alphabet
        # reachable part
        order = [self.init]
        seen = {self.init}
        for q in order:
            for a in alphabet:
                q2 = self.trans[q][a]
                if q2 not in seen:
                    seen.add(q2)
                    order.append(q2)
        block = {q: (1 if q in self.accepting else 0) for q in order}
        nblocks = len(set(block.values()))
        while True:
            sig = {q: (block[q],) + tuple(block[self.trans[q][a]] for a in alphabet) for q in order}
            ids = {}
            newblock = {}
            for q in order:
                s = sig[q]
                if s not in ids:
                    ids[s] = len(ids)
                newblock[q] = ids[s]
            block = newblock
            if len(ids) == nblocks:
                break
            nblocks = len(ids)
        rep = {}
        for q in order:
            rep.setdefault(block[q], q)
        return DFA.from_function(
            alphabet,
            block[self.init],
            lambda b, a: block[self.trans[rep[b]][a]],
            lambda b: rep[b] in self.accepting,
        )

    def __repr__(self):
        return "DFA(states=%d, accepting=%d, alphabet=%r)" % (
            len(self.trans), len(self.accepting), "".join(self.alphabet))


def dfa_all(alphabet):
    """DFA accepting every string over the alphabet."""
    alphabet = check_alphabet(alphabet)
    return DFA(alphabet, [{a: 0 for a in alphabet}], 0, [0])


def dfa_none(alphabet):
    """DFA accepting nothing."""
    alphabet = check_alphabet(alphabet)
    return DFA(alphabet, [{a: 0 for a in alphabet}], 0, [])


def dfa_contains_any(substrings, alphabet):
    """DFA for ``alphabet* (s1|s2|...) alphabet*``: the strings containing at
    least one of the given substrings.

    Construction: a state is the set of partial matches ``(i, k)`` meaning "the
    last ``k`` symbols read equal ``substrings[i][:k]``" (``k >= 1``), or the
    absorbing accepting state ``True`` once some substring has been completed.
    """
    alphabet = check_alphabet(alphabet)
    subs = list(substrings)
    symset = set(alphabet)
    for s in subs:
        if not isinstance(s, str):
            raise ValueError("substrings must be strings")
        for ch in s:
            if ch not in symset:
                raise ValueError("substring %r uses symbol %r outside the alphabet" % (s, ch))
    if any(s == "" for s in subs):
        return dfa_all(alphabet)

    def step(state, a):
        if state is True:
            return True
        new = set()
        for i, s in enumerate(subs):
            if s[0] == a:
                if len(s) == 1:
                    return True
                new.add((i, 1))
        for (i, k) in state:
            s = subs[i]
            if s[k] == a:
                if k + 1 == len(s):
                    return True
                new.add((i, k + 1))
        return frozenset(new)

    return DFA.from_function(alphabet, frozenset(), step, lambda st: st is True).minimize()


# ---------------------------------------------------------------------------
# regex -> NFA -> DFA
# ---------------------------------------------------------------------------

_MAX_REPEAT_COPIES = 256

_CATEGORY_ESCAPE = {
    "CATEGORY_DIGIT": r"\d",
    "CATEGORY_NOT_DIGIT": r"\D",
    "CATEGORY_SPACE": r"\s",
    "CATEGORY_NOT_SPACE": r"\S",
    "CATEGORY_WORD": r"\w",
    "CATEGORY_NOT_WORD": r"\W",
}


class _NFA:
    """Thompson NFA with epsilon moves; moves are labelled by symbol sets."""

    def __init__(self):
        self.eps = []    # eps[i]   = list of successor states
        self.moves = []  # moves[i] = list of (frozenset_of_symbols, successor)

    def new(self):
        self.eps.append([])
        self.moves.append([])
        return len(self.eps) - 1


class _Compiler:
    def __init__(self, alphabet, allow_lazy):
        self.alphabet = alphabet
        self.symset = frozenset(alphabet)
        self.allow_lazy = allow_lazy
        self.nfa = _NFA()
        self._cat_cache = {}

    # ---- symbol sets ------------------------------------------------------

    def _category(self, cat):
        name = str(cat)
        esc = _CATEGORY_ESCAPE.get(name)
        if esc is None:
            raise NotImplementedError("regex category %s" % name)
        got = self._cat_cache.get(esc)
        if got is None:
            rx = re.compile(esc)
            got = frozenset(a for a in self.alphabet if rx.fullmatch(a) is not None)
            self._cat_cache[esc] = got
        return got

    def _class_items(self, items):
        negate = False
        acc = set()
        for k, (op, av) in enumerate(items):
            if op is _sre_c.NEGATE:
                if k != 0:
                    raise NotImplementedError("NEGATE not at the start of a character class")
                negate = True
            elif op is _sre_c.LITERAL:
                if chr(av) in self.symset:
                    acc.add(chr(av))
            elif op is _sre_c.RANGE:
                lo, hi = av
                acc.update(a for a in self.alphabet if lo <= ord(a) <= hi)
            elif op is _sre_c.CATEGORY:
                acc.update(self._category(av))
            else:
                raise NotImplementedError("character class item %s" % (op,))
        return frozenset(self.symset - acc) if negate else frozenset(acc)

    # ---- fragments (start, end) -------------------------------------------

    def _sym_fragment(self, syms):
        s = self.nfa.new()
        e = self.nfa.new()
        if syms:
            self.nfa.moves[s].append((frozenset(syms), e))
        return s, e

    def seq(self, items):
        s = self.nfa.new()
        cur = s
        for item in items:
            fs, fe = self.node(item)
            self.nfa.eps[cur].append(fs)
            cur = fe
        return s, cur

    def node(self, item):
        op, av = item
        c = _sre_c
        if op is c.LITERAL:
            ch = chr(av)
            return self._sym_fragment({ch} if ch in self.symset else ())
        if op is c.NOT_LITERAL:
            return self._sym_fragment(self.symset - {chr(av)})
        if op is c.ANY:
            # '.' without DOTALL: anything but a newline
            return self._sym_fragment(self.symset - {"\n"})
        if op is c.IN:
            return self._sym_fragment(self._class_items(av))
        if op is c.BRANCH:
            _, branches = av
            s = self.nfa.new()
            e = self.nfa.new()
            for br in branches:
                fs, fe = self.seq(list(br))
                self.nfa.eps[s].append(fs)
                self.nfa.eps[fe].append(e)
            return s, e
        if op is c.SUBPATTERN:
            _group, add_flags, del_flags, sub = av
            if add_flags or del_flags:
                raise NotImplementedError("inline flags in a group")
            return self.seq(list(sub))
        if op is c.MAX_REPEAT or op is c.MIN_REPEAT:
            if op is c.MIN_REPEAT and not self.allow_lazy:
                raise NotImplementedError("lazy quantifier (match selection differs from leftmost-longest)")
            lo, hi, sub = av
            return self.repeat(lo, hi, list(sub))
        if op is c.AT:
            raise NotImplementedError("anchor %s in this position" % (av,))
        raise NotImplementedError("regex construct %s" % (op,))

    def repeat(self, lo, hi, sub):
        unbounded = hi is _sre_c.MAXREPEAT or hi == _sre_c.MAXREPEAT
        if lo > _MAX_REPEAT_COPIES or (not unbounded and hi > _MAX_REPEAT_COPIES):
            raise NotImplementedError("repeat count too large")
        nfa = self.nfa
        s = nfa.new()
        cur = s
        for _ in range(lo):
            fs, fe = self.seq(sub)
            nfa.eps[cur].append(fs)
            cur = fe
        if unbounded:
            # Kleene star: loop state `hub` is both entry and exit
            hub = nfa.new()
            nfa.eps[cur].append(hub)
            fs, fe = self.seq(sub)
            nfa.eps[hub].append(fs)
            nfa.eps[fe].append(hub)
            return s, hub
        e = nfa.new()
        for _ in range(hi - lo):
            nfa.eps[cur].append(e)      # stop here
            fs, fe = self.seq(sub)
            nfa.eps[cur].append(fs)     # or take one more copy
            cur = fe
        nfa.eps[cur].append(e)
        return s, e


def _parse(pattern):
    flags = 0
    if isinstance(pattern, re.Pattern):
        flags = pattern.flags
        pattern = pattern.pattern
    if not isinstance(pattern, str):
        raise NotImplementedError("only str patterns are supported")
    tree = _sre_parse.parse(pattern, flags & ~int(re.UNICODE))
    bad = tree.state.flags & ~int(re.UNICODE)
    if bad:
        raise NotImplementedError("regex flags 0x%x are not supported" % bad)
    return list(tree)


def dfa_from_regex(pattern, alphabet, mode="fullmatch", allow_lazy=True, allow_anchors=True):
    """Compile ``pattern`` (a str, or a compiled ``re.Pattern`` without flags)
    into a minimal DFA over ``alphabet`` accepting exactly the strings ``s``
    (over the alphabet) for which

    * ``mode='fullmatch'``: ``re.fullmatch(pattern, s)`` succeeds,
    * ``mode='match'``:     ``re.match(pattern, s)`` succeeds,
    * ``mode='search'``:    ``re.search(pattern, s)`` succeeds.

    Supported: literals, escapes, ``\\d \\w \\s \\D \\W \\S``, classes with ranges and
    negation, ``.``, concatenation, ``|``, groups (capturing, non-capturing,
    named), quantifiers ``? * + {m,n}`` (lazy variants too when
    ``allow_lazy`` -- laziness never changes *whether* there is a match), a
    leading ``^`` / ``\\A`` and a trailing ``$`` / ``\\Z`` at the top level of the
    pattern.  Python's ``$`` also matches just before a string-final newline;
    this is modelled faithfully:

    ========== ====================== =========================
    mode       ``P$``                 ``P\\Z``
    ========== ====================== =========================
    fullmatch  L(P)                   L(P)
    match      L(P) ('\\n')?           L(P)
    search     Sigma* L(P) ('\\n')?    Sigma* L(P)
    ========== ====================== =========================

    (``fullmatch`` requires the match to end at the end of the string, where
    ``$`` holds trivially.)  Everything else -- back-references, look-around,
    word boundaries, anchors elsewhere, flags, possessive/atomic constructs --
    raises ``NotImplementedError``.
    """
    alphabet = check_alphabet(alphabet)
    if mode not in ("fullmatch", "match", "search"):
        raise ValueError("mode must be 'fullmatch', 'match' or 'search'")
    items = _parse(pattern)
    c = _sre_c

    anchored_start = False
    end_anchor = None  # None | 'dollar' | 'Z'
    if items and items[0][0] is c.AT and items[0][1] in (c.AT_BEGINNING, c.AT_BEGINNING_STRING):
        anchored_start = True
        items = items[1:]
    if items and items[-1][0] is c.AT and items[-1][1] in (c.AT_END, c.AT_END_STRING):
        end_anchor = "dollar" if items[-1][1] is c.AT_END else "Z"
        items = items[:-1]
    if (anchored_start or end_anchor) and not allow_anchors:
        raise NotImplementedError("anchors are not supported here")

    comp = _Compiler(alphabet, allow_lazy)
    nfa = comp.nfa
    body_s, body_e = comp.seq(items)

    start = nfa.new()
    if mode == "search" and not anchored_start:
        # Sigma* prefix
        nfa.moves[start].append((frozenset(alphabet), start))
    nfa.eps[start].append(body_s)

    final = nfa.new()
    if mode == "fullmatch":
        nfa.eps[body_e].append(final)
    else:
        if end_anchor is None:
            nfa.eps[body_e].append(final)
            nfa.moves[final].append((frozenset(alphabet), final))   # Sigma* tail
        elif end_anchor == "Z":
            nfa.eps[body_e].append(final)
        else:  # '$': end of string, or just before a string-final newline
            nfa.eps[body_e].append(final)
            if "\n" in alphabet:
                nfa.moves[body_e].append((frozenset(["\n"]), final))

    # ---- subset construction ----
    eps = nfa.eps
    moves = nfa.moves

    def closure(states):
        seen = set(states)
        todo = list(states)
        while todo:
            q = todo.pop()
            for q2 in eps[q]:
                if q2 not in seen:
                    seen.add(q2)
                    todo.append(q2)
        return frozenset(seen)

    def step(S, a):
        tgt = set()
        for q in S:
            for syms, q2 in moves[q]:
                if a in syms:
                    tgt.add(q2)
        return closure(tgt)

    dfa = DFA.from_function(alphabet, closure([start]), step, lambda S: final in S)
    return dfa.minimize()
