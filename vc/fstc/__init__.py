"""fstc -- a decision procedure for finite-state string transformations.

Pure-Python (stdlib only).  Models chains of ``str.replace``, constant regex
substitutions, joins/splits etc. as finite-state transducers over a small
caller-chosen alphabet and decides, for *all* strings over that alphabet,
whether two such functions agree (``equivalent``), whether a transducer is
functional (``functional``) and whether its image lies in a regular language
(``image_subset``).  Refutations come with a shortest input witness that has
been re-checked by direct evaluation.

Modules: ``regex`` (DFA, regex -> DFA), ``fst`` (transducers and constructors),
``decide`` (decision procedures), ``selftest`` (exhaustive cross-checks against
CPython; run ``python -m vc.fstc.selftest``).
"""
from .regex import (DFA, StateLimitExceeded, dfa_from_regex, dfa_contains_any,
                    dfa_all, dfa_none)
from .fst import (FST, identity, replace_fst, replace_chain, compose, compose_all,
                  concat_const, restrict, union, segmentwise, relabel,
                  regex_sub_fst, regex_split_fst, crosscheck_regex_sub)
from .decide import (Result, equivalent, functional, image_subset,
                     differing_inputs_dfa, domain_dfa)

__all__ = [
    "DFA", "StateLimitExceeded", "dfa_from_regex", "dfa_contains_any", "dfa_all", "dfa_none",
    "FST", "identity", "replace_fst", "replace_chain", "compose", "compose_all",
    "concat_const", "restrict", "union", "segmentwise", "relabel",
    "regex_sub_fst", "regex_split_fst", "crosscheck_regex_sub",
    "Result", "equivalent", "functional", "image_subset", "differing_inputs_dfa", "domain_dfa",
]
