"""Finite-state transducers with final output, and the constructors that model
CPython string operations (``str.replace``, ``re.sub`` with a constant,
join/split via a marker symbol, ...).

Model
-----
An ``FST`` is a (possibly non-deterministic) real-time transducer over one
alphabet ``A`` (input and output symbols are the same set):

* a single initial state ``init``,
* ``delta(q, a)``  -> list of ``(q2, out)``, ``out`` a string over ``A``,
* ``final(q)``     -> ``None`` (not accepting) or the string flushed at the end
  of the input.

The *relation* of the transducer maps an input ``a1..an`` to every string
``out1 ... outn flush`` along a run ``init -a1/out1-> q1 ... -an/outn-> qn`` with
``final(qn) = flush``.  The transducer is *functional* if every input has at
most one output (several runs may produce it).  All constructors below produce
functional transducers from functional arguments (``union`` under the
documented promise); ``decide.functional`` checks functionality.

Internally the flush may be multi-valued (``finals(q)`` is a tuple of
strings); this only arises from ``compose``/``union`` of non-deterministic or
overlapping operands and keeps those constructions exact.  ``final(q)`` raises
``ValueError`` when asked for "the" flush of such a state.

States are discovered lazily and interned to small integers; the algorithms in
``decide`` work on the integer ids (``delta_id``/``finals_id``), the public
``delta``/``final`` on the caller's own state objects.

Every output string is checked to consist of alphabet symbols; a constant
outside the alphabet raises ``ValueError`` (the alphabet abstraction chosen by
the caller would be inadequate, so refusing is the sound reaction).
"""
from __future__ import annotations

from .regex import DFA, StateLimitExceeded, check_alphabet, dfa_from_regex

__all__ = [
    "FST",
    "identity",
    "replace_fst",
    "replace_chain",
    "compose",
    "compose_all",
    "concat_const",
    "restrict",
    "union",
    "segmentwise",
    "relabel",
    "regex_sub_fst",
    "regex_split_fst",
    "crosscheck_regex_sub",
]


class FST:
    """Lazy non-deterministic transducer with final output (see module doc)."""

    def __init__(self, alphabet, init, step, final, name=""):
        self.alphabet = check_alphabet(alphabet)
        self._symset = frozenset(self.alphabet)
        self.init = init
        self._step = step
        self._finalf = final
        self.name = name
        self._ids = {init: 0}
        self._raw = [init]
        self._trans = [{}]      # per id: sym -> tuple of (id2, out)
        self._fin = [None]      # per id: tuple of flush strings (None = not computed yet)

    # -- construction -------------------------------------------------------

    @classmethod
    def from_function(cls, alphabet, init, step, final, name=""):
        """``step(state, sym)`` returns one ``(state2, out)`` pair, or a list of
        such pairs (empty list / ``None`` = no transition); ``final(state)``
        returns ``None`` or the flush string (or a collection of strings)."""
        return cls(alphabet, init, step, final, name)

    # -- interning ----------------------------------------------------------

    def _intern(self, raw):
        i = self._ids.get(raw)
        if i is None:
            i = len(self._raw)
            self._ids[raw] = i
            self._raw.append(raw)
            self._trans.append({})
            self._fin.append(None)
        return i

    def _check_out(self, out):
        if not isinstance(out, str):
            raise ValueError("transducer output must be a string, got %r" % (out,))
        for ch in out:
            if ch not in self._symset:
                raise ValueError(
                    "transducer %r emits symbol %r which is not in the alphabet" % (self.name, ch))
        return out

    def delta_id(self, i, a):
        """Transitions of state id ``i`` on symbol ``a``: tuple of ``(id2, out)``."""
        row = self._trans[i]
        got = row.get(a)
        if got is None:
            if a not in self._symset:
                raise ValueError("symbol %r not in alphabet" % (a,))
            res = self._step(self._raw[i], a)
            if res is None:
                res = []
            elif isinstance(res, tuple) and len(res) == 2 and isinstance(res[1], str):
                res = [res]
            out = []
            seen = set()
            for q2, o in res:
                key = (self._intern(q2), self._check_out(o))
                if key not in seen:
                    seen.add(key)
                    out.append(key)
            got = tuple(out)
            row[a] = got
        return got

    def finals_id(self, i):
        """Tuple of possible flush strings of state id ``i`` (empty = not accepting)."""
        got = self._fin[i]
        if got is None:
            res = self._finalf(self._raw[i])
            if res is None:
                got = ()
            elif isinstance(res, str):
                got = (self._check_out(res),)
            else:
                got = tuple(sorted({self._check_out(x) for x in res}))
            self._fin[i] = got
        return got

    def run_id(self, i, s):
        """All ``(id2, out)`` reachable from state id ``i`` by reading string ``s``."""
        configs = [(i, "")]
        for a in s:
            new = []
            seen = set()
            for j, acc in configs:
                for j2, o in self.delta_id(j, a):
                    key = (j2, acc + o)
                    if key not in seen:
                        seen.add(key)
                        new.append(key)
            configs = new
            if not configs:
                break
        return configs

    # -- public, raw-state API ---------------------------------------------

    def state_of(self, i):
        """The caller-level state object with id ``i``."""
        return self._raw[i]

    def delta(self, state, sym):
        return [(self._raw[j], o) for j, o in self.delta_id(self._intern(state), sym)]

    def finals(self, state):
        return self.finals_id(self._intern(state))

    def final(self, state):
        f = self.finals_id(self._intern(state))
        if not f:
            return None
        if len(f) > 1:
            raise ValueError("state %r has several distinct flush strings %r" % (state, f))
        return f[0]

    def apply(self, s):
        """Set of all outputs of accepting runs on ``s``."""
        configs = {0: {""}}
        for a in s:
            configs = self._advance(configs, a)
            if not configs:
                return set()
        return self._results(configs)

    def apply1(self, s):
        """The output on ``s``, ``None`` if undefined; raises ``ValueError`` if
        there are several distinct outputs."""
        res = self.apply(s)
        if not res:
            return None
        if len(res) > 1:
            raise ValueError("transducer is not functional on %r: %r" % (s, sorted(res)))
        return next(iter(res))

    __call__ = apply1

    def _advance(self, configs, a):
        new = {}
        for i, outs in configs.items():
            for j, o in self.delta_id(i, a):
                tgt = new.get(j)
                if tgt is None:
                    tgt = new[j] = set()
                if o:
                    for x in outs:
                        tgt.add(x + o)
                else:
                    tgt.update(outs)
        return new

    def _results(self, configs):
        res = set()
        for i, outs in configs.items():
            for f in self.finals_id(i):
                for x in outs:
                    res.add(x + f)
        return res

    def enumerate(self, maxlen):
        """Yield ``(s, outputs)`` for every string ``s`` over the alphabet with
        ``len(s) <= maxlen`` (depth-first, sharing the work on common prefixes).
        ``outputs`` is the set ``apply(s)``."""
        alphabet = self.alphabet

        def rec(prefix, configs, depth):
            yield prefix, (self._results(configs) if configs else set())
            if depth == maxlen:
                return
            for a in alphabet:
                yield from rec(prefix + a, self._advance(configs, a) if configs else configs, depth + 1)

        return rec("", {0: {""}}, 0)

    def explore(self, limit=1_000_000):
        """Discover all reachable states; return their number.  Raises
        ``StateLimitExceeded`` beyond ``limit`` states."""
        seen = {0}
        todo = [0]
        while todo:
            i = todo.pop()
            self.finals_id(i)
            for a in self.alphabet:
                for j, _ in self.delta_id(i, a):
                    if j not in seen:
                        seen.add(j)
                        if len(seen) > limit:
                            raise StateLimitExceeded("FST exploration exceeded %d states" % limit)
                        todo.append(j)
        return len(seen)

    def is_deterministic(self, limit=1_000_000):
        """True iff every reachable state has at most one transition per symbol
        and at most one flush (a *sequential* transducer; trivially functional)."""
        self.explore(limit)
        for i in range(len(self._raw)):
            if self._fin[i] is not None and len(self._fin[i]) > 1:
                return False
            for a, ts in self._trans[i].items():
                if len(ts) > 1:
                    return False
        return True

    def __repr__(self):
        return "FST(%s, %d states discovered, alphabet=%r)" % (
            self.name or "?", len(self._raw), "".join(self.alphabet))


# ---------------------------------------------------------------------------
# helpers
# ---------------------------------------------------------------------------

def _require_same_alphabet(x, y, what):
    if set(x.alphabet) != set(y.alphabet):
        raise ValueError("%s: operands are over different alphabets (%r vs %r)" % (
            what, "".join(x.alphabet), "".join(y.alphabet)))


def _require_over(s, alphabet, what):
    if not isinstance(s, str):
        raise ValueError("%s must be a string" % what)
    symset = set(alphabet)
    for ch in s:
        if ch not in symset:
            raise ValueError("%s %r uses symbol %r which is not in the alphabet" % (what, s, ch))


# ---------------------------------------------------------------------------
# constructors
# ---------------------------------------------------------------------------

def identity(alphabet):
    """x -> x."""
    return FST(alphabet, 0, lambda q, a: (0, a), lambda q: "", name="id")


def relabel(mapping, alphabet):
    """Letter-to-string homomorphism: every symbol ``a`` is rewritten to
    ``mapping.get(a, a)``.  E.g. ``relabel({MARK: ','}, A)`` models
    ``','.join(segments)`` on marker-encoded lists and ``relabel({',': MARK}, A)``
    models ``s.split(',')``."""
    alphabet = check_alphabet(alphabet)
    table = {}
    for a, v in mapping.items():
        _require_over(a, alphabet, "relabel key")
        if len(a) != 1:
            raise ValueError("relabel keys must be single symbols")
        _require_over(v, alphabet, "relabel value")
        table[a] = v
    return FST(alphabet, 0, lambda q, a: (0, table.get(a, a)), lambda q: "", name="relabel")


def replace_fst(old, new, alphabet):
    """Exactly CPython's ``s.replace(old, new)`` (all occurrences, leftmost,
    non-overlapping) as a sequential transducer.

    States are the *pending* texts: proper prefixes ``p`` of ``old`` that have
    been read but not yet emitted.  Invariant (KMP): ``p`` is the longest
    suffix of the input consumed since the last completed match that is a
    proper prefix of ``old``; everything before it has been emitted.

    On symbol ``a`` let ``t = p + a``.
      * ``t == old``: a match is complete -- emit ``new``, pending becomes
        empty (matches do not overlap, so scanning restarts from scratch).
        Because ``p`` is the *longest* candidate, a match ending here exists
        iff ``t == old`` (a match ending here makes ``old[:-1]`` a suffix of
        the consumed text, and no proper prefix is longer).
      * otherwise let ``k`` be the largest ``k < len(old)`` with ``t`` ending in
        ``old[:k]``; emit ``t[:len(t)-k]`` and keep ``t[len(t)-k:]`` pending.
        The emitted symbols cannot be the start of a later match, because such
        a match would extend to or past the current position and thus make a
        longer suffix of ``t`` a prefix of ``old``.
    At the end of the input the pending text is flushed unchanged.
    Since all occurrences have equal length, "first to end" = "leftmost".

    ``old == ''`` is supported as well (``new`` is inserted before every symbol
    and at the end, as CPython does).
    """
    alphabet = check_alphabet(alphabet)
    _require_over(old, alphabet, "replace: old")
    _require_over(new, alphabet, "replace: new")
    name = "replace(%r,%r)" % (old, new)
    if old == "":
        return FST(alphabet, "", lambda q, a: ("", new + a), lambda q: new, name=name)
    n = len(old)
    prefixes = [old[:k] for k in range(n)]

    def step(p, a):
        t = p + a
        if t == old:
            return ("", new)
        lt = len(t)
        for k in range(min(lt, n - 1), -1, -1):
            if t.endswith(prefixes[k]):
                return (t[lt - k:], t[:lt - k])
        raise AssertionError("unreachable: k = 0 always qualifies")

    return FST(alphabet, "", step, lambda p: p, name=name)


def compose(f, g):
    """x -> g(f(x)): f's outputs are fed into g.

    State ``(i, j)`` = (state of f, state of g after reading everything f has
    emitted so far).  A transition of f emitting ``o`` is combined with every
    run of g over ``o``.  At the end of the input f's flush is pushed through g
    and then g's own flush is appended.  This is the standard composition of
    real-time transducers with final output; the composed relation is exactly
    the relational composition, hence functional if f and g are.
    """
    _require_same_alphabet(f, g, "compose")

    def step(st, a):
        i, j = st
        res = []
        for i2, o in f.delta_id(i, a):
            if o:
                for j2, o2 in g.run_id(j, o):
                    res.append(((i2, j2), o2))
            else:
                res.append(((i2, j), ""))
        return res

    def final(st):
        i, j = st
        outs = set()
        for ff in f.finals_id(i):
            for j2, o2 in g.run_id(j, ff):
                for gf in g.finals_id(j2):
                    outs.add(o2 + gf)
        return outs or None

    return FST(f.alphabet, (0, 0), step, final, name="(%s ; %s)" % (f.name, g.name))


def compose_all(fsts):
    """Left-to-right composition: ``compose_all([f, g, h])(x) = h(g(f(x)))``."""
    fsts = list(fsts)
    if not fsts:
        raise ValueError("compose_all needs at least one transducer")
    acc = fsts[0]
    for t in fsts[1:]:
        acc = compose(acc, t)
    return acc


def replace_chain(pairs, alphabet):
    """``s.replace(o1, n1).replace(o2, n2)...`` for ``pairs = [(o1, n1), (o2, n2), ...]``
    (identity for an empty list)."""
    pairs = list(pairs)
    if not pairs:
        return identity(alphabet)
    return compose_all([replace_fst(o, n, alphabet) for o, n in pairs])


def concat_const(prefix, f, suffix):
    """x -> prefix + f(x) + suffix.

    A fresh initial state behaves like f's initial state but prepends
    ``prefix`` to the first output (or to the flush on the empty input);
    ``suffix`` is appended to every flush."""
    _require_over(prefix, f.alphabet, "concat_const: prefix")
    _require_over(suffix, f.alphabet, "concat_const: suffix")
    START = ("start",)

    def step(st, a):
        if st == START:
            return [((i2,), prefix + o) for i2, o in f.delta_id(0, a)]
        return [((i2,), o) for i2, o in f.delta_id(st[0], a)]

    def final(st):
        if st == START:
            return {prefix + ff + suffix for ff in f.finals_id(0)} or None
        return {ff + suffix for ff in f.finals_id(st[0])} or None

    return FST(f.alphabet, START, step, final, name="%r+%s+%r" % (prefix, f.name, suffix))


def restrict(f, dfa):
    """The function f restricted to the inputs accepted by ``dfa`` (product of
    f with the DFA reading the *input*; a state accepts only if the DFA does)."""
    _require_same_alphabet(f, dfa, "restrict")
    acc = dfa.accepting
    trans = dfa.trans

    def step(st, a):
        i, d = st
        d2 = trans[d][a]
        return [((i2, d2), o) for i2, o in f.delta_id(i, a)]

    def final(st):
        i, d = st
        if d not in acc:
            return None
        return f.finals_id(i) or None

    return FST(f.alphabet, (0, dfa.init), step, final, name="(%s | dom)" % f.name)


def union(f, g):
    """Union of the two relations.  The result is functional iff f and g are
    functional and agree wherever both are defined -- the caller promises this
    (typically the domains are disjoint:
    ``union(restrict(A, L), restrict(B, L.complement()))`` models
    ``A(x) if x in L else B(x)``); ``decide.functional`` can check it."""
    _require_same_alphabet(f, g, "union")
    START = ("start",)

    def step(st, a):
        if st == START:
            return ([((0, i2), o) for i2, o in f.delta_id(0, a)]
                    + [((1, j2), o) for j2, o in g.delta_id(0, a)])
        side, i = st
        t = f if side == 0 else g
        return [((side, i2), o) for i2, o in t.delta_id(i, a)]

    def final(st):
        if st == START:
            return set(f.finals_id(0)) | set(g.finals_id(0)) or None
        side, i = st
        return (f if side == 0 else g).finals_id(i) or None

    return FST(f.alphabet, START, step, final, name="(%s U %s)" % (f.name, g.name))


def segmentwise(f, marker, alphabet=None):
    """Apply f to every segment of a marker-encoded list.

    The input ``x1 M x2 M ... M xn`` (``n >= 1``; the empty input is the list
    with one empty segment) is mapped to ``f(x1) M f(x2) M ... M f(xn)``.  ``f``
    must be over an alphabet *without* the marker (so it can neither read nor
    write it); the result is over ``f.alphabet + [marker]`` (or the given
    ``alphabet``, which must be that set in some order).

    Construction: same states as f.  On the marker, from state ``q``: emit
    ``flush(q) + M`` and go back to f's initial state -- if ``q`` has no flush
    (f undefined on this segment) the run dies, so the whole list is outside
    the domain, as for a Python list comprehension that raises.  At the end of
    the input flush as f does.
    """
    if not isinstance(marker, str) or len(marker) != 1:
        raise ValueError("marker must be a single symbol")
    if marker in f.alphabet:
        raise ValueError("segmentwise: f must be defined over an alphabet without the marker")
    if alphabet is None:
        alphabet = list(f.alphabet) + [marker]
    else:
        alphabet = check_alphabet(alphabet)
        if set(alphabet) != set(f.alphabet) | {marker}:
            raise ValueError("segmentwise: alphabet must be f.alphabet plus the marker")

    def step(i, a):
        if a == marker:
            return [(0, ff + marker) for ff in f.finals_id(i)]
        return list(f.delta_id(i, a))

    def final(i):
        return f.finals_id(i) or None

    return FST(alphabet, 0, step, final, name="map(%s)" % f.name)


# ---------------------------------------------------------------------------
# regex substitution
# ---------------------------------------------------------------------------

_COPY = -1


def regex_sub_fst(pattern, repl, alphabet):
    """The function ``s -> re.sub(pattern, lambda m: repl, s)`` under
    LEFTMOST-LONGEST match selection, for a pattern that cannot match the empty
    string and a *literal* replacement ``repl`` (no back-references; template
    escapes such as ``\\n`` must already be resolved by the caller: ``re.sub``
    would template-process a backslash in ``repl`` whereas it would be taken
    literally here, so a ``repl`` containing a backslash is refused with
    ``NotImplementedError`` to avoid the confusion).

    Python's matcher is leftmost with *backtracking priorities* (greedy
    quantifiers, first alternative first), which is the same as
    leftmost-longest for many patterns (e.g. ``(\\r?\\n)+[ \\t]``, ``\\r?\\n``) but
    not for all (``a|ab``).  ``crosscheck_regex_sub`` compares exhaustively with
    ``re.sub`` up to a length bound; the self-test does this for the patterns
    the tool relies on.

    Construction (functional, non-deterministic).  Let ``M`` be the minimal DFA
    of ``L(pattern)`` (initial state ``q0``, not accepting).  A state is
    ``(mode, obligations)``:

    * ``mode`` is COPY (outside a match) or an ``M``-state ``q`` (inside a match
      whose text read so far leads ``M`` from ``q0`` to ``q``);
    * ``obligations`` is a set of ``M``-states each of which must *never reach an
      accepting state on the remaining input* (after at least one more
      symbol).  They record the two kinds of guesses made:
      "no match starts at a position whose symbol I copied" and
      "no longer match exists than the one I ended".

    On symbol ``a`` every obligation state is advanced; if one becomes
    accepting the run dies; states that can no longer reach acceptance are
    dropped.  Then

    * COPY, guess "no match starts here": emit ``a``; ``M(q0, a)`` must not be
      accepting and becomes an obligation.
    * COPY, guess "a match starts here": ``q = M(q0, a)`` must be live; go on as
      inside a match with ``q``.
    * inside a match with (new) state ``q``: either continue (emit nothing), or,
      if ``q`` is accepting, end the match here: emit ``repl``, return to COPY,
      and add ``q`` as an obligation (no longer match).

    Accepting states are the COPY states (pending obligations lapse at the end
    of the input).  An "inside a match" state is never accepting: a match that
    ends with the input is ended by the explicit "end the match" transition on
    its last symbol.  (Making ``IN_MATCH(q)`` accepting with flush ``repl`` for
    accepting ``q`` would define the same function but with two runs per such
    input; the unambiguous variant keeps the squaring construction smaller.)

    Correctness: for every input exactly one run survives, namely the one
    whose guesses are all true -- whether a match starts at a position and
    where the longest one ends is determined by the remaining input, wrong
    "no" guesses are killed by an obligation turning accepting, wrong "yes"
    guesses die because ``M`` gets stuck or never accepts again.  The surviving
    run copies the symbols outside the leftmost-longest matches and emits
    ``repl`` per match, which is ``re.sub`` under leftmost-longest semantics.
    """
    alphabet = check_alphabet(alphabet)
    _require_over(repl, alphabet, "regex_sub: repl")
    if "\\" in repl:
        raise NotImplementedError(
            "regex_sub_fst: a backslash in repl would be template-processed by re.sub; "
            "resolve it first (repl is taken literally here)")
    M = dfa_from_regex(pattern, alphabet, "fullmatch", allow_lazy=False, allow_anchors=False)
    if M.init in M.accepting:
        raise ValueError("regex_sub_fst: the pattern can match the empty string")
    acc = M.accepting
    live = M.live_states()
    trans = M.trans
    q0 = M.init
    # later[q]: an accepting state is reachable from q in >= 1 steps
    later = [any(trans[q][a] in live for a in alphabet) for q in range(M.n_states)]

    def advance(obl, a):
        new = set()
        for o in obl:
            o2 = trans[o][a]
            if o2 in acc:
                return None
            if later[o2]:
                new.add(o2)
        return new

    def step(state, a):
        mode, obl = state
        new = advance(obl, a)
        if new is None:
            return []
        res = []
        if mode == _COPY:
            q = trans[q0][a]
            if q not in acc:                       # guess: no match starts here
                o2 = set(new)
                if later[q]:
                    o2.add(q)
                res.append(((_COPY, frozenset(o2)), a))
            if q not in live:                      # guess: a match starts here
                return res
        else:
            q = trans[mode][a]
            if q not in live:
                return []
        if later[q]:                               # the match goes on
            res.append(((q, frozenset(new)), ""))
        if q in acc:                               # the match ends here
            o2 = set(new)
            if later[q]:
                o2.add(q)
            res.append(((_COPY, frozenset(o2)), repl))
        return res

    def final(state):
        return "" if state[0] == _COPY else None

    return FST(alphabet, (_COPY, frozenset()), step, final, name="sub(%r,%r)" % (pattern, repl))


def regex_split_fst(pattern, marker, alphabet):
    """``re.split(pattern, s)`` as a marker-encoded list: simply
    ``regex_sub_fst(pattern, marker, alphabet)`` -- replacing every separator
    match by the marker symbol *is* the marker encoding of the split result
    (for a pattern without capturing groups' contents being kept: ``re.split``
    additionally inserts the text of capturing groups into the list, which is
    NOT modelled; use non-capturing groups).  The encoding is faithful only on
    inputs that do not themselves contain the marker."""
    if not isinstance(marker, str) or len(marker) != 1:
        raise ValueError("marker must be a single symbol")
    return regex_sub_fst(pattern, marker, alphabet)


def crosscheck_regex_sub(pattern, repl, alphabet, maxlen, fst=None):
    """Compare ``regex_sub_fst`` with CPython's ``re.sub`` on every string over
    the alphabet up to length ``maxlen``.  Returns ``(checked, disagreements,
    first_counterexample_or_None)``."""
    import re as _re
    if fst is None:
        fst = regex_sub_fst(pattern, repl, alphabet)
    rx = _re.compile(pattern)
    const = lambda m: repl
    checked = bad = 0
    first = None
    for s, outs in fst.enumerate(maxlen):
        checked += 1
        want = rx.sub(const, s)
        if outs != {want}:
            bad += 1
            if first is None:
                first = (s, want, sorted(outs))
    return checked, bad, first
