"""Decision procedures on functional transducers.

``equivalent``   -- do two functional transducers define the same partial function
                    (on a regular domain)?  Shortest counterexample otherwise.
``functional``   -- is a transducer functional?
``image_subset`` -- are all outputs inside a regular language?
``differing_inputs_dfa`` -- the exact regular set of inputs on which two
                    transducers differ (when delays stay bounded).

Method for equivalence/functionality (Beal, Carton, Prieur, Sakarovitch,
"Squaring transducers", TCS 2003; Schuetzenberger's delay argument):

1. *Domain agreement.*  Ignoring outputs, both transducers are NFAs.  A
   simultaneous subset construction (together with the domain DFA) finds a
   shortest input accepted by exactly one of them, if any.

2. *Product and co-accessibility.*  Build the reachable part of the product
   ``T x S x D`` ignoring outputs.  A product state ``(p, s, d)`` is
   *co-accessible* if some common continuation leads all three components to
   acceptance.  Only pairs of runs through co-accessible states can ever be
   completed to two accepting runs on the same input, so everything else is
   pruned (this is essential: doomed non-deterministic guesses accumulate
   arbitrary delays).

3. *Delay exploration.*  Breadth-first over ``(product state, delay)`` where the
   delay ``(u, v)`` (one of them empty) is what remains of the two outputs
   produced so far after cancelling their common prefix.  If after a step
   neither remainder is a prefix of the other, the two outputs already
   disagree at some position and *every* completion of the two runs yields
   different outputs: since the target is co-accessible, a completion exists
   and the resulting input is a genuine counterexample.  At an accepting
   product state the two flushes must equalise the outputs.  If the search
   closes without a violation, every pair of accepting runs on a common input
   produces equal outputs: the transducers are equivalent (and each one is
   functional on the common domain).

   For equivalent transducers the delays on co-accessible states are bounded
   (by #states * max-output-length), so the search space is finite; for
   inequivalent ones a violation sits at finite depth and BFS reaches it.  A
   ``delay_cap`` turns a (theoretically impossible for equivalent operands, but
   possibly very long) divergence into the verdict ``'undecided'``.

   If the search is cut short (cap or ``max_states``) without a violation, one
   more refutation argument is tried: for equivalent operands the delay at a
   co-accessible product state is *unique*; two input prefixes reaching the same
   product state with different delays, extended by a common accepting
   continuation, therefore contain a differing input (confirmed by evaluation;
   not necessarily shortest).

Soundness of the verdicts:
* ``'equivalent'`` is only returned when phases 1-3 ran to completion with no cap
  or limit hit.
* ``'differ'`` is only returned after the witness has been *re-run* through
  ``FST.apply`` on both sides (and the domain DFA) and really shows different
  results.
* everything else is ``'undecided'``.

Shortest witness: candidates from phase 1 have their own length; a violation
detected when stepping to product state ``t`` at depth ``k+1`` yields a witness of
length ``k + 1 + dist(t)`` (``dist`` = length of a shortest accepting
continuation).  The BFS continues until no deeper level can beat the best
candidate.  Because BFS reaches every ``(state, delay)`` configuration at its
minimal depth and the future behaviour depends only on the configuration, the
best candidate is a globally shortest differing input, provided no cap/limit
was hit (``Result.shortest`` records this).
"""
from __future__ import annotations

from collections import deque
from dataclasses import dataclass, field

from .regex import DFA, StateLimitExceeded, dfa_all

__all__ = [
    "Result",
    "equivalent",
    "functional",
    "image_subset",
    "differing_inputs_dfa",
    "domain_dfa",
]


@dataclass
class Result:
    """Outcome of a decision procedure.

    status   'equivalent' | 'differ' | 'undecided'
             (for ``functional``: 'equivalent' = functional, 'differ' = not;
              for ``image_subset``: 'equivalent' = the inclusion holds)
    witness  for 'differ': an input string exhibiting the difference
    left/right  what the two sides produce on the witness: ``None`` (undefined),
             a string, or a sorted tuple of strings (non-functional operand).
             For ``image_subset``: left = offending output, right = None.
    states   number of search configurations explored
    reason   human-readable explanation
    shortest True if the witness is guaranteed to be of minimal length
    stats    assorted counters (product size, cap, ...)
    """
    status: str
    witness: str | None = None
    left: object = None
    right: object = None
    states: int = 0
    reason: str = ""
    shortest: bool = False
    stats: dict = field(default_factory=dict)

    @property
    def ok(self):
        return self.status == "equivalent"

    def __bool__(self):  # guard against accidental truthiness tests
        raise TypeError("Result has no truth value; inspect .status")


def _fmt_outputs(outs):
    if not outs:
        return None
    if len(outs) == 1:
        return next(iter(outs))
    return tuple(sorted(outs))


def _check_alphabets(T, S, domain):
    if set(T.alphabet) != set(S.alphabet):
        raise ValueError("transducers are over different alphabets")
    if domain is not None and set(domain.alphabet) != set(T.alphabet):
        raise ValueError("domain DFA is over a different alphabet")


# ---------------------------------------------------------------------------
# phase 1: domain agreement
# ---------------------------------------------------------------------------

def _subset_step(T, ids, a):
    new = set()
    for i in ids:
        for j, _ in T.delta_id(i, a):
            new.add(j)
    return frozenset(new)


def _accepting_subset(T, ids):
    for i in ids:
        if T.finals_id(i):
            return True
    return False


def _domain_witness(T, S, D, max_states, max_len=None):
    """Shortest input in L(D) accepted by exactly one of dom(T), dom(S).
    Returns ``(status, witness, explored)`` with status 'agree' | 'differ' | 'limit'."""
    live = D.live_states()
    if D.init not in live:
        return "agree", None, 0
    start = (frozenset([0]), frozenset([0]), D.init)
    parent = {start: None}
    frontier = [start]
    depth = 0

    def build(st):
        out = []
        while parent[st] is not None:
            st, a = parent[st]
            out.append(a)
        return "".join(reversed(out))

    while frontier:
        for st in frontier:
            A, B, d = st
            if d in D.accepting and _accepting_subset(T, A) != _accepting_subset(S, B):
                return "differ", build(st), len(parent)
        if max_len is not None and depth >= max_len:
            return "agree", None, len(parent)
        nxt = []
        for st in frontier:
            A, B, d = st
            for a in T.alphabet:
                d2 = D.trans[d][a]
                if d2 not in live:
                    continue
                A2 = _subset_step(T, A, a)
                B2 = _subset_step(S, B, a)
                if not A2 and not B2:
                    continue
                st2 = (A2, B2, d2)
                if st2 in parent:
                    continue
                parent[st2] = (st, a)
                if len(parent) > max_states:
                    return "limit", None, len(parent)
                nxt.append(st2)
        frontier = nxt
        depth += 1
    return "agree", None, len(parent)


# ---------------------------------------------------------------------------
# phase 2: product graph, co-accessibility
# ---------------------------------------------------------------------------

class _Product:
    """Reachable part of T x S x D (outputs kept on the edges)."""

    def __init__(self, T, S, D, max_states):
        self.T, self.S, self.D = T, S, D
        live = D.live_states()
        self.nodes = []
        self.index = {}
        self.succ = []     # succ[n] = list of (a, o1, o2, n2)
        self.maxout = 0
        self.overflow = False
        if D.init not in live:
            self.dist = []
            self.next = []
            self.accepting = []
            return
        self.index[(0, 0, D.init)] = 0
        self.nodes.append((0, 0, D.init))
        n = 0
        alphabet = T.alphabet
        while n < len(self.nodes):
            p, s, d = self.nodes[n]
            edges = []
            for a in alphabet:
                d2 = D.trans[d][a]
                if d2 not in live:
                    continue
                ts = T.delta_id(p, a)
                if not ts:
                    continue
                ss = S.delta_id(s, a)
                for p2, o1 in ts:
                    for s2, o2 in ss:
                        key = (p2, s2, d2)
                        m = self.index.get(key)
                        if m is None:
                            m = len(self.nodes)
                            if m >= max_states:
                                self.overflow = True
                                return
                            self.index[key] = m
                            self.nodes.append(key)
                        edges.append((a, o1, o2, m))
                        if len(o1) > self.maxout:
                            self.maxout = len(o1)
                        if len(o2) > self.maxout:
                            self.maxout = len(o2)
            self.succ.append(edges)
            n += 1
        # accepting product states
        self.accepting = []
        for (p, s, d) in self.nodes:
            f1 = T.finals_id(p)
            f2 = S.finals_id(s)
            ok = bool(f1) and bool(f2) and d in D.accepting
            self.accepting.append(ok)
            if ok:
                for f in f1 + f2:
                    if len(f) > self.maxout:
                        self.maxout = len(f)
        # backward BFS: dist[n] = length of a shortest accepting continuation
        N = len(self.nodes)
        pred = [[] for _ in range(N)]
        for n, edges in enumerate(self.succ):
            for (a, _o1, _o2, m) in edges:
                pred[m].append((n, a))
        self.dist = [None] * N
        self.next = [None] * N
        queue = deque()
        for n in range(N):
            if self.accepting[n]:
                self.dist[n] = 0
                queue.append(n)
        while queue:
            m = queue.popleft()
            for (n, a) in pred[m]:
                if self.dist[n] is None:
                    self.dist[n] = self.dist[m] + 1
                    self.next[n] = (a, m)
                    queue.append(n)

    def n_coaccessible(self):
        return sum(1 for x in self.dist if x is not None)

    def continuation(self, n):
        out = []
        while self.next[n] is not None and not self.accepting[n]:
            a, n = self.next[n]
            out.append(a)
        return "".join(out)


def _split_delay(x, y):
    """Cancel the common prefix of x and y; return the residual delay ``(u, v)``
    with one component empty, or ``None`` if x and y are incompatible."""
    lx, ly = len(x), len(y)
    if lx >= ly:
        if x.startswith(y):
            return (x[ly:], "")
        return None
    if y.startswith(x):
        return ("", y[lx:])
    return None


# ---------------------------------------------------------------------------
# phase 3: delay BFS
# ---------------------------------------------------------------------------

def _squaring(T, S, domain, max_states, delay_cap, check_domains, what):
    _check_alphabets(T, S, domain)
    D = domain if domain is not None else dfa_all(T.alphabet)
    stats = {}
    explored = 0
    notes = []

    best = None            # (length, witness, kind)
    complete = True        # no cap / limit hit so far

    # ---- phase 1 ----
    if check_domains:
        st, w, cnt = _domain_witness(T, S, D, max_states)
        explored += cnt
        stats["domain_subset_states"] = cnt
        if st == "differ":
            best = (len(w), w, "domain")
        elif st == "limit":
            complete = False
            notes.append("domain comparison exceeded max_states")

    # ---- phase 2 ----
    prod = _Product(T, S, D, max_states)
    if prod.overflow:
        stats["product_states"] = len(prod.nodes)
        if best is not None:
            return _finish_differ(T, S, D, best, explored, stats, False,
                                  notes + ["product exceeded max_states"], what)
        return Result("undecided", states=explored + len(prod.nodes), stats=stats,
                      reason="product automaton exceeded max_states=%d" % max_states)
    N = len(prod.nodes)
    ncoacc = prod.n_coaccessible()
    stats["product_states"] = N
    stats["coaccessible"] = ncoacc
    stats["max_output_len"] = prod.maxout
    explored += N
    if delay_cap is None:
        delay_cap = 4 * ncoacc * max(prod.maxout, 1) + 8
    stats["delay_cap"] = delay_cap

    cap_hit = None
    limit_hit = False
    conflict = None
    configs = 0
    maxdelay = 0

    if N and prod.dist[0] is not None:
        dist = prod.dist
        succ = prod.succ
        nodes = prod.nodes
        start = (0, "", "")
        parent = {start: None}
        first_seen = {0: (start, None, None)}   # product node -> (first delay cfg, its parent cfg, symbol)

        def prefix_of(cfg):
            out = []
            while parent[cfg] is not None:
                cfg, a = parent[cfg]
                out.append(a)
            return "".join(reversed(out))

        def flush_mismatch(n, u, v):
            p, s, _d = nodes[n]
            for f1 in T.finals_id(p):
                for f2 in S.finals_id(s):
                    if u + f1 != v + f2:
                        return True
            return False

        if prod.accepting[0] and flush_mismatch(0, "", ""):
            if best is None or 0 < best[0]:
                best = (0, "", "output")
        frontier = [start]
        depth = 0
        # a candidate found while expanding level `depth` has length >= depth + 1
        while frontier and (best is None or depth + 1 < best[0]) and not limit_hit:
            nxt = []
            for cfg in frontier:
                n, u, v = cfg
                for (a, o1, o2, m) in succ[n]:
                    dm = dist[m]
                    if dm is None:
                        continue
                    cand = depth + 1 + dm
                    delay = _split_delay(u + o1, v + o2)
                    if delay is None:
                        if best is None or cand < best[0]:
                            best = (cand, prefix_of(cfg) + a + prod.continuation(m), "output")
                        continue
                    cfg2 = (m, delay[0], delay[1])
                    if cfg2 in parent:
                        continue
                    fs = first_seen.get(m)
                    if fs is None:
                        first_seen[m] = (cfg2, cfg, a)
                    elif conflict is None and fs[0] != cfg2:
                        conflict = (fs, cfg, a, m)   # two different delays at one product node
                    if prod.accepting[m] and flush_mismatch(m, delay[0], delay[1]):
                        if best is None or depth + 1 < best[0]:
                            parent[cfg2] = (cfg, a)
                            best = (depth + 1, prefix_of(cfg2), "output")
                            nxt.append(cfg2)
                            continue
                    dl = len(delay[0]) + len(delay[1])
                    if dl > delay_cap:
                        if cap_hit is None:
                            cap_hit = prefix_of(cfg) + a
                        continue
                    if dl > maxdelay:
                        maxdelay = dl
                    parent[cfg2] = (cfg, a)
                    if len(parent) > max_states:
                        limit_hit = True
                        break
                    nxt.append(cfg2)
                if limit_hit:
                    break
            frontier = nxt
            depth += 1
        configs = len(parent)
        if best is None and conflict is not None and (cap_hit is not None or limit_hit):
            # Fallback when the search was cut short.  Two input prefixes lead to the same
            # co-accessible product node with different delays (u1,v1) != (u2,v2).  For an accepting
            # continuation w with outputs x / y, "u1 x = v1 y and u2 x = v2 y" forces the delays to
            # be equal (each pair has an empty component), so at least one of prefix1.w, prefix2.w is
            # a differing input.  It is not necessarily a shortest one.
            (_cfg1, par1, a1), cfg, a, m = conflict
            tail = prod.continuation(m)
            prefix1 = "" if par1 is None else prefix_of(par1) + a1
            for cand in (prefix1 + tail, prefix_of(cfg) + a + tail):
                lo, ro = T.apply(cand), S.apply(cand)
                if lo != ro or len(lo) > 1:
                    best = (len(cand), cand, "output")
                    notes.append("witness obtained from a delay conflict after the search was cut short")
                    break
    explored += configs
    stats["delay_configs"] = configs
    stats["max_delay"] = maxdelay

    if cap_hit is not None:
        complete = False
        notes.append("delay exceeded cap %d after input prefix %r" % (delay_cap, cap_hit))
    if limit_hit:
        complete = False
        notes.append("delay exploration exceeded max_states=%d" % max_states)

    if best is not None:
        return _finish_differ(T, S, D, best, explored, stats, complete, notes, what)
    if not complete:
        return Result("undecided", states=explored, stats=stats, reason="; ".join(notes))
    return Result("equivalent", states=explored, stats=stats,
                  reason="%s: %d product states (%d co-accessible), %d delay configurations, max delay %d"
                         % (what, N, ncoacc, configs, maxdelay))


def _finish_differ(T, S, D, best, explored, stats, complete, notes, what):
    """Confirm the candidate witness by actually running both transducers."""
    _length, w, kind = best
    lo = T.apply(w)
    ro = S.apply(w) if S is not T else lo
    in_dom = D.accepts(w)
    if S is T:
        confirmed = in_dom and len(lo) > 1
    else:
        confirmed = in_dom and (lo != ro or len(lo) > 1 or len(ro) > 1)
    if not confirmed:
        return Result("undecided", witness=w, left=_fmt_outputs(lo), right=_fmt_outputs(ro),
                      states=explored, stats=stats,
                      reason="INTERNAL: candidate witness %r (%s) was not confirmed by direct evaluation"
                             % (w, kind))
    if S is T:
        outs = sorted(lo)
        left, right = outs[0], outs[1]
        reason = "two accepting runs on the witness give different outputs"
    else:
        left, right = _fmt_outputs(lo), _fmt_outputs(ro)
        if kind == "domain" or (not lo) != (not ro):
            reason = "exactly one side is defined on the witness"
        elif lo == ro:
            reason = "an operand is not functional on the witness (several outputs)"
        else:
            reason = "outputs differ on the witness"
    if notes:
        reason += " [" + "; ".join(notes) + " -- witness may not be shortest]"
    return Result("differ", witness=w, left=left, right=right, states=explored, stats=stats,
                  reason=reason, shortest=complete)


# ---------------------------------------------------------------------------
# public API
# ---------------------------------------------------------------------------

def equivalent(T, S, domain=None, max_states=2_000_000, delay_cap=None):
    """Decide whether the functional transducers T and S agree on every input
    of ``domain`` (a DFA; default: all strings): both undefined, or both
    defined with the same output.

    Returns a ``Result``.  'equivalent' additionally certifies that both
    operands are functional on the domain; if an operand is *not* functional
    the verdict is 'differ' (with a tuple of outputs in left/right).
    """
    return _squaring(T, S, domain, max_states, delay_cap, True, "equivalence")


def functional(T, domain=None, max_states=2_000_000, delay_cap=None):
    """Decide whether T is functional (on ``domain``): any two accepting runs on
    the same input produce the same output.  This is the squaring
    construction ``T x T``.  status 'equivalent' means functional; on 'differ'
    ``left``/``right`` are two distinct outputs for ``witness``."""
    return _squaring(T, T, domain, max_states, delay_cap, False, "functionality")


def image_subset(T, dfa, domain=None, max_states=2_000_000):
    """Decide whether every output of T on inputs from ``domain`` is accepted by
    ``dfa``.

    Product construction: configurations ``(p, d, e)`` with ``p`` a state of T,
    ``d`` the state of the domain DFA after the input read so far and ``e`` the
    state of ``dfa`` after the output produced so far.  A reachable
    configuration with ``p`` accepting (flush f), ``d`` accepting and
    ``dfa.run(e, f)`` not accepting is a violation; BFS order makes the
    reconstructed input a shortest one.  The space is finite
    (|T| * |domain| * |dfa|), so there is no 'undecided' except for
    ``max_states``.  status 'equivalent' = inclusion holds; on 'differ'
    ``witness`` is the input and ``left`` the offending output.
    """
    if set(T.alphabet) != set(dfa.alphabet):
        raise ValueError("image_subset: DFA is over a different alphabet")
    if domain is not None and set(domain.alphabet) != set(T.alphabet):
        raise ValueError("domain DFA is over a different alphabet")
    D = domain if domain is not None else dfa_all(T.alphabet)
    live = D.live_states()
    if D.init not in live:
        return Result("equivalent", reason="empty domain")
    start = (0, D.init, dfa.init)
    parent = {start: None}
    frontier = [start]

    def build(cfg):
        out = []
        while parent[cfg] is not None:
            cfg, a = parent[cfg]
            out.append(a)
        return "".join(reversed(out))

    while frontier:
        for cfg in frontier:
            p, d, e = cfg
            if d in D.accepting:
                for f in T.finals_id(p):
                    if dfa.run(e, f) not in dfa.accepting:
                        w = build(cfg)
                        outs = T.apply(w)
                        bad = sorted(o for o in outs if not dfa.accepts(o))
                        if not bad or not D.accepts(w):
                            return Result("undecided", witness=w, states=len(parent),
                                          reason="INTERNAL: image violation not confirmed")
                        return Result("differ", witness=w, left=bad[0], right=None,
                                      states=len(parent), shortest=True,
                                      reason="output not in the target language")
        nxt = []
        for cfg in frontier:
            p, d, e = cfg
            for a in T.alphabet:
                d2 = D.trans[d][a]
                if d2 not in live:
                    continue
                for p2, o in T.delta_id(p, a):
                    cfg2 = (p2, d2, dfa.run(e, o))
                    if cfg2 in parent:
                        continue
                    parent[cfg2] = (cfg, a)
                    if len(parent) > max_states:
                        return Result("undecided", states=len(parent),
                                      reason="image_subset exceeded max_states=%d" % max_states)
                    nxt.append(cfg2)
        frontier = nxt
    return Result("equivalent", states=len(parent),
                  reason="all %d reachable configurations satisfy the inclusion" % len(parent))


def domain_dfa(T, limit=1_000_000):
    """The domain of T (inputs with at least one accepting run) as a DFA
    (subset construction)."""
    return DFA.from_function(
        T.alphabet, frozenset([0]),
        lambda ids, a: _subset_step(T, ids, a),
        lambda ids: _accepting_subset(T, ids),
        limit=limit).minimize()


def differing_inputs_dfa(T, S, domain=None, delay_cap=None, max_states=200_000):
    """The exact set ``{w in domain | T and S disagree on w}`` as a minimal DFA,
    or ``None`` if it could not be computed (delay above the cap on some
    co-accessible configuration, or state limits).

    "Disagree" = exactly one side defined, or two accepting runs (one of T, one
    of S) with different outputs.  Construction: an NFA whose states are the
    delay configurations of the squaring construction plus, per product state,
    a "mismatch already happened" copy; it accepts when the product state is
    accepting and (mismatch happened or the flushes do not equalise).  Its
    determinisation is combined with the subset construction for the two
    domains.  Unlike ``equivalent`` this needs the delays to be bounded on
    *all* co-accessible configurations, which fails e.g. for
    ``replace('aa','a')`` vs identity although the differing set is regular.
    """
    _check_alphabets(T, S, domain)
    D = domain if domain is not None else dfa_all(T.alphabet)
    prod = _Product(T, S, D, max_states)
    if prod.overflow:
        return None
    if delay_cap is None:
        delay_cap = 4 * prod.n_coaccessible() * max(prod.maxout, 1) + 8
    dist, succ, nodes = prod.dist, prod.succ, prod.nodes

    # explore the NFA
    nfa_index = {}
    nfa_states = []
    nfa_edges = []   # per state: dict sym -> set of successor indices
    nfa_acc = []

    def flush_mismatch(n, u, v):
        p, s, _d = nodes[n]
        return any(u + f1 != v + f2 for f1 in T.finals_id(p) for f2 in S.finals_id(s))

    def intern(cfg):
        i = nfa_index.get(cfg)
        if i is None:
            i = len(nfa_states)
            nfa_index[cfg] = i
            nfa_states.append(cfg)
            nfa_edges.append(None)
            n = cfg[0]
            if cfg[1] is None:
                nfa_acc.append(prod.accepting[n])
            else:
                nfa_acc.append(prod.accepting[n] and flush_mismatch(n, cfg[1], cfg[2]))
        return i

    start_set = frozenset()
    if nodes and dist[0] is not None:
        start_set = frozenset([intern((0, "", ""))])
        k = 0
        while k < len(nfa_states):
            n, u, v = nfa_states[k]
            row = {}
            for (a, o1, o2, m) in succ[n]:
                if dist[m] is None:
                    continue
                if u is None:
                    cfg2 = (m, None, None)
                else:
                    delay = _split_delay(u + o1, v + o2)
                    if delay is None:
                        cfg2 = (m, None, None)
                    else:
                        if len(delay[0]) + len(delay[1]) > delay_cap:
                            return None
                        cfg2 = (m, delay[0], delay[1])
                row.setdefault(a, set()).add(intern(cfg2))
                if len(nfa_states) > max_states:
                    return None
            nfa_edges[k] = row
            k += 1

    def step(st, a):
        X, A, B, d = st
        X2 = set()
        for i in X:
            X2.update(nfa_edges[i].get(a, ()))
        return (frozenset(X2), _subset_step(T, A, a), _subset_step(S, B, a), D.trans[d][a])

    def accepting(st):
        X, A, B, d = st
        if d not in D.accepting:
            return False
        if _accepting_subset(T, A) != _accepting_subset(S, B):
            return True
        return any(nfa_acc[i] for i in X)

    try:
        dfa = DFA.from_function(T.alphabet, (start_set, frozenset([0]), frozenset([0]), D.init),
                                step, accepting, limit=max_states)
    except StateLimitExceeded:
        return None
    return dfa.minimize()
